//! C14 demonstration: the transaction verification cache must not change a block verdict.
//!
//! A block whose transactions together need more cycles than `max_block_cycles` must be refused
//! with `ExceededMaximumCycles`, whether the script results of its transactions are computed
//! afresh (cold cache) or come from the verification cache (warm cache: the very same
//! transactions were verified before, one by one, in two small blocks of another branch).
use ckb_chain_spec::consensus::ConsensusBuilder;
use ckb_error::Error;
use ckb_shared::{Shared, SharedBuilder};
use ckb_test_chain_utils::always_success_cell;
use ckb_types::{
    bytes::Bytes,
    core::{
        BlockBuilder, BlockView, Capacity, Cycle, EpochNumberWithFraction, HeaderBuilder,
        HeaderView,
        TransactionBuilder, TransactionView, capacity_bytes,
        cell::{BlockCellProvider, OverlayCellProvider, ResolvedTransaction, resolve_transaction},
    },
    packed::{CellDep, CellInput, CellOutputBuilder, OutPoint, Script},
    prelude::*,
    utilities::merkle_mountain_range::ChainRootMMR,
};
use ckb_verification::cache::{Completed, TxVerificationCache, init_cache};
use ckb_verification_contextual::{ContextualBlockVerifier, VerifyContext};
use ckb_verification_traits::Switch;
use std::collections::HashSet;
use std::sync::Arc;
use std::time::Duration;
use tokio::sync::RwLock;

type Cache = Arc<RwLock<TxVerificationCache>>;

fn cellbase(number: u64) -> TransactionView {
    TransactionBuilder::default()
        .input(CellInput::new_cellbase_input(number))
        .output(CellOutputBuilder::default().build())
        .output_data(Bytes::new())
        .witness(Bytes::new().pack())
        .build()
}

/// A block on top of `parent`; `salt` makes sibling blocks differ.
fn gen_block(parent: &HeaderView, salt: u64, transactions: Vec<TransactionView>) -> BlockView {
    let number = parent.number() + 1;
    let header = HeaderBuilder::default()
        .parent_hash(parent.hash())
        .timestamp(parent.timestamp() + 1 + salt)
        .number(number)
        .epoch(EpochNumberWithFraction::new(0, number, 1000))
        .compact_target(parent.compact_target())
        .nonce(u128::from(salt))
        .build();
    BlockBuilder::default()
        .transaction(cellbase(number))
        .transactions(transactions)
        .header(header)
        .build()
}

/// Spends one always-success cell of the genesis transaction: runs the lock script of the input
/// and the type script of the output.
fn spend(genesis_tx: &TransactionView, index: u32, script: &Script) -> TransactionView {
    TransactionBuilder::default()
        .input(CellInput::new(OutPoint::new(genesis_tx.hash(), index), 0))
        .output(
            CellOutputBuilder::default()
                .capacity(capacity_bytes!(500_000))
                .lock(script.clone())
                .type_(Some(script.clone()))
                .build(),
        )
        .output_data(Bytes::new())
        .cell_dep(
            CellDep::new_builder()
                .out_point(OutPoint::new(genesis_tx.hash(), 0))
                .build(),
        )
        .witness(Bytes::from(index.to_le_bytes().to_vec()).pack())
        .build()
}

fn verify(
    shared: &Shared,
    cache: &Cache,
    block: &BlockView,
) -> Result<(Cycle, Vec<Completed>), Error> { verify_sw(shared, cache, block, Switch::ONLY_SCRIPT) }
fn verify_sw(
    shared: &Shared,
    cache: &Cache,
    block: &BlockView,
    sw: Switch,
) -> Result<(Cycle, Vec<Completed>), Error> {
    let snapshot = Arc::clone(&shared.snapshot());
    let context = VerifyContext::new(Arc::clone(&snapshot), shared.cloned_consensus());

    let mut seen_inputs = HashSet::new();
    let block_cells = BlockCellProvider::new(block).unwrap();
    let cell_provider = OverlayCellProvider::new(&block_cells, snapshot.as_ref());
    let resolved: Vec<Arc<ResolvedTransaction>> = block
        .transactions()
        .into_iter()
        .map(|tx| {
            resolve_transaction(tx, &mut seen_inputs, &cell_provider, snapshot.as_ref())
                .map(Arc::new)
                .unwrap()
        })
        .collect();

    let mmr = ChainRootMMR::new(0, snapshot.as_ref());
    ContextualBlockVerifier::new(
        context,
        shared.async_handle(),
        sw,
        Arc::clone(cache),
        &mmr,
    )
    .verify(&resolved, block)
}

/// The verifier fills the cache from a spawned task: wait until it holds `len` entries.
fn wait_for_cache(cache: &Cache, len: usize) {
    for _ in 0..500 {
        if cache.blocking_read().len() >= len {
            return;
        }
        std::thread::sleep(Duration::from_millis(10));
    }
    panic!("the verification cache was not filled");
}

fn verdict(ret: &Result<(Cycle, Vec<Completed>), Error>) -> String {
    match ret {
        Ok((cycles, entries)) => format!("Ok(cycles: {cycles}, entries: {entries:?})"),
        Err(err) => format!("Err({err})"),
    }
}

#[test]
fn warm_verification_cache_does_not_lift_the_block_cycle_limit() {
    let (always_success_cell, always_success_cell_data, always_success_script) =
        always_success_cell();
    let genesis_tx = TransactionBuilder::default()
        .witness(always_success_script.clone().into_witness())
        .input(CellInput::new(OutPoint::null(), 0))
        .output(always_success_cell.clone())
        .outputs(vec![
            CellOutputBuilder::default()
                .capacity(capacity_bytes!(1_000_000))
                .lock(always_success_script.clone())
                .build();
            4
        ])
        .output_data(always_success_cell_data.to_owned())
        .outputs_data(vec![Bytes::new().into(); 4])
        .build();
    let genesis_block = BlockBuilder::default()
        .transaction(genesis_tx.clone())
        .build();

    // first learn what one transaction costs, with the default (huge) block cycle limit
    let tx1 = spend(&genesis_tx, 1, always_success_script);
    let tx2 = spend(&genesis_tx, 2, always_success_script);
    let tx_cycles = {
        let consensus = ConsensusBuilder::default()
            .genesis_block(genesis_block.clone())
            .cellbase_maturity(EpochNumberWithFraction::new(0, 0, 1))
            .build();
        let (shared, _pack) = SharedBuilder::with_temp_db()
            .consensus(consensus)
            .build()
            .unwrap();
        let genesis = shared.consensus().genesis_block().header();
        let cache: Cache = Arc::new(RwLock::new(init_cache()));
        let (cycles, entries) =
            verify(&shared, &cache, &gen_block(&genesis, 0, vec![tx1.clone()])).unwrap();
        assert_eq!(entries.len(), 1);
        assert_eq!(cycles, entries[0].cycles);
        assert!(cycles > 0);
        cycles
    };

    // a block cycle limit with room for one such transaction, but not for two
    let max_block_cycles = tx_cycles + tx_cycles / 2;
    let consensus = ConsensusBuilder::default()
        .genesis_block(genesis_block)
        .cellbase_maturity(EpochNumberWithFraction::new(0, 0, 1))
        .max_block_cycles(max_block_cycles)
        .build();
    let (shared, _pack) = SharedBuilder::with_temp_db()
        .consensus(consensus)
        .build()
        .unwrap();
    let genesis = shared.consensus().genesis_block().header();

    let small_1 = gen_block(&genesis, 1, vec![tx1.clone()]);
    let small_2 = gen_block(&genesis, 2, vec![tx2.clone()]);
    let big = gen_block(&genesis, 3, vec![tx1, tx2]);

    // cold: every script result is computed afresh
    let cold_cache: Cache = Arc::new(RwLock::new(init_cache()));
    let cold = verify(&shared, &cold_cache, &big);
    assert!(
        cold.as_ref()
            .err()
            .is_some_and(|err| err.to_string().contains("ExceededMaximumCycles")),
        "cold verdict of the big block: {}",
        verdict(&cold)
    );

    // warm: both transactions were verified before, in two small sibling blocks
    let warm_cache: Cache = Arc::new(RwLock::new(init_cache()));
    let small_1_ret = verify(&shared, &warm_cache, &small_1);
    assert!(small_1_ret.is_ok(), "small block 1: {}", verdict(&small_1_ret));
    let small_2_ret = verify(&shared, &warm_cache, &small_2);
    assert!(small_2_ret.is_ok(), "small block 2: {}", verdict(&small_2_ret));
    wait_for_cache(&warm_cache, 2);
    let warm = verify(&shared, &warm_cache, &big);

    assert_eq!(
        verdict(&warm),
        verdict(&cold),
        "the verification cache changed the verdict of the block \
         (max_block_cycles = {max_block_cycles}, cycles per transaction = {tx_cycles})"
    );
}

#[test]
fn probe_disable_script_poisons_cache() {
    let (always_success_cell, always_success_cell_data, always_success_script) =
        always_success_cell();
    let genesis_tx = TransactionBuilder::default()
        .witness(always_success_script.clone().into_witness())
        .input(CellInput::new(OutPoint::null(), 0))
        .output(always_success_cell.clone())
        .outputs(vec![
            CellOutputBuilder::default()
                .capacity(capacity_bytes!(1_000_000))
                .lock(always_success_script.clone())
                .build();
            4
        ])
        .output_data(always_success_cell_data.to_owned())
        .outputs_data(vec![Bytes::new().into(); 4])
        .build();
    let genesis_block = BlockBuilder::default().transaction(genesis_tx.clone()).build();
    let tx1 = spend(&genesis_tx, 1, always_success_script);
    let consensus = ConsensusBuilder::default()
        .genesis_block(genesis_block)
        .cellbase_maturity(EpochNumberWithFraction::new(0, 0, 1))
        .build();
    let (shared, _pack) = SharedBuilder::with_temp_db().consensus(consensus).build().unwrap();
    let genesis = shared.consensus().genesis_block().header();
    let cache: Cache = Arc::new(RwLock::new(init_cache()));
    let a = verify_sw(&shared, &cache, &gen_block(&genesis, 0, vec![tx1.clone()]), Switch::DISABLE_ALL);
    println!("assume-valid style: {}", verdict(&a));
    std::thread::sleep(Duration::from_millis(500));
    let b = verify(&shared, &cache, &gen_block(&genesis, 1, vec![tx1.clone()]));
    println!("full verification afterwards (warm): {}", verdict(&b));
    let cold: Cache = Arc::new(RwLock::new(init_cache()));
    let c = verify(&shared, &cold, &gen_block(&genesis, 1, vec![tx1]));
    println!("full verification (cold): {}", verdict(&c));
    assert_eq!(verdict(&b), verdict(&c));
}
