#!/usr/bin/env python3
# writes corpus/C15/view-boundaries.ops: hand-shaped blocks for stream `view`
import struct
le32=lambda n: struct.pack('<I',n)
def dyn(items):
    if not items: return le32(4)
    hdr=4*(len(items)+1); offs=[]; pos=hdr
    for it in items: offs.append(pos); pos+=len(it)
    return le32(pos)+b''.join(le32(o) for o in offs)+b''.join(items)
fix=lambda items: le32(len(items))+b''.join(items)
bytes_=lambda b: le32(len(b))+b
def header(seed, number=0):
    h=bytearray(208)
    h[0:4]=le32(0); h[4:8]=le32(0x20010000); h[8:16]=struct.pack('<Q',1000+seed); h[16:24]=struct.pack('<Q',number)
    h[24:32]=struct.pack('<Q',(1000<<40)|(3<<24)|7)  # epoch 7, index 3, length 1000
    for i in range(32,64): h[i]=(seed*7+i)&0xff
    for i in range(64,160): h[i]=(seed+i*3)&0xff   # garbage commitments
    for i in range(160,192): h[i]=(seed^i)&0xff
    h[192:208]=struct.pack('<QQ',seed,0)
    return bytes(h)
def rawtx(version=0, outputs_data=()):
    return dyn([le32(version), fix([]), fix([]), fix([]), dyn([]), dyn([bytes_(d) for d in outputs_data])])
def tx(version=0, outputs_data=(), witnesses=()):
    return dyn([rawtx(version, outputs_data), dyn([bytes_(w) for w in witnesses])])
def uncle(seed, props=()):
    return dyn([header(seed, number=5), fix(list(props))])
def block(hdr, uncles, txs, props, ext=None):
    items=[hdr, dyn(uncles), dyn(txs), fix(list(props))]
    if ext is not None: items.append(bytes_(ext))
    return dyn(items)
pid=lambda k: bytes([k])*10
blocks=[
 ("empty block, no extension", block(header(1), [], [], [])),
 ("empty block, extension present but empty", block(header(1), [], [], [], b'')),
 ("one tx, extension one byte", block(header(2), [], [tx()], [], b'\x00')),
 ("the single raw transaction is exactly 64 bytes long (an inner-node-sized pre-image)", block(header(3), [], [tx(0,(b'\x01\x02\x03\x04',))], [pid(1)])),
 ("two identical transactions and one differing only in witnesses", block(header(4, number=9), [], [tx(1), tx(1), tx(1,(),(b'w',))], [pid(2), pid(1), pid(2)])),
 ("two uncles (one with proposals), extension = 208 bytes that are a header encoding", block(header(5), [uncle(6,(pid(9),pid(8))), uncle(7)], [tx(2), tx(3)], [], header(7, number=5))),
 ("seven transactions (odd leaf count), 96-byte extension, one uncle", block(header(8), [uncle(9)], [tx(v) for v in range(7)], [pid(3)], bytes(range(96)))),
 ("eight transactions (even leaf count), no extension, three uncles", block(header(10), [uncle(11), uncle(12,(pid(1),)), uncle(13)], [tx(v,(),(bytes([v]),)) for v in range(8)], [pid(4), pid(5)])),
]
out=["# property C15 stream view",
     "# hand-shaped boundary cases for the view layer: leaf counts around powers of two for the CBMT,",
     "# extension absent / empty / header-sized, a 64-byte raw transaction, duplicate transactions, uncles with proposals",
     "case 1 cbmt-boundaries"]
for n in [0,1,2,3,4,5,6,7,8,9,15,16,17,31,32,33,63,64,65,127,128,129,255,256,257]:
    out.append(f"cbmt {n}")
for i,(label,b) in enumerate(blocks):
    out.append(f"case {i+2} {label}")
    out.append(f"vblk {i*8+i} {b.hex()}")
open('/verif/corpus/C15/view-boundaries.ops','w').write("\n".join(out)+"\n")
print(len(out))
