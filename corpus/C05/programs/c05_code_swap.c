/* C05 custom program: a VM that loaded code from a non-zero cell offset is swapped out and in again
 * by the scheduler (more than 4 VMs alive) before it calls that code.
 *   vm0 (root): spawn vm1; wait(vm1); exit with vm1's exit code
 *   vm1       : load page 2 of cell dep #1 as code; spawn vm2..vm5 (booting vm5 evicts vm1 itself);
 *               work; call the code (must return 12); exit 0
 *   vm2..vm5  : wait(vm0) - blocked until the root exits
 * cell dep #0 = this program, cell dep #1 = "c05_lib_pages" (page i: `li a0, 10+i; ret`). */
#include "c05_sys.h"
static u8 buf[4096] __attribute__((aligned(4096)));
void _start(void) {
  u64 pid = sc6(SYS_PROCESS_ID, 0, 0, 0, 0, 0, 0);
  u64 no_fds[1] = { 0 };
  u64 child = 0;
  long r;
  if (pid == 0) {
    r = spawn_dep(0, no_fds, &child);
    if (r != 0) do_exit(20 + r);
    signed char code = 77;
    r = sc6(SYS_WAIT, child, (long)&code, 0, 0, 0, 0);
    if (r != 0) do_exit(30 + r);
    do_exit(code);
  } else if (pid == 1) {
    r = sc6(SYS_LOAD_CELL_DATA_AS_CODE, (long)buf, 4096, 2 * 4096, 16, 1, SOURCE_CELL_DEP);
    if (r != 0) do_exit(40 + r);
    for (int i = 0; i < 4; i++) {
      r = spawn_dep(0, no_fds, &child);
      if (r != 0) do_exit(50 + r);
      spin(200);
    }
    spin(1000);
    long v = ((long (*)(void))buf)();
    do_exit(v == 12 ? 0 : 60);
  } else {
    signed char code = 0;
    sc6(SYS_WAIT, 0, (long)&code, 0, 0, 0, 0);
    do_exit(80);
  }
}
