/* C05 custom program (i): load_cell_data_as_code from NON-ZERO page-aligned offsets of a multi-page
 * cell, keep working, then call the loaded code (twice, with more work in between).
 * cell dep #1 ("c05_lib_pages"): page i holds `li a0, 10+i; ret`. Script args: byte 0 = first page
 * to load (default 1), byte 1 = spin count / 16 between steps (default 125 -> 2000 iterations).
 * Verdict: exit 0 iff every call returns the value of the page it was loaded from. */
#include "c05_sys.h"
static u8 buf[3][4096] __attribute__((aligned(4096)));
void _start(void) {
  u8 a[2];
  long n = script_args(a, 2);
  long first = (n >= 1 && a[0]) ? a[0] : 1;
  long work = (n >= 2 && a[1]) ? 16L * a[1] : 2000;
  for (long k = 0; k < 3; k++) {
    long page = first + k;
    long r = sc6(SYS_LOAD_CELL_DATA_AS_CODE, (long)buf[k], 4096, 4096 * page, 16, 1, SOURCE_CELL_DEP);
    if (r != 0) do_exit(100 + r);
    spin(work / 4);
  }
  spin(work);
  for (long round = 0; round < 2; round++) {
    for (long k = 0; k < 3; k++) {
      long v = ((long (*)(void))buf[k])();
      if (v != 10 + first + k) do_exit(20 + 10 * round + k);
      spin(work / 2);
    }
  }
  do_exit(0);
}
