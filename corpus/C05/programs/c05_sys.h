/* Freestanding helpers for the custom C05 programs (no libc). Syscall numbers: script/src/syscalls/mod.rs */
typedef unsigned long u64;
typedef unsigned char u8;
static inline long sc6(long n, long a0, long a1, long a2, long a3, long a4, long a5) {
  register long r7 asm("a7") = n;
  register long r0 asm("a0") = a0;
  register long r1 asm("a1") = a1;
  register long r2 asm("a2") = a2;
  register long r3 asm("a3") = a3;
  register long r4 asm("a4") = a4;
  register long r5 asm("a5") = a5;
  asm volatile("ecall" : "+r"(r0) : "r"(r1), "r"(r2), "r"(r3), "r"(r4), "r"(r5), "r"(r7) : "memory");
  return r0;
}
static void do_exit(long code) { sc6(93, code, 0, 0, 0, 0, 0); for (;;) {} }
#define SYS_LOAD_SCRIPT 2052
#define SYS_LOAD_CELL_DATA_AS_CODE 2091
#define SYS_SPAWN 2601
#define SYS_WAIT 2602
#define SYS_PROCESS_ID 2603
#define SYS_PIPE 2604
#define SYS_WRITE 2605
#define SYS_READ 2606
#define SYS_INHERITED_FDS 2607
#define SYS_CLOSE 2608
#define SOURCE_CELL_DEP 3
struct spawn_args { u64 argc; u64 argv; u64 *process_id; u64 *inherited_fds; };
/* spawn the program found in cell dep `index` (place = cell data, whole cell) */
static long spawn_dep(u64 index, u64 *fds, u64 *pid) {
  struct spawn_args args = { 0, 0, pid, fds };
  return sc6(SYS_SPAWN, index, SOURCE_CELL_DEP, 0, 0, (long)&args, 0);
}
/* the first `n` bytes of the script args (molecule Script: total(4) offsets(3x4) code_hash(32) hash_type(1) args: len(4) bytes) */
static long script_args(u8 *out, u64 n) {
  u8 buf[256];
  u64 len = sizeof(buf);
  long r = sc6(SYS_LOAD_SCRIPT, (long)buf, (long)&len, 0, 0, 0, 0);
  if (r != 0) return -1;
  u64 alen = (u64)buf[49] | ((u64)buf[50] << 8) | ((u64)buf[51] << 16) | ((u64)buf[52] << 24);
  for (u64 i = 0; i < n; i++) out[i] = i < alen ? buf[53 + i] : 0;
  return (long)alen;
}
static void spin(long n) { volatile long sink = 0; for (long i = 0; i < n; i++) sink += i; }
