/* C05 custom program (ii): more than 4 live VMs, a pipe transfer that is served while one party is
 * swapped out, and the root exits right after it (the scheduler-side IO/swap charges land in the
 * root's exiting iteration).
 *   vm0 (root): pipe; spawn vm1 with the write end; read ONE byte `reads` times; exit 0
 *   vm1       : spawn `blockers` more VMs (this evicts vm0); write reads+1 bytes (stays blocked)
 *   others    : wait(vm0) - blocked until the root exits
 * Script args: byte 0 = blockers (default 3), byte 1 = reads (default 1). */
#include "c05_sys.h"
void _start(void) {
  u64 pid = sc6(SYS_PROCESS_ID, 0, 0, 0, 0, 0, 0);
  u64 no_fds[1] = { 0 };
  u64 child = 0;
  u8 data[8] = { 0x5a, 0xa5, 0, 0, 0, 0, 0, 0 };
  u8 a[2];
  long n = script_args(a, 2);
  long blockers = (n >= 1 && a[0]) ? a[0] : 3;
  long reads = (n >= 2 && a[1]) ? a[1] : 1;
  if (reads > 6) reads = 6;
  u64 len;
  long r;
  if (pid == 0) {
    u64 pipe_fds[2] = { 0, 0 };
    r = sc6(SYS_PIPE, (long)pipe_fds, 0, 0, 0, 0, 0);
    if (r != 0) do_exit(10 + r);
    u64 pass[2] = { pipe_fds[1], 0 };
    r = spawn_dep(0, pass, &child);
    if (r != 0) do_exit(20 + r);
    for (long i = 0; i < reads; i++) {
      len = 1;
      r = sc6(SYS_READ, pipe_fds[0], (long)data, (long)&len, 0, 0, 0);
      if (r != 0) do_exit(30 + r);
      if (len != 1 || data[0] != 0x70 + i) do_exit(40);
    }
    do_exit(0);
  } else if (pid == 1) {
    u64 got[2] = { 0, 0 };
    len = 2;
    r = sc6(SYS_INHERITED_FDS, (long)got, (long)&len, 0, 0, 0, 0);
    if (r != 0 || len != 1) do_exit(50);
    for (long i = 0; i < blockers; i++) {
      r = spawn_dep(0, no_fds, &child);
      if (r != 0) do_exit(60 + r);
    }
    for (long i = 0; i < 8; i++) data[i] = 0x70 + i;
    len = reads + 1;
    r = sc6(SYS_WRITE, got[0], (long)data, (long)&len, 0, 0, 0);
    do_exit(70); /* never reached: the root exits while one byte is still unwritten */
  } else {
    signed char code = 0;
    sc6(SYS_WAIT, 0, (long)&code, 0, 0, 0, 0);
    do_exit(80);
  }
}
