#!/bin/sh
# Rebuilds the custom C05 RISC-V programs (Debian clang 14 + lld; no libc). Run in this directory.
set -e
for p in c05_code_offset c05_code_swap c05_swap_pipe c05_exit_before_wait; do
  clang --target=riscv64-unknown-elf -march=rv64imc -mabi=lp64 -nostdlib -static -O1 -ffreestanding \
    -fno-pic -mno-relax -fuse-ld=lld -Wl,-e,_start -Wl,--no-rosegment -Wl,-s -Wl,-z,norelro \
    -Wl,--build-id=none -o $p $p.c
done
# c05_lib_pages (the data cell of the two code-loading programs: 5 pages, page i = `li a0, 10+i; ret`)
python3 - <<'PY'
import struct
out = b""
for i in range(5):
    page = struct.pack("<II", 0x00000513 | ((10 + i) << 20), 0x00008067)
    out += page + b"\0" * (4096 - len(page))
open("c05_lib_pages", "wb").write(out)
PY
ls -la c05_code_offset c05_code_swap c05_swap_pipe c05_exit_before_wait c05_lib_pages
