/* C05 custom program: children exit long BEFORE the parent waits for them (their exit codes sit in
 * the scheduler's terminated_vms), with work, pipe traffic and a second generation in between; then
 * wait on every child (in reverse order), wait again on an already collected pid (must fail with 5)
 * and on an unknown pid (must fail with 5).
 *   vm0: spawn vm1 (exits 3 at once) ; work ; spawn vm2 (exits 4 at once) ; work ; pipe + spawn vm3
 *        with the write end, read 3 bytes from it (vm3 then exits 5) ; work ; wait vm3, vm2, vm1 and
 *        check 5, 4, 3 ; wait vm1 again -> 5 ; wait pid 99 -> 5 ; exit 0 */
#include "c05_sys.h"
void _start(void) {
  u64 pid = sc6(SYS_PROCESS_ID, 0, 0, 0, 0, 0, 0);
  u64 no_fds[1] = { 0 };
  long r;
  u64 len;
  if (pid == 1) do_exit(3);
  if (pid == 2) do_exit(4);
  if (pid == 3) {
    u64 got[2] = { 0, 0 };
    len = 2;
    r = sc6(SYS_INHERITED_FDS, (long)got, (long)&len, 0, 0, 0, 0);
    if (r != 0 || len != 1) do_exit(50);
    u8 d[3] = { 1, 2, 3 };
    len = 3;
    r = sc6(SYS_WRITE, got[0], (long)d, (long)&len, 0, 0, 0);
    if (r != 0 || len != 3) do_exit(51);
    do_exit(5);
  }
  u64 c1 = 0, c2 = 0, c3 = 0;
  r = spawn_dep(0, no_fds, &c1); if (r != 0) do_exit(20 + r);
  spin(700);
  r = spawn_dep(0, no_fds, &c2); if (r != 0) do_exit(20 + r);
  spin(700);
  u64 fds[2] = { 0, 0 };
  r = sc6(SYS_PIPE, (long)fds, 0, 0, 0, 0, 0); if (r != 0) do_exit(10 + r);
  u64 pass[2] = { fds[1], 0 };
  r = spawn_dep(0, pass, &c3); if (r != 0) do_exit(20 + r);
  u8 d[3] = { 0, 0, 0 };
  u64 have = 0;
  while (have < 3) {
    len = 3 - have;
    r = sc6(SYS_READ, fds[0], (long)(d + have), (long)&len, 0, 0, 0);
    if (r != 0 || len == 0) do_exit(30);
    have += len;
  }
  if (d[0] != 1 || d[1] != 2 || d[2] != 3) do_exit(31);
  spin(1500);
  signed char code = 0;
  r = sc6(SYS_WAIT, c3, (long)&code, 0, 0, 0, 0); if (r != 0 || code != 5) do_exit(41);
  spin(300);
  r = sc6(SYS_WAIT, c2, (long)&code, 0, 0, 0, 0); if (r != 0 || code != 4) do_exit(42);
  r = sc6(SYS_WAIT, c1, (long)&code, 0, 0, 0, 0); if (r != 0 || code != 3) do_exit(43);
  r = sc6(SYS_WAIT, c1, (long)&code, 0, 0, 0, 0); if (r != 5) do_exit(44);
  r = sc6(SYS_WAIT, 99, (long)&code, 0, 0, 0, 0); if (r != 5) do_exit(45);
  do_exit(0);
}
