#!/usr/bin/env python3
"""JSON <-> packed field-map translator (C15), run by bin/gen_model on every check (cwd = /verif).

Reads  <repo>/util/jsonrpc-types/src/blockchain.rs   the `pub struct X { .. }` definitions (serde renames,
                                                      defaults) and the hand-written conversions
                                                      `impl From<packed::X> for X` (a struct literal whose field
                                                      expressions read `input.f()` / `raw.f()`) and
                                                      `impl From<X> for packed::X` (builder chains
                                                      `packed::T::new_builder().f(<json var>)…build()`, one per branch)
       <repo>/util/gen-types/schemas/blockchain.mol   the declared fields of the packed types (a field named `raw`
                                                      is flattened: `raw.version`, …)
and writes  lean/CkbVerif/Gen/JsonMap.lean  (namespace CkbVerif.Gen.JsonMap): per type the json fields (serde names,
definition order), the packed fields, the extra optional packed-side fields (Block.extension = first extra field of
a BlockV1 carried as a compatible Block), the forward map and one backward map per builder branch, each entry
(json field, packed field, conversion kind).  `Props/C15.lean` proves over this table that no field is dropped,
duplicated or crossed; the harness op `jm` probes the REAL conversions field by field and compares with the table.

Exit status != 0 (message on stderr) when an impl cannot be parsed.  The file is rewritten only when it changes.
"""
import os, re, sys

VERIF = os.path.dirname(os.path.dirname(os.path.dirname(os.path.abspath(__file__))))
REPO = os.environ.get("VERIF_REPO", "/repo")
SRC = os.environ.get("VERIF_JSONMAP_SRC", os.path.join(REPO, "util", "jsonrpc-types", "src", "blockchain.rs"))
MOL = os.path.join(REPO, "util", "gen-types", "schemas", "blockchain.mol")
OUT = os.environ.get("VERIF_JSONMAP_OUT", os.path.join(VERIF, "lean", "CkbVerif", "Gen", "JsonMap.lean"))
# the packed field names (from the molecule schema ONLY) for the harness' field-by-field probe of the real conversions
OUT_RS = os.environ.get("VERIF_JSONMAP_OUT_RS", os.path.join(VERIF, "harness", "hcore", "src", "c15_jsonmap_gen.rs"))

TYPES = ["Script", "OutPoint", "CellInput", "CellOutput", "CellDep", "Transaction", "Header", "UncleBlock", "Block"]
# packed-side optional extras that are not declared fields of the packed type
EXT = {"Block": ["extension"]}


def die(msg):
    print("jsonmap.py: " + msg, file=sys.stderr)
    sys.exit(3)


def balanced(s, i, open_c, close_c):
    """s[i] == open_c; returns index just after the matching close"""
    assert s[i] == open_c, (s[i:i + 20], open_c)
    d = 0
    j = i
    while j < len(s):
        c = s[j]
        if c == open_c:
            d += 1
        elif c == close_c:
            d -= 1
            if d == 0:
                return j + 1
        j += 1
    die("unbalanced " + open_c)


def strip_comments(s):
    return re.sub(r"//[^\n]*", "", s)


def split_top(s):
    """split on top-level commas"""
    out, d, cur = [], 0, ""
    for c in s:
        if c in "([{<":
            d += 1
        elif c in ")]}>":
            d -= 1
        if c == "," and d == 0:
            out.append(cur)
            cur = ""
        else:
            cur += c
    if cur.strip():
        out.append(cur)
    return [x.strip() for x in out if x.strip()]


def struct_fields(src, name):
    m = re.search(r"pub struct %s \{" % name, src)
    if not m:
        die("no struct " + name)
    body = src[m.end() - 1:balanced(src, m.end() - 1, "{", "}")][1:-1]
    fields = []
    pending = []
    for line in body.split("\n"):
        line = line.strip()
        if line.startswith("///") or not line:
            continue
        if line.startswith("#["):
            pending.append(line)
            continue
        fm = re.match(r"pub (\w+): (.+),$", line)
        if fm:
            rust, ty = fm.group(1), fm.group(2)
            serde = rust
            for a in pending:
                rm = re.search(r'rename = "(\w+)"', a)
                if rm:
                    serde = rm.group(1)
            fields.append((rust, serde, ty))
            pending = []
    return fields


def impl_body(src, header):
    i = src.find(header)
    if i < 0:
        die("no `%s`" % header)
    j = src.index("{", i)
    body = src[j:balanced(src, j, "{", "}")]
    k = body.index("{", 1)  # fn body
    return strip_comments(body[k:balanced(body, k, "{", "}")])


def kind_of(ty):
    ty = ty.strip()
    if ty.startswith("Option<"):
        return "opt"
    if ty.startswith("Vec<"):
        return "vec"
    if ty in ("Uint32", "Uint64", "Uint128", "Version", "Capacity", "Timestamp", "BlockNumber", "EpochNumberWithFraction", "Cycle"):
        return "uint"
    if ty in ("H256", "Byte32"):
        return "hash"
    if ty == "JsonBytes":
        return "bytes"
    if ty in ("ScriptHashType", "DepType"):
        return "enum"
    return "nested"


def forward(src, name, fields):
    body = impl_body(src, "impl From<packed::%s> for %s {" % (name, name))
    m = None
    for mm in re.finditer(r"\b(Self|%s) \{" % name, body):
        m = mm
    if not m:
        die("no struct literal in From<packed::%s>" % name)
    lit = body[m.end() - 1:balanced(body, m.end() - 1, "{", "}")][1:-1]
    entries = []
    rust2 = {r: (s, t) for r, s, t in fields}
    lets = {}
    for lm in re.finditer(r"let\s+(?:mut\s+)?(\w+)\s*(?::[^=;]+)?=\s*([^;]*);", body[:m.start()]):
        if lm.group(1) != "raw":
            lets[lm.group(1)] = lm.group(2)
    for item in split_top(lit):
        fm = re.match(r"(\w+)\s*:\s*(.*)$", item, re.S)
        if not fm:
            die("From<packed::%s>: cannot read literal entry `%s`" % (name, item[:40]))
        jf, expr = fm.group(1), fm.group(2)
        am = re.search(r"\b(input|raw)\s*\.\s*(\w+)\(\)", expr)
        if not am:
            # a local: `let index: u32 = input.index().into();`
            for ident in re.findall(r"\b[a-z_][a-z0-9_]*\b", expr):
                if ident in lets:
                    am = re.search(r"\b(input|raw)\s*\.\s*(\w+)\(\)", lets[ident])
                    if am:
                        break
        if not am:
            die("From<packed::%s>: field %s reads no accessor" % (name, jf))
        path = am.group(2) if am.group(1) == "input" else "raw." + am.group(2)
        if jf not in rust2:
            die("From<packed::%s>: %s is not a field of the json struct" % (name, jf))
        entries.append((rust2[jf][0], path, kind_of(rust2[jf][1])))
    return entries


def backward(src, name, fields):
    body = impl_body(src, "impl From<%s> for packed::%s {" % (name, name))
    rust2 = {r: (s, t) for r, s, t in fields}
    chains = {}
    order = []
    for m in re.finditer(r"packed::(\w+)::new_builder\(\)", body):
        bt = m.group(1)
        i = m.end()
        calls = []
        while True:
            cm = re.match(r"\s*\.\s*(\w+)\s*\(", body[i:])
            if not cm:
                break
            j = i + cm.end() - 1
            e = balanced(body, j, "(", ")")
            calls.append((cm.group(1), body[j + 1:e - 1]))
            i = e
            if cm.group(1) == "build":
                break
        if not calls or calls[-1][0] != "build":
            continue  # an option builder used with `.set(…)` etc.
        chains.setdefault(bt, []).append(calls[:-1])
        order.append(bt)
    raws = {bt: cs for bt, cs in chains.items() if bt.startswith("Raw")}
    branches = []
    for bt in order:
        if bt.startswith("Raw") or bt not in (name, name + "V1"):
            continue
        for calls in chains[bt]:
            entries = []
            for pf, arg in calls:
                ids = re.findall(r"\b[a-z_][a-z0-9_]*\b", arg)
                jf = next((x for x in ids if x in rust2), None)
                if jf is None:
                    if pf == "raw" and raws:
                        for rcalls in list(raws.values())[0][:1]:
                            for rpf, rarg in rcalls:
                                rids = re.findall(r"\b[a-z_][a-z0-9_]*\b", rarg)
                                rjf = next((x for x in rids if x in rust2), None)
                                if rjf is None:
                                    die("From<%s>: builder field raw.%s is fed by no json field" % (name, rpf))
                                entries.append((rust2[rjf][0], "raw." + rpf, kind_of(rust2[rjf][1])))
                        continue
                    die("From<%s>: builder field %s is fed by no json field" % (name, pf))
                entries.append((rust2[jf][0], pf, kind_of(rust2[jf][1])))
            branches.append((bt, entries))
            chains[bt] = chains[bt][1:]
            break
    if not branches:
        die("From<%s> for packed::%s: no builder chain found" % (name, name))
    return branches


def mol_fields(mol, name):
    m = re.search(r"(table|struct) %s \{([^}]*)\}" % name, mol)
    if not m:
        die("no molecule type " + name)
    out = []
    for f in split_top(m.group(2)):
        fm = re.match(r"(\w+)\s*:\s*(\w+)", f)
        if fm.group(1) == "raw":
            out += ["raw." + x for x in mol_fields(mol, fm.group(2))]
        else:
            out.append(fm.group(1))
    return out


def lean_str_list(xs):
    return "[" + ", ".join('"%s"' % x for x in xs) + "]"


def lean_entries(es):
    return "[" + ", ".join('⟨"%s", "%s", "%s"⟩' % e for e in es) + "]"


def main():
    src = open(SRC).read()
    mol = strip_comments(open(MOL).read())
    mol = re.sub(r"/\*.*?\*/", "", mol, flags=re.S)
    out = []
    out.append("/- GENERATED by bin/gen.d/jsonmap.py from util/jsonrpc-types/src/blockchain.rs and")
    out.append("   util/gen-types/schemas/blockchain.mol — do not edit. -/")
    out.append("namespace CkbVerif.Gen.JsonMap")
    out.append("")
    out.append("/-- one field conversion: json field (serde name), packed field (`raw.` = through the Raw* table), kind -/")
    out.append("structure Entry where")
    out.append("  json : String")
    out.append("  packed : String")
    out.append("  kind : String")
    out.append("deriving DecidableEq, Repr")
    out.append("")
    out.append("structure TypeMap where")
    out.append("  name : String")
    out.append("  /-- fields of the json struct, serde names, definition order -/")
    out.append("  jsonFields : List String")
    out.append("  /-- declared fields of the packed type (molecule schema) -/")
    out.append("  packedFields : List String")
    out.append("  /-- optional packed-side extras (not declared fields): `Block.extension` -/")
    out.append("  extFields : List String")
    out.append("  /-- `impl From<packed::X> for X` -/")
    out.append("  fwd : List Entry")
    out.append("  /-- `impl From<X> for packed::X`: one map per builder branch (builder type, entries) -/")
    out.append("  back : List (String × List Entry)")
    out.append("deriving Repr")
    out.append("")
    names = []
    for t in TYPES:
        fields = struct_fields(src, t)
        fw = forward(src, t, fields)
        bw = backward(src, t, fields)
        out.append("def m%s : TypeMap :=" % t)
        out.append('  { name := "%s"' % t)
        out.append("    jsonFields := %s" % lean_str_list([s for _, s, _ in fields]))
        out.append("    packedFields := %s" % lean_str_list(mol_fields(mol, t)))
        out.append("    extFields := %s" % lean_str_list(EXT.get(t, [])))
        out.append("    fwd := %s" % lean_entries(fw))
        out.append("    back := [%s] }" % ", ".join('("%s", %s)' % (bt, lean_entries(es)) for bt, es in bw))
        out.append("")
        names.append("m" + t)
    out.append("def all : List TypeMap := [%s]" % ", ".join(names))
    out.append("")
    out.append("end CkbVerif.Gen.JsonMap")
    text = "\n".join(out) + "\n"
    rs = "// GENERATED by bin/gen.d/jsonmap.py from util/gen-types/schemas/blockchain.mol - do not edit.\n"
    rs += "// declared fields of the packed types (a field named `raw` is flattened)\n"
    rs += "pub const PACKED_FIELDS: &[(&str, &[&str])] = &[\n"
    for t in TYPES:
        rs += '    ("%s", &[%s]),\n' % (t, ", ".join('"%s"' % x for x in mol_fields(mol, t)))
    rs += "];\n"
    for path, content in ((OUT, text), (OUT_RS, rs)):
        try:
            if open(path).read() == content:
                continue
        except FileNotFoundError:
            pass
        with open(path, "w") as f:
            f.write(content)


if __name__ == "__main__":
    main()
