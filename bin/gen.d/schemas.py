#!/usr/bin/env python3
"""Molecule schema translator (C15/C16), run by bin/gen_model on every check (cwd = /verif).

Reads  /repo/util/gen-types/schemas/{blockchain,extensions,protocols}.mol  (the source of the
generated `packed::*` readers/builders) and writes

  lean/CkbVerif/Gen/Schemas.lean        one `Schema` value per declared type + the table `all`
  harness/hcore/src/c15_gen.rs          the same table for the harness' type-directed generator,
                                        and per type glue that drives the REAL builders
                                        (`build_T`: abstract value -> packed::T through
                                        `T::new_builder()…build()`), the REAL readers
                                        (`read_T`: packed::TReader -> abstract value through every
                                        field accessor) and the REAL verifiers
                                        (`from_slice` / `from_compatible_slice`).

Files are rewritten only when their content changes.
"""
import os, re, sys

VERIF = os.path.dirname(os.path.dirname(os.path.dirname(os.path.abspath(__file__))))
REPO = os.environ.get("VERIF_REPO", "/repo")
SCHEMA_DIR = os.path.join(REPO, "util", "gen-types", "schemas")
FILES = ["blockchain.mol", "extensions.mol", "protocols.mol"]


def write_if_changed(path, text):
    try:
        if open(path).read() == text:
            return False
    except FileNotFoundError:
        pass
    os.makedirs(os.path.dirname(path), exist_ok=True)
    with open(path, "w") as f:
        f.write(text)
    return True


def fail(msg):
    print("schemas.py: " + msg, file=sys.stderr)
    sys.exit(3)


def parse(text, fname, decls):
    text = re.sub(r"/\*.*?\*/", " ", text, flags=re.S)
    text = re.sub(r"//[^\n]*", " ", text)
    pos = 0
    tok = re.compile(r"\s*(?:(import)\s+([A-Za-z0-9_./]+)\s*;|(array)\s+(\w+)\s*\[\s*(\w+)\s*;\s*(\d+)\s*\]\s*;|(vector)\s+(\w+)\s*<\s*(\w+)\s*>\s*;|(option)\s+(\w+)\s*\(\s*(\w+)\s*\)\s*;|(struct|table|union)\s+(\w+)\s*\{([^}]*)\}\s*)", re.S)
    while True:
        if not text[pos:].strip():
            break
        m = tok.match(text, pos)
        if not m:
            fail(f"{fname}: cannot parse near: {text[pos:pos+80]!r}")
        pos = m.end()
        if m.group(1):
            continue
        if m.group(3):
            d = ("array", m.group(4), m.group(5), int(m.group(6)))
        elif m.group(7):
            d = ("vector", m.group(8), m.group(9))
        elif m.group(10):
            d = ("option", m.group(11), m.group(12))
        else:
            kind, name, body = m.group(13), m.group(14), m.group(15)
            items = [x.strip() for x in body.split(",") if x.strip()]
            if kind == "union":
                its, nxt = [], 0
                for it in items:
                    mm = re.fullmatch(r"(\w+)(?:\s*:\s*(\d+))?", it)
                    if not mm:
                        fail(f"{fname}: union {name}: bad item {it!r}")
                    uid = int(mm.group(2)) if mm.group(2) is not None else nxt
                    nxt = uid + 1
                    its.append((uid, mm.group(1)))
                d = ("union", name, its)
            else:
                fs = []
                for it in items:
                    mm = re.fullmatch(r"(\w+)\s*:\s*(\w+)", it)
                    if not mm:
                        fail(f"{fname}: {kind} {name}: bad field {it!r}")
                    fs.append((mm.group(1), mm.group(2)))
                d = (kind, name, fs)
        if d[1] in decls:
            fail(f"{fname}: duplicate type {d[1]}")
        decls[d[1]] = d
    return decls


def main():
    decls = {}
    for f in FILES:
        p = os.path.join(SCHEMA_DIR, f)
        try:
            parse(open(p).read(), f, decls)
        except OSError as ex:
            fail(f"cannot read {p}: {ex}")

    def deps(d):
        k = d[0]
        if k in ("array", "vector", "option"):
            return [d[2]]
        if k == "union":
            return [t for _, t in d[2]]
        return [t for _, t in d[2]]

    for d in decls.values():
        for t in deps(d):
            if t != "byte" and t not in decls:
                fail(f"type {d[1]} refers to unknown type {t}")

    # topological order (definitions may be used before they are declared)
    order, state = [], {}

    def visit(n):
        if n == "byte":
            return
        if state.get(n) == 2:
            return
        if state.get(n) == 1:
            fail(f"recursive type {n}")
        state[n] = 1
        for t in deps(decls[n]):
            visit(t)
        state[n] = 2
        order.append(n)

    for n in decls:
        visit(n)

    fixed = {"byte": True}
    for n in order:
        d = decls[n]
        if d[0] == "array":
            fixed[n] = True
            if not fixed[d[2]]:
                fail(f"array {n} of dynamic item")
        elif d[0] == "struct":
            fixed[n] = True
            for _, t in d[2]:
                if not fixed[t]:
                    fail(f"struct {n} has dynamic field {t}")
        else:
            fixed[n] = False

    def kind(n):
        d = decls[n]
        if d[0] == "vector":
            return "fixvec" if fixed[d[2]] else "dynvec"
        return d[0]

    # ------------------------------------------------------------------ Lean
    def lref(t):
        return ".byte" if t == "byte" else f"S.{t}"

    L = ["-- GENERATED by bin/gen.d/schemas.py from util/gen-types/schemas/*.mol of the repository tree — do not edit.",
         "import CkbVerif.Model.Molecule",
         "namespace CkbVerif.Gen.Schemas",
         "open CkbVerif.Molecule (Schema)",
         ""]
    for n in order:
        d, k = decls[n], kind(n)
        if k == "array":
            body = f".array {lref(d[2])} {d[3]}"
        elif k in ("fixvec", "dynvec", "option"):
            body = f".{k} {lref(d[2])}"
        elif k in ("struct", "table"):
            body = f".{k} [" + ", ".join(lref(t) for _, t in d[2]) + "]"
        else:
            body = ".union [" + ", ".join(str(i) for i, _ in d[2]) + "] [" + ", ".join(lref(t) for _, t in d[2]) + "]"
        L.append(f"def S.{n} : Schema := {body}")
    L.append("")
    L.append("/-- union item ids by name -/")
    for n in order:
        if kind(n) == "union":
            for i, t in decls[n][2]:
                L.append(f"def U.{n}.{t} : Nat := {i}")
    L.append("")
    L.append("/-- every declared type, by name -/")
    L.append("def all : List (String × Schema) := [")
    L.append(",\n".join(f'  ("{n}", S.{n})' for n in order))
    L.append("]")
    L.append("")
    L.append("/-- field names of structs and tables (documentation; positions are what the model uses) -/")
    L.append("def fieldNames : List (String × List String) := [")
    L.append(",\n".join(f'  ("{n}", [' + ", ".join(f'"{f}"' for f, _ in decls[n][2]) + "])" for n in order if kind(n) in ("struct", "table")))
    L.append("]")
    L.append("")
    L.append("end CkbVerif.Gen.Schemas")
    write_if_changed(os.path.join(VERIF, "lean", "CkbVerif", "Gen", "Schemas.lean"), "\n".join(L) + "\n")

    # ------------------------------------------------------------------ Rust glue
    R = ["// GENERATED by bin/gen.d/schemas.py from util/gen-types/schemas/*.mol of the repository tree — do not edit.",
         "#![allow(non_snake_case, unused_variables, unused_imports, clippy::all)]",
         "use super::{Val, K};",
         "use ckb_gen_types::packed;",
         "use ckb_gen_types::prelude::*;",
         "use molecule::prelude::{Byte, ByteReader};",
         "",
         "pub static TYPES: &[(&str, K)] = &["]
    for n in order:
        d, k = decls[n], kind(n)
        if k == "array":
            R.append(f'    ("{n}", K::Array("{d[2]}", {d[3]})),')
        elif k == "fixvec":
            R.append(f'    ("{n}", K::FixVec("{d[2]}")),')
        elif k == "dynvec":
            R.append(f'    ("{n}", K::DynVec("{d[2]}")),')
        elif k == "option":
            R.append(f'    ("{n}", K::Option("{d[2]}")),')
        elif k == "struct":
            R.append(f'    ("{n}", K::Struct(&[' + ", ".join(f'"{t}"' for _, t in d[2]) + "])),")
        elif k == "table":
            R.append(f'    ("{n}", K::Table(&[' + ", ".join(f'"{t}"' for _, t in d[2]) + "])),")
        else:
            R.append(f'    ("{n}", K::Union(&[' + ", ".join(f'({i}, "{t}")' for i, t in d[2]) + "])),")
    R.append("];")
    R.append("")
    R.append("pub fn build_byte(v: &Val) -> Byte { Byte::new(v.byte()) }")
    R.append("pub fn read_byte(r: ByteReader) -> Val { Val::Byte(r.as_slice()[0]) }")
    R.append("pub fn touch_byte(r: ByteReader) -> usize { r.as_slice().len() }")
    R.append("")

    def rty(t):
        return "Byte" if t == "byte" else f"packed::{t}"

    def rrd(t):
        return "ByteReader" if t == "byte" else f"packed::{t}Reader"

    for n in order:
        d, k = decls[n], kind(n)
        T, TR = f"packed::{n}", f"packed::{n}Reader"
        if k == "array":
            it, cnt = d[2], d[3]
            if it == "byte":
                R.append(f"pub fn build_{n}(v: &Val) -> {T} {{ let b = v.bytes(); let mut a = [Byte::default(); {cnt}]; for i in 0..{cnt} {{ a[i] = Byte::new(b[i]); }} {T}::new_builder().set(a).build() }}")
                R.append(f"pub fn read_{n}(r: {TR}) -> Val {{ Val::Bytes(r.raw_data().to_vec()) }}")
                R.append(f"pub fn touch_{n}(r: {TR}) -> usize {{ let mut n = r.raw_data().len(); " + " ".join(f"n += r.nth{i}().as_slice().len();" for i in range(cnt)) + " n }")
            else:
                fail(f"array {n} of non-byte items is not supported by the harness glue")
        elif k in ("struct", "table"):
            fs = d[2]
            sets = "".join(f".{f}(build_{t}(&f[{i}]))" for i, (f, t) in enumerate(fs))
            R.append(f"pub fn build_{n}(v: &Val) -> {T} {{ let f = v.seq(); assert_eq!(f.len(), {len(fs)}); {T}::new_builder(){sets}.build() }}")
            reads = ", ".join(f"read_{t}(r.{f}())" for f, t in fs)
            R.append(f"pub fn read_{n}(r: {TR}) -> Val {{ Val::Seq(vec![{reads}]) }}")
            extra = "n += r.total_size(); n += r.field_count(); n += r.count_extra_fields(); n += r.has_extra_fields() as usize; " if k == "table" else ""
            touches = " ".join(f"n += touch_{t}(r.{f}());" for f, t in fs)
            R.append(f"pub fn touch_{n}(r: {TR}) -> usize {{ let mut n = r.as_slice().len(); {extra}{touches} n }}")
        elif k in ("fixvec", "dynvec"):
            it = d[2]
            if it == "byte":
                R.append(f"pub fn build_{n}(v: &Val) -> {T} {{ {T}::new_builder().set(v.bytes().iter().map(|x| Byte::new(*x)).collect()).build() }}")
                R.append(f"pub fn read_{n}(r: {TR}) -> Val {{ Val::Bytes(r.raw_data().to_vec()) }}")
                R.append(f"pub fn touch_{n}(r: {TR}) -> usize {{ let mut n = r.raw_data().len() + r.total_size() + r.item_count() + r.is_empty() as usize; for i in 0..r.len() {{ n += r.get(i).unwrap().as_slice().len(); }} assert!(r.get(r.len()).is_none()); n }}")
            else:
                R.append(f"pub fn build_{n}(v: &Val) -> {T} {{ {T}::new_builder().set(v.seq().iter().map(build_{it}).collect()).build() }}")
                R.append(f"pub fn read_{n}(r: {TR}) -> Val {{ Val::Seq((0..r.len()).map(|i| read_{it}(r.get(i).unwrap())).collect()) }}")
                R.append(f"pub fn touch_{n}(r: {TR}) -> usize {{ let mut n = r.total_size() + r.item_count() + r.is_empty() as usize; for i in 0..r.len() {{ n += touch_{it}(r.get(i).unwrap()); }} for x in r.iter() {{ n += x.as_slice().len(); }} assert!(r.get(r.len()).is_none()); n }}")
        elif k == "option":
            it = d[2]
            R.append(f"pub fn build_{n}(v: &Val) -> {T} {{ {T}::new_builder().set(match v {{ Val::None => None, Val::Some(x) => Some(build_{it}(x)), _ => panic!(\"option value expected\") }}).build() }}")
            R.append(f"pub fn read_{n}(r: {TR}) -> Val {{ match r.to_opt() {{ None => Val::None, Some(x) => Val::Some(Box::new(read_{it}(x))) }} }}")
            R.append(f"pub fn touch_{n}(r: {TR}) -> usize {{ let mut n = r.is_none() as usize + r.is_some() as usize; if let Some(x) = r.to_opt() {{ n += touch_{it}(x); }} n }}")
        else:
            arms_b = " ".join(f"{i} => {T}::new_builder().set(build_{t}(x)).build()," for i, t in d[2])
            R.append(f"pub fn build_{n}(v: &Val) -> {T} {{ match v {{ Val::Union(id, x) => match *id {{ {arms_b} _ => panic!(\"unknown union item\") }}, _ => panic!(\"union value expected\") }} }}")
            arms_r = " ".join(f"packed::{n}UnionReader::{t}(x) => Val::Union(r.item_id(), Box::new(read_{t}(x)))," for _, t in d[2])
            R.append(f"pub fn read_{n}(r: {TR}) -> Val {{ match r.to_enum() {{ {arms_r} }} }}")
            arms_t = " ".join(f"packed::{n}UnionReader::{t}(x) => touch_{t}(x)," for _, t in d[2])
            R.append(f"pub fn touch_{n}(r: {TR}) -> usize {{ r.item_id() as usize + match r.to_enum() {{ {arms_t} }} }}")
        R.append("")

    def dispatch(sig, arm, default):
        out = [sig + " {", "    match name {"]
        for n in order:
            out.append(f'        "{n}" => ' + arm(n) + ",")
        out.append(f"        _ => {default},")
        out.append("    }")
        out.append("}")
        return out

    R += dispatch("/// abstract value -> bytes through the real builder\npub fn encode(name: &str, v: &Val) -> Option<Vec<u8>>",
                  lambda n: f"Some(build_{n}(v).as_slice().to_vec())", "None")
    R += dispatch("/// bytes -> abstract value through the real verifier and the real accessors\npub fn decode(name: &str, bs: &[u8], compat: bool) -> Option<Result<Val, ()>>",
                  lambda n: f"Some((if compat {{ packed::{n}Reader::from_compatible_slice(bs) }} else {{ packed::{n}Reader::from_slice(bs) }}).map(read_{n}).map_err(|_| ()))", "None")
    R += dispatch("/// the real verifier only\npub fn verify(name: &str, bs: &[u8], compat: bool) -> Option<bool>",
                  lambda n: f"Some(packed::{n}Reader::verify(bs, compat).is_ok())", "None")
    R += dispatch("/// `Entity::from_slice` (strict) then `as_builder().build()`: rebuilding field by field\npub fn rebuild(name: &str, bs: &[u8]) -> Option<Vec<u8>>",
                  lambda n: f"packed::{n}::from_slice(bs).ok().map(|e| e.as_builder().build().as_slice().to_vec())", "None")
    R += dispatch("/// every accessor of a verified reader, recursively, plus Display/Debug and to_entity; returns a byte count\npub fn touch(name: &str, bs: &[u8], compat: bool) -> Option<usize>",
                  lambda n: f"(if compat {{ packed::{n}Reader::from_compatible_slice(bs) }} else {{ packed::{n}Reader::from_slice(bs) }}).ok().map(|r| {{ let e = r.to_entity(); touch_{n}(r) + format!(\"{{}} {{:?}} {{:x}}\", r, r, r).len() + format!(\"{{}}\", e).len() + e.as_bytes().len() }})", "None")
    write_if_changed(os.path.join(VERIF, "harness", "hcore", "src", "c15_gen.rs"), "\n".join(R) + "\n")


if __name__ == "__main__":
    main()
