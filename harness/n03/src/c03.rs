//! C03 — a block joins the main chain iff it meets every consensus rule in its context.
//!
//! Drives a real node (`Shared` + the three chain-service threads) the way a miner does:
//! `HeaderVerifier` on the snapshot (as `rpc/src/module/miner.rs::submit_block`), then
//! `ChainController::blocking_process_block`.  From random valid contexts (random epoch length,
//! proposal window, median count, limits; chains with proposals, commits, uncles) it builds, for
//! each rule, a block exactly on the valid side of the boundary and the single-rule violations on
//! the invalid side, by rebuilding blocks from a valid one with the ckb-types builders.
//!
//! Protocol (model side: lean/CkbVerif/Driver/C03.lean):
//!   cfg k=v …                consensus parameters differing from the generated defaults
//!   genesis id=0 ts=… …      the genesis block
//!   blk <id> k=v …           a block: header fields, body features, and the oracle values of its
//!                            own context (expected epoch/target/dao/reward/chain root, resolution)
//!   submit <id> now=<ms>     → `<attached|stored|known|err CLASS> tip=<id> st=<valid|stored|invalid|unknown>`
//!   idx n=<ids> t=<txs> h=<height> e=<epoch>
//!                            → the rows of the columns `attach_block` / `detach_block` maintain:
//!                              `main=<id:number,…> uncles=<id:number,…> at=<number:id,…> tx=<tx:block:number,…> ep=<epoch:id,…>`
//!
//! Oracle (independent of the model): a block the generator built as valid and heaviest is
//! attached and becomes the tip; a block built with a single-rule violation is rejected, and the
//! node's tip / total difficulty / epoch / proposal view are unchanged by the rejection; a branch
//! containing a violating block never becomes canonical; the stored body of an attached block
//! never changes.
//!
//! Replay: a case is regenerated from its `case <n> seed=<s>` line (the op lines are abstract
//! features of real blocks and are re-derived).
use crate::common::*;
use crate::node::*;
use ckb_chain_spec::consensus::{Consensus, ConsensusBuilder, ProposalWindow, build_genesis_epoch_ext};
use ckb_dao::DaoCalculator;
use ckb_dao_utils::genesis_dao_data;
use ckb_reward_calculator::RewardCalculator;
use ckb_shared::block_status::BlockStatus;
use ckb_store::{ChainDB, ChainStore};
use ckb_test_chain_utils::{always_success_cell, create_always_success_tx};
use ckb_types::core::cell::{BlockCellProvider, HeaderChecker, OverlayCellProvider, ResolvedTransaction, resolve_transaction};
use ckb_types::core::{
    BlockBuilder, BlockView, Capacity, EpochNumberWithFraction, TransactionBuilder, TransactionView,
    UncleBlockView, capacity_bytes,
};
use ckb_types::packed::{self, Byte32, CellDep, CellInput, CellOutput, OutPoint, ProposalShortId, Script};
use ckb_types::prelude::*;
use ckb_types::utilities::DIFF_TWO;
use ckb_types::utilities::merkle_mountain_range::ChainRootMMR;
use ckb_types::{bytes::Bytes, h256};
use ckb_merkle_mountain_range::leaf_index_to_mmr_size;
use ckb_verification::{HeaderVerifier, NonContextualBlockTxsVerifier};
use ckb_verification_traits::Verifier;
use std::collections::{HashMap, HashSet};
use std::path::Path;
use std::sync::Arc;

/// cycles of one DAO transfer (lock group + type group), by the epoch number of the genesis epoch of
/// the consensus it runs under. The `type`-hashed DAO type script runs under the VM version the
/// hardfork switch selects for the BLOCK's epoch (rfc0032: VM 1 from epoch 5414 in the mirana
/// switch), the `data`-hashed lock always under VM 0 — so the figure measured on a chain that starts
/// at epoch 0 (537 + 537) is not the one of a history that starts at epoch 5709 (537 + 539). Measured
/// per genesis epoch on a probe chain (`measure_cycles_at`), never derived; a case never crosses a
/// VM switch (its epochs are genesis_epoch ..= genesis_epoch + a few).
static DAO_TX_CYCLES: std::sync::Mutex<Option<HashMap<u64, u64>>> = std::sync::Mutex::new(None);

fn dao_tx_cycles(genesis_epoch: u64) -> u64 {
    DAO_TX_CYCLES.lock().unwrap().as_ref().and_then(|m| m.get(&genesis_epoch).copied()).unwrap_or(0)
}

const FUTURE: u64 = 15_000; // only used to pick `now`; the model reads the generated constant

#[derive(Clone, Debug)]
struct CaseCfg {
    epoch_len: u64,
    window: (u64, u64),
    median: usize,
    max_props: u64,
    max_bytes: u64,
    max_cycles: u64,
    defaults: bool,
    /// consensus id: selects `rfc0044_active_epoch` (`"ckb"` / `"ckb_testnet"`: the hard-coded
    /// epochs of the public chains; anything else: 0)
    chain: &'static str,
    /// epoch number of the genesis epoch (header field and `genesis_epoch_ext`): a history that
    /// starts `k` epochs below the activation epoch crosses the boundary within a few blocks
    genesis_epoch: u64,
    /// Nervos-DAO-typed deposit cells and transfers between them are generated (needs a roomy cycle limit)
    dao: bool,
    /// `starting_block_limiting_dao_withdrawing_lock`
    dao_start: u64,
}

/// the type script of genesis cellbase output 2 (`OUTPUT_INDEX_DAO`): its hash is the consensus'
/// `dao_type_hash`; the cell's data is the always-success binary, so a cell typed
/// `{code_hash: dao_type_hash, hash_type: type}` is "Nervos DAO typed" for every verifier and its type
/// script always succeeds
fn dao_marker_script() -> Script {
    Script::new_builder().code_hash(h256!("0xda0").pack()).hash_type(packed::Byte::new(0)).args(Bytes::from_static(b"dao").pack()).build()
}

fn dao_type_script() -> Script {
    Script::new_builder().code_hash(dao_marker_script().calc_script_hash()).hash_type(packed::Byte::new(1)).build()
}

/// genesis transaction 0: a cellbase-shaped transaction with three outputs, the third one the "DAO code" cell
fn genesis_tx0() -> TransactionView {
    let (_, as_data, lock) = always_success_cell();
    let plain = CellOutput::new_builder().capacity(capacity_bytes!(1_000)).lock(lock.clone()).build();
    TransactionBuilder::default()
        .input(CellInput::new(OutPoint::null(), 0))
        // the reward calculator reads the genesis cellbase witness as a `CellbaseWitness` (target lock
        // of the first blocks)
        .witness(lock.clone().into_witness())
        .output(plain.clone())
        .output_data(Bytes::new())
        .output(plain)
        .output_data(Bytes::new())
        .output(CellOutput::new_builder().capacity(capacity_bytes!(100_000)).lock(lock.clone()).type_(Some(dao_marker_script()).pack()).build())
        .output_data(as_data.clone())
        .build()
}

#[derive(Clone, Debug)]
struct DaoCell {
    op: OutPoint,
    cap: u64,
    /// length of the lock script's args (the lock's total size moves with it)
    args_len: usize,
    /// number of the block that committed the cell
    created: u64,
}

/// spendable plain cells of the genesis block (transactions 0 and 1 are the DAO-code and always-success-code cells)
fn plain_genesis_cells(consensus: &Consensus) -> Vec<(OutPoint, u64)> {
    consensus
        .genesis_block()
        .transactions()
        .iter()
        .skip(2)
        .filter(|tx| tx.outputs().get(0).unwrap().type_().is_none())
        .map(|tx| (OutPoint::new(tx.hash(), 0), Unpack::<Capacity>::unpack(&tx.outputs().get(0).unwrap().capacity()).as_u64()))
        .collect()
}

fn dao_genesis_cells(consensus: &Consensus) -> Vec<DaoCell> {
    consensus
        .genesis_block()
        .transactions()
        .iter()
        .skip(2)
        .filter(|tx| tx.outputs().get(0).unwrap().type_().is_some())
        .map(|tx| DaoCell { op: OutPoint::new(tx.hash(), 0), cap: Unpack::<Capacity>::unpack(&tx.outputs().get(0).unwrap().capacity()).as_u64(), args_len: 0, created: 0 })
        .collect()
}

/// a transfer of one DAO-typed deposit cell into a DAO-typed cell whose lock has `out_args` bytes of args
/// (data all zero on both sides: what `DaoScriptSizeVerifier` calls a deposit → withdrawing pair)
fn dao_transfer(consensus: &Consensus, cell: &DaoCell, out_args: usize, salt: u64) -> TransactionView {
    let (_, _, script) = always_success_cell();
    let lock = script.clone().as_builder().args(Bytes::from(vec![7u8; out_args]).pack()).build();
    let code = OutPoint::new(consensus.genesis_block().transactions()[0].hash(), 2);
    TransactionBuilder::default()
        .cell_dep(always_success_dep())
        .cell_dep(CellDep::new_builder().out_point(code).build())
        .input(CellInput::new(cell.op.clone(), 0))
        .output(CellOutput::new_builder().capacity(Capacity::shannons(cell.cap - 1000 - salt)).lock(lock).type_(Some(dao_type_script()).pack()).build())
        .output_data(Bytes::from(vec![0u8; 8 + (salt % 5) as usize]))
        .build()
}

fn act_epoch_of(chain: &str) -> u64 {
    match chain {
        "ckb" => ckb_constant::softfork::mainnet::RFC0044_ACTIVE_EPOCH,
        "ckb_testnet" => ckb_constant::softfork::testnet::RFC0044_ACTIVE_EPOCH,
        _ => 0,
    }
}

/// the three activation regimes of a case (round 6)
fn with_regime(mut cc: CaseCfg, regime: u64, cyc: u64, seed: u64) -> CaseCfg {
    // DAO transfers where the cycle limit leaves room for them next to the plain transactions the fork
    // tree needs (all-defaults and fork-tree configurations); their cycle figure is measured per
    // genesis epoch (`DAO_TX_CYCLES`), so the cycle-limit boundary probes count them exactly
    if cc.defaults || cc.max_cycles >= cyc * 6 {
        cc.dao = true;
        cc.dao_start = [0u64, 0, 5, 9][(seed % 4) as usize];
    }
    match regime {
        // never active within the case: the early history of a public chain
        1 => {
            cc.chain = "ckb";
            cc.genesis_epoch = 0;
        }
        // the history crosses the activation boundary: starts one or two epochs below it
        2 | 3 | 4 => {
            let (id, e) = if regime != 3 {
                ("ckb_testnet", ckb_constant::softfork::testnet::RFC0044_ACTIVE_EPOCH)
            } else {
                ("ckb", ckb_constant::softfork::mainnet::RFC0044_ACTIVE_EPOCH)
            };
            cc.chain = id;
            cc.genesis_epoch = e - 1 - (cc.epoch_len % 2);
        }
        // active from epoch 0 (every other consensus id)
        _ => {}
    }
    cc
}

fn consensus_for(cc: &CaseCfg, genesis_cells: u64) -> Consensus {
    let (_, _, always_success_script) = always_success_cell();
    let tx0 = genesis_tx0();
    let tx = create_always_success_tx();
    let mut transactions: Vec<TransactionView> = (0..genesis_cells)
        .map(|i| {
            TransactionBuilder::default()
                .input(CellInput::new(OutPoint::null(), 0))
                .output(CellOutput::new_builder().capacity(capacity_bytes!(50_000)).lock(always_success_script.clone()).build())
                .output_data(Bytes::from(i.to_le_bytes().to_vec()))
                .build()
        })
        .collect();
    if cc.dao {
        // Nervos-DAO-typed deposit cells (data all zero; the data length tells them apart)
        for i in 0..8usize {
            transactions.push(
                TransactionBuilder::default()
                    .input(CellInput::new(OutPoint::null(), 0))
                    .output(CellOutput::new_builder().capacity(capacity_bytes!(50_000)).lock(always_success_script.clone()).type_(Some(dao_type_script()).pack()).build())
                    .output_data(Bytes::from(vec![0u8; 8 + i]))
                    .build(),
            );
        }
    }
    let mut all: Vec<&TransactionView> = vec![&tx0, &tx];
    all.extend(transactions.iter());
    let dao = genesis_dao_data(all).unwrap();
    let genesis_block = BlockBuilder::default()
        .dao(dao)
        .compact_target(DIFF_TWO)
        .epoch(if cc.genesis_epoch == 0 {
            EpochNumberWithFraction::new_unchecked(0, 0, 0)
        } else {
            EpochNumberWithFraction::new(cc.genesis_epoch, 0, cc.epoch_len)
        })
        .timestamp(1_000_000u64)
        .transaction(tx0)
        .transaction(tx)
        .transactions(transactions)
        .build();
    let epoch_reward = capacity_bytes!(1_917_808);
    let duration_target = 8 * cc.epoch_len;
    let mut genesis_epoch_ext = build_genesis_epoch_ext(epoch_reward, DIFF_TWO, cc.epoch_len, duration_target, (1, 40));
    if cc.genesis_epoch != 0 {
        // a history that starts at epoch `genesis_epoch`: the genesis block is the first block of
        // that epoch; `get_block_epoch` reads the block ext / header of the "last block of the
        // previous epoch" at the epoch's tail, which here is the genesis block itself
        genesis_epoch_ext = genesis_epoch_ext
            .into_builder()
            .number(cc.genesis_epoch)
            .last_block_hash_in_previous_epoch(genesis_block.hash())
            .build();
    }
    let mut b = ConsensusBuilder::new(genesis_block, genesis_epoch_ext)
        .id(cc.chain.to_owned())
        .starting_block_limiting_dao_withdrawing_lock(cc.dao_start)
        .initial_primary_epoch_reward(epoch_reward)
        .epoch_duration_target(duration_target)
        .permanent_difficulty_in_dummy(true)
        .cellbase_maturity(EpochNumberWithFraction::new(0, 0, 1));
    if !cc.defaults {
        b = b
            .tx_proposal_window(ProposalWindow(cc.window.0, cc.window.1))
            .median_time_block_count(cc.median)
            .max_block_proposals_limit(cc.max_props)
            .max_block_bytes(cc.max_bytes)
            .max_block_cycles(cc.max_cycles + std::env::var("VERIF_C03_DEBUG_SLACK").ok().and_then(|v| v.parse::<u64>().ok()).unwrap_or(0));
    }
    b.build()
}

#[derive(Default)]
struct Ids {
    blocks: HashMap<Byte32, u64>,
    props: HashMap<ProposalShortId, u64>,
    txs: HashMap<Byte32, u64>,
}

impl Ids {
    fn block(&mut self, h: &Byte32) -> u64 {
        let n = self.blocks.len() as u64;
        *self.blocks.entry(h.clone()).or_insert(n)
    }
    fn prop(&mut self, p: &ProposalShortId) -> u64 {
        let n = self.props.len() as u64 + 1;
        *self.props.entry(p.clone()).or_insert(n)
    }
    fn tx(&mut self, h: &Byte32) -> u64 {
        let n = self.txs.len() as u64 + 1;
        *self.txs.entry(h.clone()).or_insert(n)
    }
}

fn list(v: &[u64]) -> String {
    if v.is_empty() { "-".into() } else { v.iter().map(|x| x.to_string()).collect::<Vec<_>>().join(",") }
}

fn u256_to_u64(x: &ckb_types::U256) -> u64 {
    x.0[0]
}

fn b01(b: bool) -> u8 {
    b as u8
}

struct MainChainHeaders<'a> {
    db: &'a ChainDB,
}
impl HeaderChecker for MainChainHeaders<'_> {
    fn check_valid(&self, block_hash: &Byte32) -> Result<(), ckb_types::core::error::OutPointError> {
        match self.db.get_block_number(block_hash) {
            Some(n) if self.db.get_block_hash(n).as_ref() == Some(block_hash) => Ok(()),
            _ => Err(ckb_types::core::error::OutPointError::InvalidHeader(block_hash.clone())),
        }
    }
}

/// One `blk` line: the abstraction of a real block. `db` is a reference store holding exactly the
/// chain genesis..=parent (a plain ChainDB fed by the block builder, not the node under test).
fn describe(ids: &mut Ids, consensus: &Consensus, db: Option<&ChainDB>, cyc: u64, blk: &BlockView) -> String {
    let id = ids.block(&blk.hash());
    let parent = ids.block(&blk.parent_hash());
    let ep = blk.epoch();
    let mut s = format!(
        "blk {} parent={} num={} ep={}/{}/{} ts={} tgt={} work={} pow=1",
        id,
        parent,
        blk.number(),
        ep.number(),
        ep.index(),
        ep.length(),
        blk.timestamp(),
        blk.compact_target(),
        u256_to_u64(&blk.header().difficulty()),
    );
    let props: Vec<u64> = blk.data().proposals().into_iter().map(|p| ids.prop(&p)).collect();
    s += &format!(" props={} bytes={}", list(&props), blk.data().serialized_size_without_uncle_proposals());
    let txs = blk.transactions();
    // the STRUCTURE of the transactions (round 5): the model derives the cellbase features
    // (`is_cellbase` count / position, output and data quantities, data emptiness, witness and lock
    // hash types, the input comparison), the transaction ids and the committed ids from it
    let tx_descs: Vec<String> = txs
        .iter()
        .enumerate()
        .map(|(i, t)| {
            let ins: Vec<String> = t
                .inputs()
                .into_iter()
                .map(|inp| {
                    let op = inp.previous_output();
                    let idx: u32 = op.index().unpack();
                    // the null out-point, decided here on the raw fields (not with `is_null`)
                    let null = op.tx_hash().raw_data().iter().all(|b| *b == 0) && idx == u32::MAX;
                    let since: u64 = inp.since().unpack();
                    format!("{}.{}", b01(null), since)
                })
                .collect();
            let outs: Vec<String> = t
                .outputs()
                .into_iter()
                .map(|o| {
                    let ht: u8 = o.lock().hash_type().into();
                    format!("{}.{}", b01(o.type_().is_some()), ht)
                })
                .collect();
            let datas: Vec<String> = t.outputs_data().into_iter().map(|d| d.len().to_string()).collect();
            let wit0 = if i != 0 {
                "x".to_string()
            } else {
                match t.witnesses().get(0) {
                    None => "x".to_string(),
                    // molecule verification of the witness is an input of the model
                    Some(w) => match packed::CellbaseWitness::from_slice(&w.raw_data()) {
                        Err(_) => "e".to_string(),
                        Ok(cw) => {
                            let ht: u8 = cw.lock().hash_type().into();
                            ht.to_string()
                        }
                    },
                }
            };
            let j = |v: Vec<String>| if v.is_empty() { "-".to_string() } else { v.join("/") };
            format!("{}:{}:{}:{}:{}:{}:{}", ids.tx(&t.hash()), ids.prop(&t.proposal_short_id()), j(ins), j(outs), j(datas), t.witnesses().len(), wit0)
        })
        .collect();
    s += &format!(" tx={}", if tx_descs.is_empty() { "-".to_string() } else { tx_descs.join(";") });
    s += &format!(
        " txroot={} phash={} txsnc={}",
        b01(blk.transactions_root() == blk.calc_transactions_root()),
        b01(blk.proposals_hash() == blk.calc_proposals_hash()),
        b01(NonContextualBlockTxsVerifier::new(consensus).verify(blk).is_ok()),
    );
    let uncles: Vec<String> = blk
        .uncles()
        .into_iter()
        .map(|u| {
            let ups: Vec<u64> = u.data().proposals().into_iter().map(|p| ids.prop(&p)).collect();
            format!(
                "{}:{}:{}:{}:{}:{}:{}:1",
                ids.block(&u.hash()),
                ids.block(&u.data().header().raw().parent_hash()),
                u.number(),
                u.epoch().number(),
                u.compact_target(),
                list(&ups),
                b01(u.proposals_hash() == u.data().as_reader().calc_proposals_hash()),
            )
        })
        .collect();
    s += &format!(" uncles={}", if uncles.is_empty() { "-".to_string() } else { uncles.join(";") });
    s += &format!(
        " xf={} extlen={} xhash={}",
        // the chain service verifies the block as re-read from the store (`insert_block` keeps the
        // extension only), so table fields after the extension never reach BlockExtensionVerifier
        blk.data().count_extra_fields().min(1),
        blk.extension().map(|e| e.len().to_string()).unwrap_or("none".into()),
        b01(blk.calc_extra_hash().extra_hash() == blk.extra_hash()),
    );
    // oracles of the block's own context, computed on the reference store of the parent chain
    if let Some(db) = db {
        if let Some(parent_header) = db.get_block_header(&blk.parent_hash()) {
            let loader = db.borrow_as_data_loader();
            let epoch = consensus.next_epoch_ext(&parent_header, &loader).expect("epoch").epoch();
            let xep = epoch.number_with_fraction(parent_header.number() + 1);
            s += &format!(" xep={}/{}/{} xtgt={}", xep.number(), xep.index(), xep.length(), epoch.compact_target());
            // chain root
            let root_ok = match blk.extension() {
                Some(e) if e.len() >= 32 => {
                    let txn = db.begin_transaction();
                    let mmr = ChainRootMMR::new(leaf_index_to_mmr_size(parent_header.number()), &txn);
                    let root = mmr.get_root().expect("chain root").calc_mmr_hash();
                    root.as_slice() == &e.raw_data()[..32]
                }
                _ => false,
            };
            s += &format!(" root={}", b01(root_ok));
            // resolution, dao
            let txn = db.begin_transaction();
            let mut seen = HashSet::new();
            let hc = MainChainHeaders { db };
            let rtxs: Option<Vec<Arc<ResolvedTransaction>>> = match BlockCellProvider::new(blk) {
                Ok(bcp) => {
                    let cp = OverlayCellProvider::new(&bcp, &txn);
                    txs.iter().map(|tx| resolve_transaction(tx.clone(), &mut seen, &cp, &hc).map(Arc::new).ok()).collect()
                }
                Err(_) => None,
            };
            // what DaoScriptSizeVerifier reads: (input i, output i) pairs, both Nervos-DAO typed (decided
            // here on the raw fields), input data all zero; lock sizes and the deposit's block number
            if let Some(rtxs) = &rtxs {
                let dth = consensus.dao_type_hash();
                let is_dao = |o: &CellOutput| o.type_().to_opt().map(|t| Into::<u8>::into(t.hash_type()) == 1 && t.code_hash() == dth).unwrap_or(false);
                let mut pairs: Vec<String> = vec![];
                for rtx in rtxs.iter().skip(1) {
                    for (meta, out) in rtx.resolved_inputs.iter().zip(rtx.transaction.outputs().into_iter()) {
                        if !(is_dao(&meta.cell_output) && is_dao(&out)) {
                            continue;
                        }
                        let data = match meta.mem_cell_data.clone().or_else(|| db.get_cell_data(&meta.out_point).map(|(d, _)| d)) {
                            Some(d) => d,
                            None => continue,
                        };
                        if data.iter().any(|b| *b != 0) {
                            continue;
                        }
                        let created = meta.transaction_info.as_ref().map(|i| i.block_number).unwrap_or(u64::MAX);
                        pairs.push(format!("{}.{}.{}", meta.cell_output.lock().total_size(), out.lock().total_size(), created));
                    }
                }
                if !pairs.is_empty() {
                    s += &format!(" dls={}", pairs.join(";"));
                }
            }
            match &rtxs {
                Some(rtxs) if !rtxs.is_empty() => {
                    let dao = DaoCalculator::new(consensus, &loader).dao_field(rtxs.iter().map(AsRef::as_ref), &parent_header);
                    match dao {
                        Ok(d) => s += &format!(" resolve=1 daocalc=1 dao={}", b01(d == blk.header().dao())),
                        Err(_) => s += " resolve=1 daocalc=0 dao=0",
                    }
                }
                _ => s += " resolve=0",
            }
            // reward
            let (target_lock, reward) = RewardCalculator::new(consensus, db).block_reward_to_finalize(&parent_header).expect("reward");
            // `is_lack_of_capacity` of the reward probe cell is computed by the model from the reward
            // and the length of the target lock's args
            let tlargs = target_lock.args().raw_data().len();
            let (cbcap, lockeq) = match txs.first() {
                Some(cb) => (
                    cb.outputs_capacity().map(|c| c.as_u64()).unwrap_or(0),
                    cb.outputs().get(0).map(|o| o.lock() == target_lock).unwrap_or(true),
                ),
                None => (0, true),
            };
            s += &format!(" tlargs={} cbcap={} xrew={} cblockeq={}", tlargs, cbcap, reward.total.as_u64(), b01(lockeq));
        }
    }
    // script execution is an oracle: every non-cellbase transaction spends always-success cells
    // one script group per transaction (the input lock), one more when its cells carry a type script
    let dao_cyc = dao_tx_cycles(consensus.genesis_block().epoch().number());
    let cycles: u64 = txs.iter().skip(1).map(|t| if t.outputs().into_iter().any(|o| o.type_().is_some()) { dao_cyc } else { cyc }).sum();
    s += &format!(" txsok=1 cycles={}", cycles);
    s
}

/// canonical error class of a real verification error (by the error's variant names)
fn classify(dbg: &str) -> &'static str {
    const TABLE: &[(&str, &str)] = &[
        // `TransactionError::DaoLockSizeMismatch` (the Debug of `ckb_error::Error` shows the Display text)
        ("does not match the withdrawing cell", "dao-lock-size"),
        ("DaoLockSizeMismatch", "dao-lock-size"),
        ("InvalidNonce", "pow"),
        ("UnknownParent", "badparent"),
        ("InvalidParent", "badparent"),
        ("is invalid, so block", "badparent"),
        ("previously verified failed", "badparent"),
        ("BlockTimeTooOld", "time-too-old"),
        ("BlockTimeTooNew", "time-too-new"),
        ("Malformed", "epoch-malformed"),
        ("NonContinuous", "epoch-noncontinuous"),
        ("NumberMismatch", "epoch-mismatch"),
        ("TargetMismatch", "target-mismatch"),
        ("NumberError", "number"),
        ("ExceededMaximumProposalsLimit", "proposals-limit"),
        ("ExceededMaximumBlockBytes", "block-bytes"),
        ("InvalidQuantity", "cb-quantity"),
        ("InvalidPosition", "cb-position"),
        ("InvalidOutputQuantity", "cb-output-quantity"),
        ("InvalidOutputData", "cb-output-data"),
        ("InvalidWitness", "cb-witness"),
        ("InvalidTypeScript", "cb-type-script"),
        ("InvalidOutputLock", "cb-output-lock"),
        ("InvalidInput", "cb-input"),
        ("InvalidRewardAmount", "reward-amount"),
        ("InvalidRewardTarget", "reward-target"),
        ("CommitTransactionDuplicate", "tx-duplicate"),
        ("ProposalTransactionDuplicate", "proposal-duplicate"),
        ("ProposalTransactionsHash", "proposals-hash"),
        ("TransactionsRoot", "tx-root"),
        ("OverCount", "uncles-overcount"),
        ("InvalidTarget", "uncle-target"),
        ("InvalidDifficultyEpoch", "uncle-epoch"),
        ("InvalidNumber", "uncle-number"),
        ("DescendantLimit", "uncle-descendant"),
        ("DoubleInclusion", "uncle-double-inclusion"),
        ("ProposalsHash", "uncle-proposals-hash"),
        ("ProposalDuplicate", "uncle-proposal-duplicate"),
        ("Duplicate", "uncle-duplicate"),
        ("AncestorNotFound", "commit-ancestor"),
        ("Commit(Invalid)", "commit-invalid"),
        ("InvalidDAO", "dao"),
        ("NoBlockExtension", "no-extension"),
        ("UnknownFields", "unknown-fields"),
        ("EmptyBlockExtension", "empty-extension"),
        ("ExceededMaximumBlockExtensionBytes", "extension-too-long"),
        ("InvalidBlockExtension", "invalid-extension"),
        ("InvalidChainRoot", "chain-root"),
        ("InvalidExtraHash", "extra-hash"),
        ("ExceededMaximumCycles", "cycles"),
        ("BlockTransactions", "txs"),
        ("kind: OutPoint", "resolve"),
        ("kind: Transaction", "txs-noncontextual"),
    ];
    if dbg.contains("Uncles") && dbg.contains("ExceededMaximumProposalsLimit") {
        return "uncle-proposals-limit";
    }
    for (pat, cls) in TABLE {
        if dbg.contains(pat) {
            return cls;
        }
    }
    "other"
}

#[derive(Clone, Copy, PartialEq, Debug)]
enum Intent {
    /// valid and heaviest: must be attached
    Valid,
    /// single-rule violation: must be rejected, state unchanged
    Invalid,
    /// valid or contextually-invalid block that is not heavier than the tip: stored unverified
    Side,
    /// heaviest block of a branch that contains a violating block: must be rejected, state unchanged
    Doomed,
    /// an already attached block submitted again (possibly with a different body under the same header)
    Resubmit,
}

/// the main chain replayed into a plain ChainDB (no verification): the reference store on which the
/// context oracles of a block built on the tip are computed (same steps as `ChainBuilder::attach`)
struct RefStore {
    db: ChainDB,
    tip: Byte32,
}

impl RefStore {
    fn new(consensus: &Consensus, dir: &Path) -> RefStore {
        let db = ChainDB::new(ckb_db::RocksDB::open_in(dir, ckb_db_schema::COLUMNS), Default::default());
        db.init(consensus).expect("init reference store");
        RefStore { db, tip: consensus.genesis_hash() }
    }

    fn attach(&mut self, consensus: &Consensus, block: &BlockView) {
        let db = &self.db;
        assert_eq!(block.parent_hash(), self.tip);
        let parent_header = db.get_block_header(&block.parent_hash()).expect("parent in reference store");
        let parent_ext = db.get_block_ext(&block.parent_hash()).expect("parent ext");
        let next_epoch = consensus.next_epoch_ext(&parent_header, &db.borrow_as_data_loader()).expect("epoch");
        let is_head = next_epoch.is_head();
        let epoch = next_epoch.epoch();
        let txn = db.begin_transaction();
        let fees: Vec<Capacity> = {
            let mut seen = HashSet::new();
            let bcp = BlockCellProvider::new(block).expect("block cell provider");
            let cp = OverlayCellProvider::new(&bcp, &txn);
            let hc = MainChainHeaders { db };
            let loader = db.borrow_as_data_loader();
            let calc = DaoCalculator::new(consensus, &loader);
            block
                .transactions()
                .iter()
                .skip(1)
                .map(|tx| {
                    let rtx = resolve_transaction(tx.clone(), &mut seen, &cp, &hc).expect("resolve in reference store");
                    calc.transaction_fee(&rtx).expect("fee")
                })
                .collect()
        };
        txn.insert_block(block).unwrap();
        txn.attach_block(block).unwrap();
        ckb_store::attach_block_cell(&txn, block).unwrap();
        txn.insert_block_epoch_index(&block.hash(), &epoch.last_block_hash_in_previous_epoch()).unwrap();
        if is_head {
            txn.insert_epoch_ext(&epoch.last_block_hash_in_previous_epoch(), &epoch).unwrap();
        }
        let ext = ckb_types::core::BlockExt {
            received_at: 0,
            total_difficulty: parent_ext.total_difficulty.clone() + block.header().difficulty(),
            total_uncles_count: parent_ext.total_uncles_count + block.data().uncles().len() as u64,
            verified: Some(true),
            txs_fees: fees,
            cycles: None,
            txs_sizes: None,
        };
        txn.insert_block_ext(&block.hash(), &ext).unwrap();
        txn.insert_tip_header(&block.header()).unwrap();
        txn.insert_current_epoch_ext(&epoch).unwrap();
        {
            let mut mmr = ChainRootMMR::new(leaf_index_to_mmr_size(block.number() - 1), &txn);
            mmr.push(block.digest()).expect("mmr push");
            mmr.commit().expect("mmr commit");
        }
        txn.commit().unwrap();
        self.tip = block.hash();
    }
}

struct Case<'a> {
    /// uncles embedded in main-chain blocks
    included: HashSet<Byte32>,
    /// the same, with their numbers (embedded uncles a later uncle may descend from)
    included_list: Vec<(Byte32, u64)>,
    /// blocks the builder attached in place to one of its stores (built with Tweak::None, cellbase only)
    inplace: HashSet<Byte32>,
    t_submit: std::time::Duration,
    t_describe: std::time::Duration,
    t_process: std::time::Duration,
    refstore: RefStore,
    max_ts: u64,
    out: &'a mut Out,
    rng: Rng,
    node: Node,
    builder: ChainBuilder,
    consensus: Consensus,
    cc: CaseCfg,
    /// activation epoch of the hardfork-conditional rules, by consensus id (computed here from the
    /// constants, not with `Consensus::rfc0044_active`)
    act_epoch: u64,
    ids: Ids,
    cyc: u64,
    tip: Byte32,
    /// blocks the generator built with a violation (and everything built on top of them)
    bad: HashSet<Byte32>,
    described: HashSet<Byte32>,
    /// unused sibling blocks whose parent is on the main chain (uncle candidates)
    pool: Vec<BlockView>,
    /// spendable cells
    cells: Vec<(OutPoint, u64)>,
    /// proposed, not yet committed: (tx, height of the proposing block)
    pending: Vec<(TransactionView, u64)>,
    /// unspent Nervos-DAO-typed deposit cells
    dao_cells: Vec<DaoCell>,
    /// DAO transfers in flight: tx hash -> (input cell, args length of the output lock)
    dao_txs: HashMap<Byte32, (DaoCell, usize)>,
    salt: u64,
    rules_hit: HashSet<String>,
    /// scratch directory of the case
    dir: std::path::PathBuf,
    /// reference store of a second branch (the one that is not `refstore`'s) during a reorg scenario
    extra_ref: Option<RefStore>,
    /// lock-step reference node: it received ONLY the main chain as of its start (no abandoned
    /// branches, no refused blocks) and from then on every block the node under test receives
    fresh: Option<Node>,
    fresh_n: u32,
    /// a block built as violating became the tip (already reported by the oracle): the harness's
    /// picture of the main chain no longer holds, the case stops
    derailed: bool,
}

fn state_digest(node: &Node) -> String {
    let snap = node.shared.snapshot();
    let mut set: Vec<String> = snap.proposals().set().iter().map(|p| format!("{:?}", p)).collect();
    set.sort();
    let mut gap: Vec<String> = snap.proposals().gap().iter().map(|p| format!("{:?}", p)).collect();
    gap.sort();
    format!(
        "{:#x}|{:#x}|{}|{:?}|{:?}|{:?}",
        snap.tip_hash(),
        snap.total_difficulty(),
        snap.epoch_ext().number(),
        node.store().get_tip_header().map(|h| h.hash()),
        set,
        gap
    )
}

impl Case<'_> {
    fn next_salt(&mut self) -> u64 {
        self.salt += 1;
        self.salt
    }

    fn height(&self) -> u64 {
        self.builder.block(&self.tip).number()
    }

    fn status(&self, h: &Byte32) -> &'static str {
        let st = self.node.shared.get_block_status(h);
        if st == BlockStatus::BLOCK_INVALID {
            "invalid"
        } else if st.contains(BlockStatus::BLOCK_VALID) {
            "valid"
        } else if st.contains(BlockStatus::BLOCK_STORED) {
            "stored"
        } else {
            "unknown"
        }
    }

    /// emit the `blk` lines of blocks that share the parent `parent`
    fn describe_all(&mut self, parent: &Byte32, blocks: &[&BlockView]) {
        let todo: Vec<&BlockView> = blocks.iter().filter(|b| !self.described.contains(&b.hash())).cloned().collect();
        if todo.is_empty() {
            return;
        }
        let known = self.builder.blocks.contains_key(parent);
        let lines: Vec<String> = if &self.refstore.tip == parent {
            let db = &self.refstore.db;
            todo.iter().map(|b| describe(&mut self.ids, &self.consensus, Some(db), self.cyc, b)).collect()
        } else if self.extra_ref.as_ref().map(|r| &r.tip == parent).unwrap_or(false) {
            let db = &self.extra_ref.as_ref().unwrap().db;
            todo.iter().map(|b| describe(&mut self.ids, &self.consensus, Some(db), self.cyc, b)).collect()
        } else if known && todo.iter().all(|b| b.transactions().len() == 1 && matches!(self.builder.blocks.get(&b.hash()), Some(_)) && self.inplace.contains(&b.hash())) {
            // cellbase-only blocks the builder attached in place: its store (tip = the block) answers
            // every parent-context oracle identically (nothing to resolve), without a replay
            let mut lines = vec![];
            for b in &todo {
                let db = self.builder.replay_store(&b.hash());
                lines.push(describe(&mut self.ids, &self.consensus, Some(db), self.cyc, b));
            }
            lines
        } else if known {
            let db = self.builder.replay_store(parent);
            todo.iter().map(|b| describe(&mut self.ids, &self.consensus, Some(db), self.cyc, b)).collect()
        } else {
            todo.iter().map(|b| describe(&mut self.ids, &self.consensus, None, self.cyc, b)).collect()
        };
        for (b, l) in todo.iter().zip(lines) {
            self.described.insert(b.hash());
            self.out.op(&l, "ok");
        }
    }

    /// describe cellbase-only blocks on the builder store that holds `via` (their parents are inside it)
    fn describe_via(&mut self, via: &Byte32, blocks: &[&BlockView]) {
        for b in blocks {
            if self.described.contains(&b.hash()) {
                continue;
            }
            assert_eq!(b.transactions().len(), 1);
            let db = self.builder.replay_store(via);
            let l = describe(&mut self.ids, &self.consensus, Some(db), self.cyc, b);
            self.described.insert(b.hash());
            self.out.op(&l, "ok");
        }
    }

    /// HeaderVerifier on the snapshot, parent-known check, then the chain service — `submit_block`
    fn submit(&mut self, blk: &BlockView, now: u64, intent: Intent, rule: &str) {
        let t0 = std::time::Instant::now();
        self.submit_inner(blk, now, intent, rule);
        self.t_submit += t0.elapsed();
    }

    fn submit_inner(&mut self, blk: &BlockView, now: u64, intent: Intent, rule: &str) {
        let parent = blk.parent_hash();
        let t0 = std::time::Instant::now();
        self.describe_all(&parent, &[blk]);
        self.t_describe += t0.elapsed();
        let id = self.ids.block(&blk.hash());
        let before = state_digest(&self.node);
        let tip_before = self.node.tip_hash();
        let guard = ckb_systemtime::faketime();
        guard.set_faketime(now);
        let t1 = std::time::Instant::now();
        let verdict: Result<bool, String> = pipeline(&self.node, &self.consensus, blk);
        self.t_process += t1.elapsed();
        // the same block through the same pipeline of the lock-step reference node
        let fresh_verdict: Option<(String, bool)> = self.fresh.as_ref().map(|f| {
            let r = pipeline(f, &self.consensus, blk);
            (verdict_name(&r, f.tip_hash() == blk.hash()), f.tip_hash() == blk.hash())
        });
        drop(guard);
        if std::env::var("VERIF_C03_DEBUG_SLACK").is_ok() && matches!(verdict, Ok(true)) {
            if let Some(ext) = self.node.store().get_block_ext(&blk.hash()) {
                let kinds: Vec<String> = blk.transactions().iter().skip(1).map(|t| format!("in={} out_typed={} deps={}", t.inputs().len(), t.outputs().into_iter().any(|o| o.type_().is_some()), t.cell_deps().len())).collect();
                eprintln!("DEBUG-CYCLES block {} num={} cycles={:?} txs={:?}", self.ids.block(&blk.hash()), blk.number(), ext.cycles, kinds);
            }
        }
        let after = state_digest(&self.node);
        let tip_after = self.node.tip_hash();
        let st = self.status(&blk.hash());
        let v = match &verdict {
            Ok(true) => {
                if tip_after == blk.hash() { "attached".to_string() } else { "stored".to_string() }
            }
            Ok(false) => "known".to_string(),
            Err(d) => {
                let c = classify(d);
                if c == "other" {
                    self.out.count(&format!("unclassified:{}", &d[..d.len().min(80)]));
                }
                format!("err {}", c)
            }
        };
        // a child of a refused (deleted) block is refused either by HeaderVerifier (parent unknown) or,
        // when the deleted parent's header is still in the store's header cache, by the chain
        // service (parent invalid, child marked invalid): the same class, status not compared
        let st = if v == "err badparent" { "na" } else { st };
        let tip_id = self.ids.block(&tip_after);
        self.out.op(&format!("submit {} now={}", id, now), &format!("{} tip={} st={}", v, tip_id, st));
        // ---- oracle: the verdict must not depend on abandoned branches — a node that only ever saw
        // the main chain (as of the last reorg) and the same later blocks answers the same
        if let Some((fv, ftip)) = fresh_verdict {
            self.out.count("fresh-node:compared");
            if fv != v || ftip != (tip_after == blk.hash()) {
                self.out.oracle_fail(
                    "verdict-depends-on-abandoned-branch",
                    &format!("rule={} block {} ({:#x}): node with reorg history says `{}`, a node that received only the main chain says `{}`", rule, id, blk.hash(), v, fv),
                );
            }
        }
        self.out.count(&format!("{:?}:{}", intent, v));
        self.rules_hit.insert(format!("{}:{:?}", rule, intent));
        self.out.count(&format!("rule:{}={}", rule, v));
        // ---- oracle on the implementation alone
        match intent {
            Intent::Valid => {
                if !(verdict == Ok(true) && tip_after == blk.hash() && st == "valid") {
                    self.out.oracle_fail("valid-block-refused", &format!("rule={} block built valid and heaviest was not attached: {:?} st={}", rule, verdict, st));
                }
            }
            Intent::Invalid | Intent::Doomed => {
                if verdict.is_ok() {
                    self.out.oracle_fail("violating-block-accepted", &format!("rule={} verdict={:?}", rule, verdict));
                }
                if before != after || tip_before != tip_after {
                    self.out.oracle_fail("rejection-changed-state", &format!("rule={} before={} after={}", rule, before, after));
                }
                if st == "valid" {
                    self.out.oracle_fail("violating-block-accepted", &format!("rule={} status valid", rule));
                }
            }
            Intent::Side => {
                if before != after {
                    self.out.oracle_fail("side-block-changed-state", &format!("rule={} before={} after={}", rule, before, after));
                }
            }
            Intent::Resubmit => {
                if before != after {
                    self.out.oracle_fail("resubmit-changed-state", &format!("rule={}", rule));
                }
                if st != "valid" || verdict != Ok(false) {
                    self.out.oracle_fail("attached-block-marked-invalid", &format!("rule={}: an attached block delivered again: verdict {:?}, status now `{}`", rule, verdict, st));
                }
            }
        }
        if verdict.is_ok() && tip_after == blk.hash() {
            if matches!(intent, Intent::Invalid | Intent::Doomed) {
                self.derailed = true;
            }
            self.tip = blk.hash();
        }
    }

    /// `idx` op: the store indexes of the node under test; the model answers with the indexes its
    /// attach/detach model maintained through the same history. Oracle (implementation only): the
    /// lock-step reference node, which never detached anything, has the same rows.
    fn dump_index(&mut self) {
        let tip = self.node.tip();
        let top = tip.number() + 3;
        let top_epoch = tip.epoch().number() + 1;
        let d = idx_dump(&self.ids, self.node.store(), top, top_epoch);
        self.out.op(&format!("idx n={} t={} h={} e={}", self.ids.blocks.len(), self.ids.txs.len(), top, top_epoch), &d);
        if let Some(f) = &self.fresh {
            if f.tip_hash() == tip.hash() {
                let fd = idx_dump(&self.ids, f.store(), top, top_epoch);
                self.out.count("fresh-node:index-compared");
                if fd != d {
                    self.out.oracle_fail(
                        "index-depends-on-abandoned-branch",
                        &format!("store indexes of the node with reorg history: `{}`; of a node that received only the main chain: `{}`", d, fd),
                    );
                }
            }
        }
    }

    /// no violating block (nor a descendant of one) is on the main chain; attached bodies are intact
    fn check_main_chain(&mut self) {
        let store = self.node.store();
        let tip = self.node.tip();
        let mut h = tip.hash();
        loop {
            if self.bad.contains(&h) {
                self.out.oracle_fail("violating-block-canonical", &format!("block {:#x} is on the main chain", h));
            }
            let b = match store.get_block(&h) {
                Some(b) => b,
                None => {
                    self.out.oracle_fail("main-chain-block-missing", &format!("{:#x}", h));
                    break;
                }
            };
            if b.calc_extra_hash().extra_hash() != b.extra_hash() || b.calc_transactions_root() != b.transactions_root() || b.calc_proposals_hash() != b.proposals_hash() {
                self.out.oracle_fail("attached-body-not-committed-by-header", &format!("block {} {:#x}: stored body does not match the header's roots", b.number(), h));
            }
            if b.number() == 0 {
                break;
            }
            h = b.parent_hash();
        }
    }
}

/// The rows of the attach/detach-maintained columns, canonically: `COLUMN_INDEX` hash ↦ number for
/// every hash the case knows (blocks, uncles, uncle parents), `COLUMN_UNCLES` hash ↦ header number,
/// `COLUMN_INDEX` number ↦ hash up to a few heights above the tip, `COLUMN_TRANSACTION_INFO` for every
/// transaction of a described block, the epoch-number rows of `COLUMN_EPOCH` above epoch 0.
fn idx_dump(ids: &Ids, store: &ChainDB, top: u64, top_epoch: u64) -> String {
    let mut blocks: Vec<(u64, Byte32)> = ids.blocks.iter().map(|(h, i)| (*i, h.clone())).collect();
    blocks.sort_by_key(|e| e.0);
    let name = |h: &Byte32| ids.blocks.get(h).map(|i| i.to_string()).unwrap_or("?".into());
    let mut main = vec![];
    let mut unc = vec![];
    for (i, h) in &blocks {
        if let Some(n) = store.get_block_number(h) {
            main.push(format!("{}:{}", i, n));
        }
        if let Some(hd) = store.get_uncle_header(h) {
            unc.push(format!("{}:{}", i, hd.number()));
        }
    }
    let mut at = vec![];
    for n in 0..=top {
        if let Some(h) = store.get_block_hash(n) {
            at.push(format!("{}:{}", n, name(&h)));
        }
    }
    let mut txs: Vec<(u64, Byte32)> = ids.txs.iter().map(|(h, i)| (*i, h.clone())).collect();
    txs.sort_by_key(|e| e.0);
    let mut txi = vec![];
    for (i, h) in &txs {
        if let Some(info) = store.get_transaction_info(h) {
            txi.push(format!("{}:{}:{}", i, name(&info.block_hash), info.block_number));
        }
    }
    let mut ep = vec![];
    for e in 1..=top_epoch {
        if let Some(h) = store.get_epoch_index(e) {
            ep.push(format!("{}:{}", e, name(&h)));
        }
    }
    let j = |v: Vec<String>| if v.is_empty() { "-".to_string() } else { v.join(",") };
    format!("main={} uncles={} at={} tx={} ep={}", j(main), j(unc), j(at), j(txi), j(ep))
}

/// HeaderVerifier on the snapshot, parent-known check, then the chain service — `submit_block`
fn pipeline(node: &Node, consensus: &Consensus, blk: &BlockView) -> Result<bool, String> {
    let guard_snapshot = node.shared.snapshot();
    let snapshot: &ckb_snapshot::Snapshot = &guard_snapshot;
    match HeaderVerifier::new(snapshot, consensus).verify(&blk.header()) {
        Err(e) => Err(format!("{:?}", e)),
        Ok(()) => {
            if snapshot.get_block_header(&blk.parent_hash()).is_none() {
                Err("UnknownParent(rpc)".to_string())
            } else {
                node.controller().blocking_process_block(Arc::new(blk.clone())).map_err(|e| format!("{:?}", e))
            }
        }
    }
}

fn verdict_name(verdict: &Result<bool, String>, is_tip: bool) -> String {
    match verdict {
        Ok(true) => {
            if is_tip { "attached".to_string() } else { "stored".to_string() }
        }
        Ok(false) => "known".to_string(),
        Err(d) => format!("err {}", classify(d)),
    }
}

// ------------------------------------------------------------------------------------------------
// block surgery
// ------------------------------------------------------------------------------------------------

fn with_cellbase(v: &BlockView, f: impl FnOnce(TransactionBuilder) -> TransactionBuilder) -> BlockView {
    let mut txs: Vec<TransactionView> = v.transactions();
    let cb = f(txs[0].as_advanced_builder()).build();
    txs[0] = cb;
    v.as_advanced_builder().set_transactions(txs).build()
}

fn with_txs(v: &BlockView, txs: Vec<TransactionView>) -> BlockView {
    v.as_advanced_builder().set_transactions(txs).build()
}

fn edit_raw(v: &BlockView, f: impl FnOnce(packed::RawHeaderBuilder) -> packed::RawHeaderBuilder) -> BlockView {
    let raw = f(v.data().header().raw().as_builder()).build();
    let header = v.data().header().as_builder().raw(raw).build();
    let d = v.data();
    let blk = match v.extension() {
        Some(ext) => packed::BlockV1::new_builder().header(header).uncles(d.uncles()).transactions(d.transactions()).proposals(d.proposals()).extension(ext).build().as_v0(),
        None => packed::Block::new_builder().header(header).uncles(d.uncles()).transactions(d.transactions()).proposals(d.proposals()).build(),
    };
    blk.into_view_without_reset_header()
}

fn edit_uncle_raw(u: &UncleBlockView, f: impl FnOnce(packed::RawHeaderBuilder) -> packed::RawHeaderBuilder) -> UncleBlockView {
    let raw = f(u.data().header().raw().as_builder()).build();
    let header = u.data().header().as_builder().raw(raw).build();
    u.data().as_builder().header(header).build().into_view()
}

fn ext_of_len(v: &BlockView, len: usize) -> Option<packed::Bytes> {
    let mut bytes = v.extension().map(|e| e.raw_data().to_vec()).unwrap_or_default();
    bytes.resize(len, 0xab);
    Some(Bytes::from(bytes).pack())
}

/// the cellbase witness rebuilt with the byte `ht` as its lock's hash type
fn cellbase_witness_hash_type(v: &BlockView, ht: u8, salt: u64) -> BlockView {
    with_cellbase(v, |cb| {
        let (_, _, lock) = always_success_cell();
        let l = lock.clone().as_builder().hash_type(packed::Byte::new(ht)).build();
        let w = packed::CellbaseWitness::new_builder().lock(l).message(Bytes::from(salt.to_le_bytes().to_vec()).pack()).build();
        cb.set_witnesses(vec![w.as_bytes().pack()])
    })
}

fn pad_cellbase_witness(v: &BlockView, extra: usize) -> BlockView {
    with_cellbase(v, |cb| {
        let (_, _, lock) = always_success_cell();
        let w = packed::CellbaseWitness::new_builder().lock(lock.clone()).message(Bytes::from(vec![7u8; 8 + extra]).pack()).build();
        cb.set_witnesses(vec![w.as_bytes().pack()])
    })
}

// ------------------------------------------------------------------------------------------------
// one case
// ------------------------------------------------------------------------------------------------

fn pick_cfg(rng: &mut Rng, cyc: u64) -> CaseCfg {
    if rng.chance(1, 5) {
        // all consensus defaults (median 37, window 2..10, proposals limit 1500 …); epoch length stays short
        return CaseCfg { epoch_len: rng.range(5, 9), window: (2, 10), median: 37, max_props: 1500, max_bytes: 597_000, max_cycles: 3_500_000_000, defaults: true, chain: "ckb_dev", genesis_epoch: 0, dao: false, dao_start: 10_000_000 };
    }
    let close = rng.range(1, 3);
    let far = close + rng.range(1, 4);
    CaseCfg {
        epoch_len: rng.range(4, 9),
        window: (close, far),
        median: *rng.pick(&[1usize, 2, 3, 4, 5, 11]),
        max_props: rng.range(2, 5),
        max_bytes: rng.range(3_000, 5_000),
        max_cycles: cyc * rng.range(2, 3),
        defaults: false,
        chain: "ckb_dev",
        genesis_epoch: 0,
        dao: false,
        dao_start: 10_000_000,
    }
}

/// cycles of one always-success input (measured once on a throw-away node; script execution is an oracle)
fn measure_cycles(base: &Path) -> u64 {
    measure_cycles_at(base, 0)
}

/// the DAO transfer figure for histories that start at `genesis_epoch`, measured once
fn ensure_dao_cycles(base: &Path, genesis_epoch: u64) {
    if DAO_TX_CYCLES.lock().unwrap().as_ref().map(|m| m.contains_key(&genesis_epoch)).unwrap_or(false) {
        return;
    }
    measure_cycles_at(base, genesis_epoch);
}

/// cycles of a plain always-success spend (returned) and of a DAO transfer (recorded for
/// `genesis_epoch`) on a two-block probe chain whose genesis block is the first block of epoch `genesis_epoch`
fn measure_cycles_at(base: &Path, genesis_epoch: u64) -> u64 {
    let cc = CaseCfg { epoch_len: 10, window: (1, 3), median: 3, max_props: 10, max_bytes: 100_000, max_cycles: 1_000_000_000, defaults: false, chain: "ckb_dev", genesis_epoch, dao: true, dao_start: 10_000_000 };
    let consensus = consensus_for(&cc, 2);
    let ncfg = NodeCfg::default();
    let node = Node::start(&base.join(format!("probe-node-{}", genesis_epoch)), consensus.clone(), &ncfg);
    let mut b = ChainBuilder::new(consensus.clone(), &base.join(format!("probe-builder-{}", genesis_epoch)));
    let cells = plain_genesis_cells(&consensus);
    let tx = spend_tx(&cells[0..1], 1, 100, 1);
    let dtx = dao_transfer(&consensus, &dao_genesis_cells(&consensus)[0], 0, 1);
    let b1 = b.build(&consensus.genesis_hash(), &BlockSpec { proposals: vec![tx.proposal_short_id(), dtx.proposal_short_id()], salt: 1, ..Default::default() });
    let b2 = b.build(&b1.hash(), &BlockSpec { txs: vec![tx.clone(), dtx.clone()], salt: 2, ..Default::default() });
    node.process(&b1).expect("probe b1");
    node.process(&b2).expect("probe b2");
    let ext = node.store().get_block_ext(&b2.hash()).expect("ext");
    let cycles = ext.cycles.expect("cycles");
    let cyc = cycles[0];
    DAO_TX_CYCLES.lock().unwrap().get_or_insert_with(HashMap::new).insert(genesis_epoch, cycles[1]);
    if std::env::var("VERIF_C03_DEBUG_SLACK").is_ok() {
        eprintln!("DEBUG-CYCLES probe genesis_epoch={} plain={} dao-transfer={}", genesis_epoch, cyc, cycles[1]);
    }
    node.stop();
    cyc
}

/// configuration of a reorg case: random window / median / epoch length, roomy limits (the fork
/// tree needs up to four proposals and three commits per block)
fn pick_cfg_reorg(rng: &mut Rng, cyc: u64) -> CaseCfg {
    let close = rng.range(1, 3);
    let far = close + rng.range(1, 4);
    CaseCfg {
        // long epochs keep the whole fork tree inside one epoch (uncles must share the epoch of the
        // embedding block); short ones put epoch boundaries inside the fork
        epoch_len: if rng.chance(2, 3) { rng.range(12, 16) } else { rng.range(4, 8) },
        window: (close, far),
        median: *rng.pick(&[1usize, 3, 5, 11, 37]),
        max_props: rng.range(6, 9),
        max_bytes: 20_000,
        max_cycles: cyc * 6,
        defaults: false,
        chain: "ckb_dev",
        genesis_epoch: 0,
        dao: false,
        dao_start: 10_000_000,
    }
}

fn run_case(out: &mut Out, seed: u64, base: &Path, cyc: u64, steps: usize, reorg: bool, regime: u64) {
    let mut rng = Rng::new(seed);
    let mut cc = if reorg { pick_cfg_reorg(&mut rng, cyc) } else { pick_cfg(&mut rng, cyc) };
    if regime == 4 {
        // regime 4 = regime 2 (crossing the test-net activation epoch) under the all-defaults
        // configuration, where DAO-typed transfers are generated
        cc = CaseCfg { epoch_len: cc.epoch_len.clamp(5, 9), window: (2, 10), median: 37, max_props: 1500, max_bytes: 597_000, max_cycles: 3_500_000_000, defaults: true, chain: "ckb_dev", genesis_epoch: 0, dao: false, dao_start: 10_000_000 };
    }
    let cc = with_regime(cc, regime, cyc, seed);
    if cc.dao {
        ensure_dao_cycles(base, cc.genesis_epoch);
    }
    let tag = if regime == 0 { String::new() } else { format!(" regime={}", regime) };
    out.begin_case(&if reorg { format!("seed={} reorg=1{}", seed, tag) } else { format!("seed={}{}", seed, tag) });
    let t_case = std::time::Instant::now();
    let consensus = consensus_for(&cc, if reorg { 40 } else { 24 });
    let ncfg = NodeCfg { with_pool: false, ..Default::default() };
    let dir = base.join(format!("case-{}", seed));
    let _ = std::fs::remove_dir_all(&dir);
    let node = Node::start(&dir.join("node"), consensus.clone(), &ncfg);
    let builder = ChainBuilder::new(consensus.clone(), &dir.join("builder"));
    let cells = plain_genesis_cells(&consensus);
    let mut c = Case {
        inplace: HashSet::new(),
        included: HashSet::new(),
        included_list: vec![],
        t_submit: Default::default(),
        t_describe: Default::default(),
        t_process: Default::default(),
        refstore: RefStore::new(&consensus, &dir.join("refstore")),
        max_ts: consensus.genesis_block().timestamp(),
        out,
        rng,
        node,
        builder,
        consensus: consensus.clone(),
        cc: cc.clone(),
        act_epoch: act_epoch_of(cc.chain),
        ids: Ids::default(),
        cyc,
        tip: consensus.genesis_hash(),
        bad: HashSet::new(),
        described: HashSet::new(),
        pool: vec![],
        cells,
        pending: vec![],
        dao_cells: if cc.dao { dao_genesis_cells(&consensus) } else { vec![] },
        dao_txs: HashMap::new(),
        salt: 0,
        rules_hit: HashSet::new(),
        dir: dir.clone(),
        extra_ref: None,
        fresh: None,
        fresh_n: 0,
        derailed: false,
    };
    c.builder.max_branch_stores = 4;
    // the consensus id goes to the model, which selects the rfc0044 activation epoch from the
    // constants regenerated from the source and decides per block (parent's epoch) whether it is active
    let mut chain = if regime == 0 { String::new() } else { format!(" chain={}", consensus.id) };
    if cc.dao {
        chain += &format!(" daostart={}", cc.dao_start);
    }
    if cc.defaults {
        c.out.op(&format!("cfg{}", chain), "ok");
    } else {
        c.out.op(
            &format!("cfg median={} maxprops={} maxbytes={} maxcycles={} close={} far={}{}", cc.median, cc.max_props, cc.max_bytes, cc.max_cycles, cc.window.0, cc.window.1, chain),
            "ok",
        );
    }
    let g = consensus.genesis_block().clone();
    let gid = c.ids.block(&g.hash());
    let gep = g.epoch();
    c.out.op(
        &format!("genesis id={} num=0 ts={} ep={}/{}/{} tgt={} work={}", gid, g.timestamp(), gep.number(), gep.index(), gep.length(), g.compact_target(), u256_to_u64(&g.header().difficulty())),
        "ok",
    );
    c.described.insert(g.hash());
    if reorg {
        // warm-up history, fork tree (A -> B -> A'), ordinary steps on the chain that survived (every
        // rule of `step` then runs on a store with a reorg history, in lock step with a node that
        // has none), a second fork tree, ordinary steps again
        let warm = c.rng.range(2, 9) as usize;
        for _ in 0..warm {
            if !c.derailed {
                step(&mut c);
            }
        }
        reorg_scenario(&mut c);
        let mid = c.rng.range(2, 4) as usize;
        for _ in 0..mid {
            if !c.derailed {
                step(&mut c);
            }
        }
        if steps > 12 {
            reorg_scenario(&mut c);
            for _ in 0..2 {
                if !c.derailed {
                    step(&mut c);
                }
            }
        }
        c.dump_index();
        end_fresh(&mut c);
    } else {
        for _ in 0..steps {
            step(&mut c);
        }
        c.dump_index();
    }
    c.check_main_chain();
    let fp = format!("{:?}|{}", cc, c.rules_hit.len());
    if c.rules_hit.len() >= 6 {
        c.out.nontrivial(fp);
    }
    if std::env::var("VERIF_TIMING").is_ok() {
        eprintln!("  submit {:?} (describe-in-submit {:?}, process {:?})", c.t_submit, c.t_describe, c.t_process);
    }
    let Case { node, builder, refstore, extra_ref, .. } = c;
    node.stop();
    drop(builder);
    drop(refstore);
    drop(extra_ref);
    if std::env::var("VERIF_TIMING").is_ok() {
        eprintln!("case seed={} {:?}", seed, t_case.elapsed());
    }
    let _ = std::fs::remove_dir_all(&dir);
}

/// timestamps of the parent chain as `block_median_time` walks them (independent computation)
fn median_of_parent(c: &Case, parent: &Byte32) -> u64 {
    let mut ts = vec![];
    let mut h = parent.clone();
    for _ in 0..c.consensus.median_time_block_count() {
        let b = c.builder.block(&h);
        ts.push(b.timestamp());
        if b.number() == 0 {
            break;
        }
        h = b.parent_hash();
    }
    ts.sort();
    ts[ts.len() >> 1]
}

fn fresh_tx(c: &mut Case) -> Option<TransactionView> {
    if c.cells.is_empty() {
        return None;
    }
    let cell = c.cells.remove(0);
    let salt = c.next_salt();
    Some(spend_tx(&[cell], 1, 1000 + salt, salt))
}

/// a transfer of a DAO-typed deposit cell: the output lock has the same size, or a few bytes more
fn fresh_dao_tx(c: &mut Case) -> Option<TransactionView> {
    if c.dao_cells.is_empty() {
        return None;
    }
    let cell = c.dao_cells.remove(0);
    let salt = c.next_salt();
    let out_args = if c.rng.chance(1, 2) { cell.args_len } else { cell.args_len + 1 + c.rng.below(3) as usize };
    let tx = dao_transfer(&c.consensus, &cell, out_args, salt);
    c.dao_txs.insert(tx.hash(), (cell, out_args));
    Some(tx)
}

/// a well-formed spend that is never meant to be committed (the cell stays available)
fn scratch_tx(c: &mut Case) -> Option<TransactionView> {
    let cell = c.cells.first()?.clone();
    let salt = c.next_salt();
    Some(spend_tx(&[cell], 1, 1000 + salt, salt))
}

/// uncle candidates valid for a block on the current tip: same epoch as the new block, parent on the main chain
fn valid_uncles(c: &Case, new_epoch: u64, h: u64, max: usize) -> Vec<BlockView> {
    let main: HashSet<Byte32> = c.builder.path_to(&c.tip).into_iter().collect();
    let mut chosen: Vec<BlockView> = vec![];
    for u in c.pool.iter() {
        if chosen.len() >= max {
            break;
        }
        if u.epoch().number() != new_epoch || u.number() >= h || main.contains(&u.hash()) || c.included.contains(&u.hash()) {
            continue;
        }
        let p = u.parent_hash();
        // descent: parent on the main chain, or an uncle embedded earlier (in the chain or in this block)
        if main.contains(&p) || c.included.contains(&p) || chosen.iter().any(|x| x.hash() == p) {
            chosen.push(u.clone());
        }
    }
    chosen
}

/// a fully valid sibling of `b` made by surgery (other timestamp / proposals, no uncles): same
/// transactions, hence same DAO field, reward and chain root
fn sibling_of(b: &BlockView, dt: u64, proposals: Vec<ProposalShortId>) -> BlockView {
    b.as_advanced_builder().timestamp(b.timestamp() + dt).set_proposals(proposals).set_uncles(vec![]).build()
}

fn step(c: &mut Case) {
    let parent = c.tip.clone();
    let ph = c.builder.block(&parent).clone();
    let h = ph.number() + 1;
    let (wc, wf) = (c.consensus.tx_proposal_window().closest(), c.consensus.tx_proposal_window().farthest());
    let salt = c.next_salt();
    // ---------------- the valid block of this step
    let mut spec = BlockSpec { salt, ..Default::default() };
    // commits: pending txs whose window is open; prefer the edges
    let mut commit_now = vec![];
    let mut too_early = vec![];
    let mut keep = vec![];
    let mut expired = vec![];
    for (tx, hp) in c.pending.drain(..) {
        if hp == u64::MAX {
            keep.push((tx, hp));
            continue;
        }
        let d = h - hp;
        if d > wf {
            expired.push((tx, hp));
        } else if d < wc {
            too_early.push((tx.clone(), hp));
            keep.push((tx, hp));
        } else if (d == wc && c.rng.chance(1, 2)) || (d == wf && !c.rng.chance(1, 4)) || (d != wf && c.rng.chance(1, 4)) {
            commit_now.push((tx, hp));
        } else {
            keep.push((tx, hp));
        }
    }
    c.pending = keep;
    // keep the block under the cycle limit of the case; the overflow is used for the limit+1 probe
    let room = if c.cc.defaults { 4 } else { (c.cc.max_cycles / c.cyc) as usize };
    let mut overflow: Option<TransactionView> = None;
    // a DAO transfer runs two script groups (lock + type)
    let dao_cyc = dao_tx_cycles(c.cc.genesis_epoch);
    let cost = |c: &Case, v: &Vec<(TransactionView, u64)>| -> u64 { v.iter().map(|(t, _)| if c.dao_txs.contains_key(&t.hash()) { dao_cyc } else { c.cyc }).sum() };
    while if c.cc.defaults { commit_now.len() > room } else { cost(c, &commit_now) > c.cc.max_cycles } {
        let x = commit_now.pop().unwrap();
        overflow = Some(x.0.clone());
        if h - x.1 < wf { c.pending.push(x) } else { expired.push(x) }
    }
    // round 6, the second rfc0044-gated rule: once the parent's epoch is at the activation epoch a DAO
    // transfer whose lock size changes (deposit committed at or above the limiting start block) makes
    // the block invalid; before that it is an ordinary transaction
    let parent_active = ph.epoch().number() >= c.act_epoch;
    let mut dao_refused: Vec<TransactionView> = vec![];
    {
        let mut kept = vec![];
        for (tx, hp) in commit_now.drain(..) {
            match c.dao_txs.get(&tx.hash()) {
                Some((cell, out)) if *out != cell.args_len && cell.created >= c.cc.dao_start && parent_active => {
                    // the deposit stays unspent
                    c.dao_cells.push(cell.clone());
                    dao_refused.push(tx);
                }
                Some((cell, out)) if *out != cell.args_len => {
                    c.out.count(if parent_active { "valid:dao-lock-size-change(deposit-below-limiting-start)" } else { "valid:dao-lock-size-change(before-activation)" });
                    c.rules_hit.insert("dao-lock-size-gate:Valid".into());
                    kept.push((tx, hp));
                }
                _ => kept.push((tx, hp)),
            }
        }
        commit_now = kept;
    }
    // the last transaction popped above is the one whose cycles no longer fit
    let full = overflow.is_some() && dao_refused.is_empty();
    spec.txs = commit_now.iter().map(|(t, _)| t.clone()).collect();
    // proposals
    let n_prop = c.rng.below(4) as usize;
    let mut new_props = vec![];
    for _ in 0..n_prop {
        if (spec.proposals.len() as u64) < c.consensus.max_block_proposals_limit() {
            let tx = if c.cc.dao && c.rng.chance(1, 3) { fresh_dao_tx(c).or_else(|| fresh_tx(c)) } else { fresh_tx(c) };
            if let Some(tx) = tx {
                spec.proposals.push(tx.proposal_short_id());
                new_props.push(tx);
            }
        }
    }
    // proposals exactly at the limit (valid side of the limit)
    let mut at_limit = false;
    if !c.cc.defaults && c.rng.chance(1, 6) {
        let mut i = 0u64;
        while (spec.proposals.len() as u64) < c.consensus.max_block_proposals_limit() {
            let mut b = [0u8; 10];
            b[..8].copy_from_slice(&(salt * 10_000 + 5000 + i).to_le_bytes());
            b[9] = 0xdd;
            spec.proposals.push(ProposalShortId::new(b));
            i += 1;
        }
        at_limit = true;
    }
    // expected epoch of the new block
    let new_epoch = {
        let e = ph.epoch();
        if ph.number() == 0 { e.number() } else if e.index() + 1 == e.length() { e.number() + 1 } else { e.number() }
    };
    // uncles
    let n_unc = c.rng.below(3) as usize;
    let uncles = valid_uncles(c, new_epoch, h, n_unc);
    spec.uncles = uncles.iter().map(|u| u.as_uncle()).collect();
    // boundary kinds decided before building, so that the builder's store follows the accepted block
    let mut bkind = c.rng.below(12);
    // round 6: the activation boundary of the hardfork-conditional rules. The verifier asks
    // `rfc0044_active(parent.epoch().number())`; `active` is the same question answered from the constants
    let active = ph.epoch().number() >= c.act_epoch;
    if c.cc.chain != "ckb_dev" {
        if !active {
            // before activation: two steps in three exercise the extension rules of this regime, the
            // block that crosses the boundary (own epoch = activation epoch, parent's below it) always
            if new_epoch >= c.act_epoch || c.rng.chance(2, 3) {
                bkind = 20 + c.rng.below(4);
            }
        } else if ph.epoch().number() == c.act_epoch && (ph.epoch().index() <= 1 || c.rng.chance(1, 2)) {
            // the first epoch in which the chain root is required
            bkind = 25;
        }
    }
    let median = median_of_parent(c, &parent);
    // timestamps may legally go backwards (only the past median bounds them), but an epoch's last
    // block older than the previous epoch's last block makes `get_block_epoch` subtract with
    // overflow (C07's territory), so the generator keeps epoch tails monotone
    let new_index = if ph.number() == 0 { 1 } else if ph.epoch().index() + 1 == ph.epoch().length() { 0 } else { ph.epoch().index() + 1 };
    if bkind == 0 && new_index + 1 == c.cc.epoch_len {
        bkind = 11;
    }
    spec.timestamp = Some(if bkind == 0 { median + 1 } else { c.max_ts + 1 + salt % 3 });
    // one transaction more than the block cycle limit allows (every transaction properly proposed);
    // built first and never attached to the builder's store
    let mut over_block = None;
    if let Some(tx) = overflow {
        // (not with a transfer the DAO lock-size gate refuses first)
        let gate_first = matches!(c.dao_txs.get(&tx.hash()), Some((cell, out)) if *out != cell.args_len && cell.created >= c.cc.dao_start && parent_active);
        if !c.cc.defaults && full && !gate_first {
            let s = c.next_salt();
            let mut ospec = spec.clone();
            ospec.salt = s;
            ospec.txs.push(tx);
            ospec.tweak = Tweak::Timestamp(c.max_ts + 1 + salt % 3);
            over_block = Some(c.builder.build(&parent, &ospec));
        }
    }
    let v = c.builder.build(&parent, &spec);
    // a sibling for later use as an uncle (sometimes with proposals, sometimes also stored by the node)
    let sib = if c.rng.chance(1, 2) {
        let mut props = vec![];
        if c.rng.chance(1, 2) {
            if let Some(tx) = fresh_tx(c) {
                props.push(tx.proposal_short_id());
                // proposed only inside a future uncle
                c.pending.push((tx, u64::MAX));
            }
        }
        let s = sibling_of(&v, 1 + c.rng.below(3), props);
        c.builder.blocks.insert(s.hash(), s.clone());
        Some(s)
    } else {
        None
    };
    // ---------------- probes
    let now = v.timestamp() + c.rng.below(3) * 5000;
    let n_probes = 2 + c.rng.below(3);
    let mut mutants: Vec<(BlockView, &'static str, u64)> = vec![];
    for _ in 0..n_probes {
        if let Some(m) = make_mutant(c, &v, &ph, &too_early, &expired, sib.as_ref()) {
            mutants.push((m.0, m.1, now));
        }
    }
    for (tx, hp) in too_early.iter().filter(|(_, hp)| h - hp + 1 == wc).take(1) {
        let _ = hp;
        mutants.push((with_txs(&v, { let mut t = v.transactions(); t.push(tx.clone()); t }), "commit-w_close-1", now));
    }
    for (tx, hp) in expired.iter().filter(|(_, hp)| *hp != u64::MAX && h - hp == wf + 1).take(1) {
        let _ = hp;
        mutants.push((with_txs(&v, { let mut t = v.transactions(); t.push(tx.clone()); t }), "commit-w_far+1", now));
    }
    for tx in dao_refused.iter() {
        // the DAO field of the header recomputed for the larger body: the only broken rule is the lock size
        if let Some(m) = fix_dao(c, with_txs(&v, { let mut t = v.transactions(); t.push(tx.clone()); t })) {
            mutants.push((m, "dao-lock-size-mismatch(active)", now));
            c.rules_hit.insert("dao-lock-size-gate:Invalid".into());
        }
    }
    for (_, hp) in commit_now.iter() {
        if h - hp == wc {
            c.rules_hit.insert("commit-w_close:Valid".into());
            c.out.count("valid:commit-at-w_close");
        }
        if h - hp == wf {
            c.rules_hit.insert("commit-w_far:Valid".into());
            c.out.count("valid:commit-at-w_far");
        }
    }
    {
        let main: HashSet<Byte32> = c.builder.path_to(&parent).into_iter().collect();
        if uncles.iter().any(|u| !main.contains(&u.parent_hash())) {
            c.out.count("valid:uncle-descends-from-uncle");
            c.rules_hit.insert("uncle-embedded-descent:Valid".into());
        }
    }
    if !spec.uncles.is_empty() {
        c.out.count(&format!("valid:uncles={}", spec.uncles.len()));
    }
    if let Some(over) = over_block {
        mutants.push((over, "cycles-limit+1", now));
        c.rules_hit.insert("cycles-limit:Valid".into());
    }
    if at_limit {
        c.rules_hit.insert("proposals-limit:Valid".into());
    }
    {
        let mut all: Vec<&BlockView> = mutants.iter().map(|m| &m.0).collect();
        all.push(&v);
        if let Some(s) = &sib {
            all.push(s);
        }
        c.describe_all(&parent, &all);
    }
    for (m, rule, now) in &mutants {
        c.bad.insert(m.hash());
        c.submit(m, *now, Intent::Invalid, rule);
    }
    let v = boundary_valid(c, v, &ph, bkind, median, now);
    c.tip = v.hash();
    c.max_ts = c.max_ts.max(v.timestamp());
    c.refstore.attach(&c.consensus, &v);
    // bookkeeping
    for (tx, _) in commit_now {
        let cap: u64 = tx.outputs().get(0).unwrap().capacity().unpack();
        match c.dao_txs.remove(&tx.hash()) {
            Some((_, out_args)) => c.dao_cells.push(DaoCell { op: OutPoint::new(tx.hash(), 0), cap, args_len: out_args, created: h }),
            None => c.cells.push((OutPoint::new(tx.hash(), 0), cap)),
        }
    }
    for tx in new_props {
        c.pending.push((tx, h));
    }
    for u in &v.uncles().into_iter().collect::<Vec<_>>() {
        c.pool.retain(|p| p.hash() != u.hash());
        c.included.insert(u.hash());
        c.included_list.push((u.hash(), u.number()));
        // proposals carried by an included uncle are proposed at this height
        for p in u.data().proposals().into_iter() {
            for e in c.pending.iter_mut() {
                if e.1 == u64::MAX && e.0.proposal_short_id() == p {
                    e.1 = h;
                }
            }
        }
    }
    if let Some(s) = sib {
        if c.rng.chance(1, 2) {
            c.submit(&s, now, Intent::Side, "sibling");
        }
        // a header that descends from the sibling: usable as an uncle only together with / after it
        // (embedded descent); only its header fields matter to the uncle rules
        let child = if c.rng.chance(1, 3) {
            Some(s.as_advanced_builder().parent_hash(s.hash()).number(s.number() + 1).timestamp(s.timestamp() + 1).set_proposals(vec![]).build())
        } else {
            None
        };
        c.pool.push(s);
        if let Some(ch) = child {
            c.pool.push(ch);
        }
    }
    // side-branch variant
    if c.rng.chance(1, 5) && h >= 3 {
        side_branch(c);
    }
    // leave the branch for a heavier one and come back to it (its lower blocks were verified earlier)
    if c.rng.chance(1, 6) && h >= 4 {
        switch_back(c);
    }
    // an attached block submitted again, with the same header and a different body
    if c.rng.chance(1, 6) {
        resubmit(c);
    }
}

/// the valid side of the boundaries that need their own block; returns the block that became the tip
fn boundary_valid(c: &mut Case, v: BlockView, ph: &BlockView, kind: u64, median: u64, now: u64) -> BlockView {
    let parent = ph.hash();
    match kind {
        0 => {
            // timestamp = median (reject) / median + 1 (accept): `v` was built with median + 1
            assert_eq!(v.timestamp(), median + 1);
            let old = v.as_advanced_builder().timestamp(median).build();
            c.bad.insert(old.hash());
            c.describe_all(&parent, &[&old]);
            c.submit(&old, median + 1 + FUTURE, Intent::Invalid, "ts-median");
            let jitter = c.rng.below(3) * 7000;
            c.submit(&v, median + 1 + jitter, Intent::Valid, "ts-median+1");
            v
        }
        1 => {
            // timestamp = now + ALLOWED_FUTURE (accept) / one more ms (reject): same block, clock moved
            c.submit(&v, v.timestamp() - FUTURE - 1, Intent::Invalid, "ts-future+1");
            c.submit(&v, v.timestamp() - FUTURE, Intent::Valid, "ts-future");
            v
        }
        2 if !c.cc.defaults => {
            // block bytes exactly at the limit (accept) / limit + 1 (reject)
            let base = pad_cellbase_witness(&v, 0);
            let bsize = base.data().serialized_size_without_uncle_proposals() as u64;
            if bsize <= c.cc.max_bytes {
                let pad = (c.cc.max_bytes - bsize) as usize;
                let over = pad_cellbase_witness(&v, pad + 1);
                let at = pad_cellbase_witness(&v, pad);
                c.builder.blocks.insert(at.hash(), at.clone());
                c.bad.insert(over.hash());
                c.describe_all(&parent, &[&over, &at]);
                c.submit(&over, now, Intent::Invalid, "bytes-limit+1");
                c.submit(&at, now, Intent::Valid, "bytes-limit");
                at
            } else {
                c.submit(&v, now, Intent::Valid, "plain");
                v
            }
        }
        3 => {
            // extension of 32 / 96 bytes (accept) / 97 (reject); the root is the first 32 bytes
            let at = v.as_advanced_builder().extension(ext_of_len(&v, 96)).build();
            let over = v.as_advanced_builder().extension(ext_of_len(&v, 97)).build();
            c.builder.blocks.insert(at.hash(), at.clone());
            c.bad.insert(over.hash());
            c.describe_all(&parent, &[&over, &at]);
            c.submit(&over, now, Intent::Invalid, "ext-97");
            c.submit(&at, now, Intent::Valid, "ext-96");
            at
        }
        5 | 6 if v.uncles().hashes().is_empty() && v.number() >= 5 => {
            // valid side of the uncle-descent number rule: an uncle on a main-chain parent, an uncle
            // descending from it inside the same list, or one descending from an embedded uncle —
            // all with number = parent.number + 1
            let h = v.number();
            let main = c.builder.path_to(&parent);
            let k = c.rng.range(1, h - 4);
            let salt = c.next_salt();
            let u1 = craft_uncle(&v, &main[(k - 1) as usize], k, salt);
            let emb: Vec<(Byte32, u64)> = c.included_list.iter().filter(|(_, n)| n + 1 < h).cloned().collect();
            let u2 = if kind == 6 && !emb.is_empty() {
                let (pu, nu) = c.rng.pick(&emb).clone();
                c.out.count("valid:uncle-on-embedded-uncle-number+1");
                craft_uncle(&v, &pu, nu + 1, salt + 1)
            } else {
                c.out.count("valid:uncle-on-listed-uncle-number+1");
                craft_uncle(&v, &u1.hash(), k + 1, salt + 1)
            };
            c.rules_hit.insert("uncle-descent-number:Valid".into());
            let at = v.as_advanced_builder().set_uncles(vec![u1, u2]).build();
            c.builder.blocks.insert(at.hash(), at.clone());
            c.describe_all(&parent, &[&at]);
            c.submit(&at, now, Intent::Valid, "uncle-descent-valid");
            at
        }
        7 => {
            // cellbase witness lock hash type: every enabled value (accept) / a value ScriptHashType
            // knows but that is not enabled, or an unknown one (reject). The accepted witness lock is
            // the reward target lock `finalization_delay_length` blocks later: the cellbase output-lock
            // rule then meets the same enabled hash type on the valid side.
            let good = *c.rng.pick(&[0u8, 1, 2, 4]);
            let bad = *c.rng.pick(&[3u8, 6]);
            let salt = c.next_salt();
            let at = cellbase_witness_hash_type(&v, good, salt);
            let over = cellbase_witness_hash_type(&v, bad, salt);
            c.builder.blocks.insert(at.hash(), at.clone());
            c.bad.insert(over.hash());
            c.describe_all(&parent, &[&over, &at]);
            c.submit(&over, now, Intent::Invalid, if bad == 6 { "cb-witness-hash-type-6" } else { "cb-witness-hash-type-3" });
            c.submit(&at, now, Intent::Valid, "cb-witness-hash-type-enabled");
            c.out.count(&format!("valid:cellbase-witness-hash-type={}", good));
            at
        }
        20 | 21 | 22 | 23 => {
            // ---- before the activation epoch (parent's epoch < rfc0044 epoch): no extension is the plain
            // form, an extension of 1..=96 bytes of any content is accepted, the chain root is not
            // looked at — and the header's extra_hash commits to uncles + extension all the same
            let junk = |len: usize, seed: u64| -> Option<packed::Bytes> {
                Some(Bytes::from((0..len).map(|i| (seed as u8).wrapping_mul(31).wrapping_add(i as u8)).collect::<Vec<u8>>()).pack())
            };
            let salt = c.next_salt();
            let (at, name): (BlockView, &'static str) = match kind {
                20 => (v.as_advanced_builder().extension(None).build(), "pre:no-extension"),
                21 => (v.as_advanced_builder().extension(junk(1 + (salt % 31) as usize, salt)).build(), "pre:ext-1..31-bytes"),
                22 => (v.as_advanced_builder().extension(junk(32, salt)).build(), "pre:ext-32-bytes-not-the-root"),
                _ => (v.clone(), "pre:as-built"),
            };
            let mut bads: Vec<(BlockView, &'static str)> = vec![];
            bads.push((edit_raw(&at, |r| r.extra_hash(h256!("0x5a").pack())), "pre:extra-hash"));
            if at.extension().is_some() {
                // the header commits to the uncles only (another timestamp: with the same one it would
                // be the header of the extension-less block — two bodies under one hash)
                let uh = at.calc_uncles_hash();
                let other = at.as_advanced_builder().timestamp(at.timestamp() + 2).build();
                bads.push((edit_raw(&other, |r| r.extra_hash(uh)), "pre:extra-hash-omits-extension"));
            }
            {
                // another block (timestamp + 1) whose body carries one more uncle than its header commits to
                let cand = valid_uncles(c, child_epoch(ph), v.number(), 2).into_iter().find(|u| !at.uncles().hashes().into_iter().any(|h| h == u.hash()));
                if let Some(u) = cand {
                    if at.uncles().hashes().len() < c.consensus.max_uncles_num() {
                        let committed = at.extra_hash();
                        let mut us: Vec<UncleBlockView> = at.uncles().into_iter().collect();
                        us.push(u.as_uncle());
                        let more = at.as_advanced_builder().timestamp(at.timestamp() + 1).set_uncles(us).build();
                        bads.push((edit_raw(&more, |r| r.extra_hash(committed)), "pre:extra-hash-omits-uncle"));
                    }
                }
            }
            match kind {
                21 => bads.push((v.as_advanced_builder().extension(Some(Bytes::new().pack())).build(), "pre:ext-empty")),
                22 => bads.push((v.as_advanced_builder().extension(junk(97, salt)).build(), "pre:ext-97")),
                _ => {}
            }
            c.builder.blocks.insert(at.hash(), at.clone());
            // never a second body under a hash that is already in play
            bads.retain(|b| b.0.hash() != at.hash() && b.0.hash() != v.hash() && !c.described.contains(&b.0.hash()));
            {
                let mut all: Vec<&BlockView> = bads.iter().map(|b| &b.0).collect();
                all.push(&at);
                c.describe_all(&parent, &all);
            }
            for (b, rule) in &bads {
                c.bad.insert(b.hash());
                c.submit(b, now + 3, Intent::Invalid, rule);
            }
            c.submit(&at, now + 3, Intent::Valid, name);
            if child_epoch(ph) >= c.act_epoch {
                c.out.count("valid:crossing-block(parent-epoch-below-activation,own-epoch-at)");
                c.rules_hit.insert("activation-crossing:Valid".into());
            }
            at
        }
        25 => {
            // ---- the first epoch in which rfc0044 is active (parent's epoch = activation epoch): what
            // was accepted one epoch earlier is refused now
            let mut bads: Vec<(BlockView, &'static str)> = vec![
                (v.as_advanced_builder().extension(None).build(), "act:no-extension"),
                (v.as_advanced_builder().extension(ext_of_len(&v, 31)).build(), "act:ext-31"),
                (edit_raw(&v, |r| r.extra_hash(h256!("0x5b").pack())), "act:extra-hash"),
            ];
            if let Some(e) = v.extension() {
                let mut bytes = e.raw_data().to_vec();
                let i = c.rng.below(32) as usize;
                bytes[i] ^= 1 << c.rng.below(8);
                bads.push((v.as_advanced_builder().extension(Some(Bytes::from(bytes).pack())).build(), "act:ext-root-bit"));
            }
            bads.retain(|b| b.0.hash() != v.hash() && !c.described.contains(&b.0.hash()));
            {
                let all: Vec<&BlockView> = bads.iter().map(|b| &b.0).collect();
                c.describe_all(&parent, &all);
            }
            for (b, rule) in &bads {
                c.bad.insert(b.hash());
                c.submit(b, now, Intent::Invalid, rule);
            }
            c.submit(&v, now, Intent::Valid, "act:chain-root-extension");
            c.rules_hit.insert("activation-first-epoch:Valid".into());
            v
        }
        4 => {
            // the same block with a sixth molecule table field after the extension: not covered by
            // any hash and dropped by the store round trip, so it is the same valid block
            match with_extra_field(&v, &[1, 2, 3]) {
                Some(six) => {
                    assert_eq!(six.hash(), v.hash());
                    c.out.count("valid:two-extra-fields-dropped-by-store");
                    c.submit(&six, now, Intent::Valid, "two-extra-fields");
                    let stored = c.node.store().get_block(&v.hash()).map(|b| b.data().count_extra_fields());
                    if stored != Some(1) {
                        c.out.oracle_fail("extra-field-stored", &format!("stored block has {:?} extra fields", stored));
                    }
                }
                None => c.submit(&v, now, Intent::Valid, "plain"),
            }
            v
        }
        _ => {
            c.submit(&v, now, Intent::Valid, "plain");
            v
        }
    }
}

/// one single-rule violation derived from the valid block `v` (same parent)
fn make_mutant(
    c: &mut Case,
    v: &BlockView,
    ph: &BlockView,
    too_early: &[(TransactionView, u64)],
    expired: &[(TransactionView, u64)],
    sib: Option<&BlockView>,
) -> Option<(BlockView, &'static str)> {
    let (_, _, lock) = always_success_cell();
    let h = v.number();
    let ep = v.epoch();
    let max_props = c.consensus.max_block_proposals_limit() as usize;
    let salt = c.next_salt();
    let junk_prop = |i: u64| {
        let mut b = [0u8; 10];
        b[..8].copy_from_slice(&(salt * 10_000 + i).to_le_bytes());
        b[9] = 0xee;
        ProposalShortId::new(b)
    };
    let kind = c.rng.below(64);
    let r: (BlockView, &'static str) = match kind {
        // ---- header stage
        0 => (v.as_advanced_builder().number(h + 1).build(), "number+1"),
        1 => (v.as_advanced_builder().number(h - 1).build(), "number-1"),
        2 => (edit_raw(v, |r| r.epoch(Into::<packed::Uint64>::into(EpochNumberWithFraction::new_unchecked(ep.number(), ep.length(), ep.length()).full_value()))), "epoch-index=length"),
        3 => (edit_raw(v, |r| r.epoch(Into::<packed::Uint64>::into(EpochNumberWithFraction::new_unchecked(ep.number(), 0, 0).full_value()))), "epoch-length-0"),
        4 => (v.as_advanced_builder().epoch(EpochNumberWithFraction::new_unchecked(ep.number(), (ep.index() + 1) % ep.length().max(1), ep.length())).build(), "epoch-index+1"),
        5 => (edit_raw(v, |r| r.epoch(Into::<packed::Uint64>::into(EpochNumberWithFraction::new_unchecked(ep.number() + 1, ep.index(), ep.length()).full_value()))), "epoch-number+1"),
        6 => (edit_raw(v, |r| r.epoch(Into::<packed::Uint64>::into(EpochNumberWithFraction::new_unchecked(ep.number(), ep.index(), ep.length() + 1).full_value()))), "epoch-length+1"),
        // ---- non-contextual
        7 => {
            let mut props: Vec<ProposalShortId> = v.data().proposals().into_iter().collect();
            let mut i = 0;
            while props.len() <= max_props {
                props.push(junk_prop(i));
                i += 1;
            }
            if max_props > 100 && !c.rng.chance(1, 4) {
                return None;
            }
            (v.as_advanced_builder().set_proposals(props).build(), "proposals-limit+1")
        }
        8 => (with_txs(v, { let mut t = v.transactions(); t.push(t[0].clone()); t }), "two-cellbases"),
        9 => (with_txs(v, v.transactions().into_iter().skip(1).collect()), "no-cellbase"),
        10 => {
            let tx = scratch_tx(c)?;
            (with_txs(v, { let mut t = vec![tx]; t.extend(v.transactions()); t }), "cellbase-not-first")
        }
        11 => (with_cellbase(v, |cb| cb.output(CellOutput::new_builder().capacity(capacity_bytes!(100)).lock(lock.clone()).build()).output_data(Bytes::new())), "cellbase-extra-output"),
        12 => (with_cellbase(v, |cb| cb.output_data(Bytes::new())), "cellbase-extra-data"),
        13 if h > c.consensus.finalization_delay_length() => (with_cellbase(v, |cb| cb.set_outputs_data(vec![Bytes::from(vec![1u8]).pack()])), "cellbase-data-nonempty"),
        14 => (with_cellbase(v, |cb| cb.set_witnesses(vec![Bytes::from(vec![1u8, 2, 3]).pack()])), "cellbase-witness-garbage"),
        15 => (with_cellbase(v, |cb| cb.set_witnesses(vec![])), "cellbase-witness-missing"),
        16 if h > c.consensus.finalization_delay_length() => (
            with_cellbase(v, |cb| {
                let o = v.transactions()[0].outputs().get(0).unwrap().as_builder().type_(Some(lock.clone()).pack()).build();
                cb.set_outputs(vec![o])
            }),
            "cellbase-type-script",
        ),
        17 if h > c.consensus.finalization_delay_length() => (
            with_cellbase(v, |cb| {
                let bad_lock = lock.clone().as_builder().hash_type(packed::Byte::new(0x7f)).build();
                let o = v.transactions()[0].outputs().get(0).unwrap().as_builder().lock(bad_lock).build();
                cb.set_outputs(vec![o])
            }),
            "cellbase-lock-hash-type",
        ),
        18 => (with_cellbase(v, |cb| cb.set_inputs(vec![CellInput::new_cellbase_input(h + 1)])), "cellbase-since+1"),
        19 => {
            let tx = scratch_tx(c)?;
            (with_txs(v, { let mut t = v.transactions(); t.push(tx.clone()); t.push(tx); t }), "duplicate-tx")
        }
        20 => {
            let p = junk_prop(1);
            if max_props < 2 { return None; }
            (v.as_advanced_builder().set_proposals(vec![p.clone(), p]).build(), "duplicate-proposal")
        }
        21 => (edit_raw(v, |r| r.transactions_root(Byte32::zero())), "tx-root"),
        22 => (edit_raw(v, |r| r.proposals_hash(h256!("0x1").pack())), "proposals-hash"),
        23 => {
            // a transaction without outputs (TransactionError::Empty)
            let tx = TransactionBuilder::default().input(CellInput::new(OutPoint::new(h256!("0x77").pack(), salt as u32), 0)).build();
            (with_txs(v, { let mut t = v.transactions(); t.push(tx); t }), "tx-empty-outputs")
        }
        // ---- contextual
        24 => {
            // spends a cell that does not exist
            let tx = spend_tx(&[(OutPoint::new(h256!("0x99").pack(), salt as u32), 10_000_000_000)], 1, 1000, salt);
            (with_txs(v, { let mut t = v.transactions(); t.push(tx); t }), "unknown-cell")
        }
        25 => (v.as_advanced_builder().compact_target(v.compact_target() - 1).build(), "target-1"),
        26 => (v.as_advanced_builder().compact_target(v.compact_target() + 1).build(), "target+1"),
        27 => {
            // max_uncles + 1 uncles (fresh siblings of the parent's ancestors are not needed: any headers do)
            let max = c.consensus.max_uncles_num();
            let mut us: Vec<UncleBlockView> = v.uncles().into_iter().collect();
            let mut i = 0u64;
            while us.len() <= max {
                let u = v.as_advanced_builder().timestamp(v.timestamp() + 100 + i).number(h - 1).set_uncles(vec![]).build();
                us.push(u.as_uncle());
                i += 1;
            }
            (v.as_advanced_builder().set_uncles(us).build(), "uncles-max+1")
        }
        28..=35 => {
            // uncle rules: take a valid uncle (a sibling of the parent, or of this block) and break one thing
            if h < 2 {
                return None;
            }
            let gp = ph.parent_hash();
            let s = c.next_salt();
            let _ = gp;
            let good = sibling_of(ph, 1 + s % 5, vec![]);
            c.builder.blocks.insert(good.hash(), good.clone());
            if !c.pool.iter().any(|p| p.hash() == good.hash()) {
                c.pool.push(good.clone());
            }
            let same_epoch = good.epoch().number() == ep.number();
            let u = good.as_uncle();
            let base_uncles: Vec<UncleBlockView> = vec![];
            let mk = |us: Vec<UncleBlockView>| v.as_advanced_builder().set_uncles(us).build();
            match kind {
                28 => {
                    if !same_epoch { (mk(vec![u]), "uncle-other-epoch") } else {
                        return None;
                    }
                }
                29 if same_epoch => (mk(vec![edit_uncle_raw(&u, |r| r.compact_target(Into::<packed::Uint32>::into(v.compact_target() - 1)))]), "uncle-target"),
                30 => {
                    // number ≥ block number: this block's own sibling
                    let sb = sib?;
                    (mk(vec![sb.as_uncle()]), "uncle-number=block")
                }
                31 if same_epoch => {
                    // parent unknown to the chain
                    (mk(vec![edit_uncle_raw(&u, |r| r.parent_hash(h256!("0x55").pack()))]), "uncle-parent-unknown")
                }
                32 if same_epoch => (mk(vec![u.clone(), u]), "uncle-twice"),
                33 => {
                    // a main-chain block as uncle (double inclusion), or an uncle already included by an ancestor
                    let gpb = c.builder.block(&gp).clone();
                    if gpb.number() == 0 || gpb.epoch().number() != ep.number() {
                        return None;
                    }
                    let _ = base_uncles;
                    (mk(vec![gpb.as_uncle()]), "uncle-on-main-chain")
                }
                34 if same_epoch => {
                    let mut props = vec![];
                    for i in 0..=(max_props as u64) {
                        props.push(junk_prop(100 + i));
                    }
                    if max_props > 100 { return None; }
                    let ub = good.as_advanced_builder().set_proposals(props).build();
                    (mk(vec![ub.as_uncle()]), "uncle-proposals-limit+1")
                }
                35 if same_epoch => {
                    if c.rng.chance(1, 2) {
                        (mk(vec![edit_uncle_raw(&u, |r| r.proposals_hash(h256!("0x2").pack()))]), "uncle-proposals-hash")
                    } else {
                        let p = junk_prop(7);
                        let ub = good.as_advanced_builder().set_proposals(vec![p.clone(), p]).build();
                        (mk(vec![ub.as_uncle()]), "uncle-duplicate-proposal")
                    }
                }
                _ => return None,
            }
        }
        36 => {
            // commit one block too early (distance w_close − 1) or one too late (w_far + 1), or never proposed
            let pick = c.rng.below(3);
            let tx = match pick {
                0 => too_early.iter().find(|(_, hp)| h - hp + 1 == c.consensus.tx_proposal_window().closest()).map(|x| x.0.clone()),
                1 => expired.iter().find(|(_, hp)| *hp != u64::MAX && h - hp == c.consensus.tx_proposal_window().farthest() + 1).map(|x| x.0.clone()),
                _ => scratch_tx(c),
            }?;
            let name = match pick { 0 => "commit-w_close-1", 1 => "commit-w_far+1", _ => "commit-unproposed" };
            (with_txs(v, { let mut t = v.transactions(); t.push(tx); t }), name)
        }
        37 => (edit_dao(v), "dao-bit"),
        38 if h > c.consensus.finalization_delay_length() => {
            let d: i64 = if c.rng.chance(1, 2) { 1 } else { -1 };
            (
                with_cellbase(v, |cb| {
                    let o = v.transactions()[0].outputs().get(0).unwrap();
                    let cap: u64 = o.capacity().unpack();
                    cb.set_outputs(vec![o.as_builder().capacity(Capacity::shannons((cap as i64 + d) as u64)).build()])
                }),
                if d > 0 { "reward+1" } else { "reward-1" },
            )
        }
        39 if h > c.consensus.finalization_delay_length() => (
            fix_dao(c, with_cellbase(v, |cb| {
                let o = v.transactions()[0].outputs().get(0).unwrap();
                let other = lock.clone().as_builder().args(Bytes::from(vec![9u8]).pack()).build();
                cb.set_outputs(vec![o.as_builder().lock(other).build()])
            }))?,
            "reward-lock",
        ),
        40 | 13 | 16 | 17 | 38 | 39 if h <= c.consensus.finalization_delay_length() => (
            fix_dao(c, with_cellbase(v, |cb| cb.output(CellOutput::new_builder().capacity(capacity_bytes!(100)).lock(lock.clone()).build()).output_data(Bytes::new())))?,
            "reward-before-finalization",
        ),
        41 => {
            let k = c.rng.below(4);
            // before the activation epoch a missing / short extension or another root is no violation
            let active = ph.epoch().number() >= c.act_epoch;
            match k {
                0 if active => (v.as_advanced_builder().extension(None).build(), "ext-none"),
                1 => (v.as_advanced_builder().extension(Some(Bytes::new().pack())).build(), "ext-empty"),
                2 if active => (v.as_advanced_builder().extension(ext_of_len(v, 31)).build(), "ext-31"),
                0 | 2 => (v.as_advanced_builder().extension(ext_of_len(v, 97)).build(), "ext-97"),
                _ if !active => return None,
                _ => {
                    let mut bytes = v.extension()?.raw_data().to_vec();
                    let i = c.rng.below(32) as usize;
                    bytes[i] ^= 1 << c.rng.below(8);
                    (v.as_advanced_builder().extension(Some(Bytes::from(bytes).pack())).build(), "ext-root-bit")
                }
            }
        }
        42 => (edit_raw(v, |r| r.extra_hash(h256!("0x3").pack())), "extra-hash"),
        43..=49 => {
            // uncle descent with a broken number continuity (uncle headers never pass HeaderVerifier:
            // `descendant` / the `included` map are the only places `parent.number + 1 == number` is
            // checked). The uncle is inside the epoch and below the block's number.
            let main = c.builder.path_to(&ph.hash());
            let mk = |us: Vec<UncleBlockView>| v.as_advanced_builder().set_uncles(us).build();
            match kind {
                43 | 44 | 49 => {
                    // parent = a main-chain block
                    if h < 4 {
                        return None;
                    }
                    let k = c.rng.range(1, h - 3); // parent height k-1 .. ; honest number would be k
                    let parent = main[(k - 1) as usize].clone();
                    let wrong = if c.rng.chance(1, 2) { k + 1 } else if k >= 2 { k - 1 } else { k + 1 };
                    let u = craft_uncle(v, &parent, wrong, salt);
                    (mk(vec![u]), if wrong > k { "uncle-main-parent-number+1" } else { "uncle-main-parent-number-1" })
                }
                45 | 46 => {
                    // parent = an uncle embedded in an ancestor (store.get_uncle_header)
                    let cands: Vec<(Byte32, u64)> = c.included_list.iter().filter(|(_, n)| *n >= 1).cloned().collect();
                    if cands.is_empty() {
                        return None;
                    }
                    let (ph_u, n_u) = c.rng.pick(&cands).clone();
                    let wrong = if n_u + 2 < h && c.rng.chance(1, 2) { n_u + 2 } else { n_u };
                    if wrong == 0 || wrong >= h {
                        return None;
                    }
                    let u = craft_uncle(v, &ph_u, wrong, salt);
                    (mk(vec![u]), if wrong > n_u { "uncle-embedded-parent-number+1" } else { "uncle-embedded-parent-number-1" })
                }
                _ => {
                    // parent = an earlier uncle of the same list
                    if h < 5 {
                        return None;
                    }
                    let k = c.rng.range(1, h - 4);
                    let u1 = craft_uncle(v, &main[(k - 1) as usize], k, salt);
                    let wrong = if c.rng.chance(1, 2) { k + 2 } else { k };
                    let u2 = craft_uncle(v, &u1.hash(), wrong, salt + 1);
                    (mk(vec![u1, u2]), if wrong > k { "uncle-list-parent-number+1" } else { "uncle-list-parent-number-1" })
                }
            }
        }
        // ---- round 5: the structure the cellbase rules read (`is_cellbase` = one input, the null
        // out-point, exactly one witness; hash-type bytes known to ScriptHashType vs enabled)
        50 => (
            with_cellbase(v, |cb| cb.input(CellInput::new(OutPoint::new(h256!("0x77").pack(), salt as u32), 0))),
            "cellbase-two-inputs",
        ),
        51 => (with_cellbase(v, |cb| cb.witness(Bytes::new().pack())), "cellbase-two-witnesses"),
        52 => {
            // an out-point that is almost the null one: zero hash with index 0 / u32::MAX - 1, or index u32::MAX with a non-zero hash
            let op = match c.rng.below(3) {
                0 => OutPoint::new(Byte32::zero(), 0),
                1 => OutPoint::new(Byte32::zero(), u32::MAX - 1),
                _ => OutPoint::new(h256!("0x1").pack(), u32::MAX),
            };
            (with_cellbase(v, |cb| cb.set_inputs(vec![CellInput::new(op, h)])), "cellbase-input-almost-null")
        }
        53 => {
            // a second transaction with the cellbase shape (its `since` does not matter)
            let since = if c.rng.chance(1, 2) { h } else { 0 };
            let tx = TransactionBuilder::default()
                .input(CellInput::new(OutPoint::null(), since))
                .output(CellOutput::new_builder().capacity(capacity_bytes!(100)).lock(lock.clone()).build())
                .output_data(Bytes::new())
                .witness(Bytes::from(salt.to_le_bytes().to_vec()).pack())
                .build();
            (with_txs(v, { let mut t = v.transactions(); t.push(tx); t }), "second-tx-cellbase-shaped")
        }
        54 | 58 => {
            // witness lock hash type: 3/5/255 unknown to ScriptHashType, 6/8/254 known (DataN) but not enabled
            let ht = *c.rng.pick(&[3u8, 5, 6, 8, 0x7f, 254, 255]);
            (cellbase_witness_hash_type(v, ht, salt), if ht % 2 == 0 { "cellbase-witness-hash-type-known-not-enabled" } else { "cellbase-witness-hash-type-unknown" })
        }
        55 => {
            if h > c.consensus.finalization_delay_length() && c.rng.chance(1, 2) {
                (with_cellbase(v, |cb| cb.set_outputs_data(vec![])), "cellbase-output-without-data")
            } else {
                (with_cellbase(v, |cb| cb.set_outputs(vec![]).set_outputs_data(vec![Bytes::new().pack()])), "cellbase-data-without-output")
            }
        }
        56 => (with_cellbase(v, |cb| cb.set_inputs(vec![CellInput::new_cellbase_input(h - 1)])), "cellbase-since-1"),
        57 | 59 if h > c.consensus.finalization_delay_length() => {
            let ht = *c.rng.pick(&[3u8, 6, 8, 254, 255]);
            (
                with_cellbase(v, |cb| {
                    let o = v.transactions()[0].outputs().get(0).unwrap();
                    let bad_lock = o.lock().as_builder().hash_type(packed::Byte::new(ht)).build();
                    cb.set_outputs(vec![o.as_builder().lock(bad_lock).build()])
                }),
                if ht % 2 == 0 { "cellbase-lock-hash-type-known-not-enabled" } else { "cellbase-lock-hash-type-unknown" },
            )
        }
        // ---- round 6
        60 | 61 if h > c.consensus.finalization_delay_length() => (
            // the finalized reward is withheld: a cellbase without output (and without data), DAO field
            // recomputed for it — the shape that is REQUIRED up to the finalization delay
            fix_dao(c, with_cellbase(v, |cb| cb.set_outputs(vec![]).set_outputs_data(vec![])))?,
            "reward-withheld(no-output)",
        ),
        62 => {
            // the header commits to the uncles only, not to the extension
            v.extension()?;
            let uh = v.calc_uncles_hash();
            // another timestamp: with the same one this is the header of `v` without extension
            let other = v.as_advanced_builder().timestamp(v.timestamp() + 2).build();
            (edit_raw(&other, |r| r.extra_hash(uh)), "extra-hash-omits-extension")
        }
        63 => {
            // an uncle of the block's own height (a sibling: child of the same parent), crafted — no
            // stored sibling needed
            let u = craft_uncle(v, &ph.hash(), h, salt);
            (v.as_advanced_builder().set_uncles(vec![u]).build(), "uncle-number=block(crafted-sibling)")
        }
        _ => return None,
    };
    if r.0.hash() == v.hash() {
        return None;
    }
    Some(r)
}

/// recompute the DAO field of a block built on the reference store's tip (so that a changed cellbase
/// reaches the reward rules with a consistent DAO field)
fn fix_dao(c: &Case, blk: BlockView) -> Option<BlockView> {
    let db = &c.refstore.db;
    if c.refstore.tip != blk.parent_hash() {
        return None;
    }
    let parent_header = db.get_block_header(&blk.parent_hash())?;
    let txn = db.begin_transaction();
    let mut seen = HashSet::new();
    let hc = MainChainHeaders { db };
    let bcp = BlockCellProvider::new(&blk).ok()?;
    let cp = OverlayCellProvider::new(&bcp, &txn);
    let rtxs: Option<Vec<Arc<ResolvedTransaction>>> = blk.transactions().iter().map(|tx| resolve_transaction(tx.clone(), &mut seen, &cp, &hc).map(Arc::new).ok()).collect();
    let rtxs = rtxs?;
    let loader = db.borrow_as_data_loader();
    let dao = DaoCalculator::new(&c.consensus, &loader).dao_field(rtxs.iter().map(AsRef::as_ref), &parent_header).ok()?;
    Some(blk.as_advanced_builder().dao(dao).build())
}

/// append one more field to the block's molecule table (BlockV1 has 5: header, uncles,
/// transactions, proposals, extension)
fn with_extra_field(v: &BlockView, extra: &[u8]) -> Option<BlockView> {
    v.extension()?;
    let data = v.data();
    let sl = data.as_slice();
    let rd = |o: usize| u32::from_le_bytes([sl[o], sl[o + 1], sl[o + 2], sl[o + 3]]) as usize;
    let total = rd(0);
    let first = rd(4);
    let n = first / 4 - 1;
    if n != 5 || total != sl.len() {
        return None;
    }
    let mut offs: Vec<usize> = (0..n).map(|i| rd(4 + 4 * i)).collect();
    offs.push(total);
    let mut fields: Vec<Vec<u8>> = (0..n).map(|i| sl[offs[i]..offs[i + 1]].to_vec()).collect();
    let mut f6 = (extra.len() as u32).to_le_bytes().to_vec();
    f6.extend_from_slice(extra);
    fields.push(f6);
    let header_len = 4 + 4 * fields.len();
    let new_total = header_len + fields.iter().map(|f| f.len()).sum::<usize>();
    let mut out = (new_total as u32).to_le_bytes().to_vec();
    let mut off = header_len;
    for f in &fields {
        out.extend_from_slice(&(off as u32).to_le_bytes());
        off += f.len();
    }
    for f in &fields {
        out.extend_from_slice(f);
    }
    let blk = packed::Block::new_unchecked(Bytes::from(out));
    Some(blk.into_view_without_reset_header())
}

/// an uncle made from `v`'s header (same epoch, same target) with a chosen parent and number
fn craft_uncle(v: &BlockView, parent: &Byte32, number: u64, salt: u64) -> UncleBlockView {
    v.as_advanced_builder()
        .parent_hash(parent.clone())
        .number(number)
        .timestamp(v.timestamp() + 1000 + salt)
        .set_uncles(vec![])
        .set_proposals(vec![])
        .build()
        .as_uncle()
}

fn edit_dao(v: &BlockView) -> BlockView {
    let mut raw = v.header().dao().raw_data().to_vec();
    raw[31] ^= 1;
    v.as_advanced_builder().dao(Byte32::from_slice(&raw).unwrap()).build()
}

/// A → B → A: the main chain A is replaced by a heavier valid branch B forking `d` blocks below the
/// tip (B's blocks take over the chain-root MMR positions and the index of A's upper blocks), then
/// two valid blocks on the old tip make A the heaviest again: the re-attachment of A's already
/// verified blocks plus the two new ones must succeed (every block valid and heaviest ⇒ attached).
fn switch_back(c: &mut Case) {
    let main = c.builder.path_to(&c.tip);
    let tip_n = main.len() as u64 - 1;
    let d = c.rng.range(1, 3.min(tip_n - 1));
    let a_tip = c.tip.clone();
    let fork = main[(tip_n - d) as usize].clone();
    // branch B: d + 1 empty valid blocks
    let mut prev = fork;
    for i in 0..=d {
        let s = c.next_salt();
        c.max_ts += 1;
        let b = c.builder.build(&prev, &BlockSpec { salt: s, timestamp: Some(c.max_ts), ..Default::default() });
        c.inplace.insert(b.hash());
        let now = c.max_ts;
        if i < d {
            c.submit(&b, now, Intent::Side, "switch:B");
        } else {
            c.submit(&b, now, Intent::Valid, "switch:B-heaviest");
        }
        prev = b.hash();
    }
    c.out.count(&format!("switch-back:depth={}", d));
    // back to A: two empty valid blocks on the old tip
    let mut prev = a_tip;
    for i in 0..2 {
        let s = c.next_salt();
        c.max_ts += 1;
        let a = c.builder.build(&prev, &BlockSpec { salt: s, timestamp: Some(c.max_ts), ..Default::default() });
        let now = c.max_ts;
        c.describe_all(&prev, &[&a]);
        if i == 0 {
            c.submit(&a, now, Intent::Side, "switch:A-equal");
        } else {
            c.submit(&a, now, Intent::Valid, "switch:A-heaviest-again");
        }
        c.refstore.attach(&c.consensus, &a);
        prev = a.hash();
    }
    c.tip = prev;
    c.rules_hit.insert("switch-back:Valid".into());
}

// ------------------------------------------------------------------------------------------------
// context-dependence across reorgs
// ------------------------------------------------------------------------------------------------

/// Start the lock-step reference node: a new node that receives ONLY the current main chain
/// (genesis ..= tip, in order, through the chain service). Every block of the main chain was
/// attached by the node under test, so the reference node must attach it too.
fn start_fresh(c: &mut Case) {
    end_fresh(c);
    c.fresh_n += 1;
    let dir = c.dir.join(format!("fresh-{}", c.fresh_n));
    let _ = std::fs::remove_dir_all(&dir);
    let ncfg = NodeCfg { with_pool: false, ..Default::default() };
    let f = Node::start(&dir, c.consensus.clone(), &ncfg);
    let path = c.builder.path_to(&c.tip);
    for h in path.iter().skip(1) {
        let b = c.builder.block(h).clone();
        let r = f.process(&b);
        if !(r == Ok(true) && f.tip_hash() == b.hash()) {
            c.out.oracle_fail(
                "main-chain-block-refused-without-history",
                &format!("block {} ({:#x}) is on the main chain of the node under test, but a node that receives only that chain answers {:?}", b.number(), b.hash(), r),
            );
            break;
        }
    }
    c.out.count("fresh-node:started");
    c.fresh = Some(f);
}

fn end_fresh(c: &mut Case) {
    if let Some(f) = c.fresh.take() {
        let dir = f.dir.clone();
        f.stop();
        let _ = std::fs::remove_dir_all(dir);
    }
}

/// the harness's own view of the main chain after a reorg: embedded uncles, uncle candidates,
/// spendable cells, pending proposals
fn resync(c: &mut Case, fork_height: u64) {
    let path = c.builder.path_to(&c.tip);
    let main: HashSet<Byte32> = path.iter().cloned().collect();
    c.included.clear();
    c.included_list.clear();
    let mut committed: HashSet<Byte32> = HashSet::new();
    for h in &path {
        let b = c.builder.block(h).clone();
        for u in b.uncles().into_iter() {
            c.included.insert(u.hash());
            c.included_list.push((u.hash(), u.number()));
        }
        for tx in b.transactions() {
            committed.insert(tx.hash());
        }
    }
    let included = c.included.clone();
    c.pool.retain(|p| !main.contains(&p.hash()) && !included.contains(&p.hash()));
    // outputs of transactions that are not committed on this chain do not exist here
    c.cells.retain(|(op, _)| committed.contains(&op.tx_hash()));
    c.dao_cells.retain(|d| committed.contains(&d.op.tx_hash()));
    // proposals made above the fork point belong to whichever branch made them: forget them
    c.pending.retain(|(_, hp)| *hp == u64::MAX || *hp <= fork_height);
}

/// epoch number of a child of `parent`
fn child_epoch(parent: &BlockView) -> u64 {
    let e = parent.epoch();
    if parent.number() == 0 { e.number() } else if e.index() + 1 == e.length() { e.number() + 1 } else { e.number() }
}

fn with_header_dep(tx: &TransactionView, h: &Byte32) -> TransactionView {
    tx.as_advanced_builder().header_dep(h.clone()).build()
}

fn ids_of(txs: &[&TransactionView]) -> Vec<ProposalShortId> {
    txs.iter().map(|t| t.proposal_short_id()).collect()
}

/// A fork tree on the current tip F, with wc = closest, k = wc + 1:
///
/// ```text
///   F - A1 - A2{U,UA} - .. - Ak[S,X,PA]  ------------------------  A(k+1) - A(k+2) - A(k+3) - VA'
///    \- B1 - B2 - .. - Bk[S,PB] - B(k+1){U?}  - VB                 (side)    (side)  (heaviest)
///    \- U, UA (never submitted as blocks: uncles)
/// ```
///
/// A is the main chain first; B becomes the heaviest with B(k+1) (reorg A -> B); VB and the probes
/// on B's tip are judged in B's context; then A grows again and A(k+3) switches back (B -> A'),
/// re-attaching A1..Ak that were verified long ago; VA' and the probes on A' are judged in A's
/// context. Contexts maintained by attach/detach that differ between the branches:
///
/// * uncle index: U and UA are embedded by A2; U again by B(k+1) or VB (valid only where A2 is not
///   an ancestor); V (child of UA) is a proper uncle only under A; W (child of A1) only where A1 is
///   on the main chain or an embedded uncle; A1 itself is a proper uncle only under B, B1 only under A
/// * proposals: PA is proposed by A blocks only, PB by B blocks only, PU only inside U (so it is
///   proposed where and when U is embedded)
/// * cells: S and X spend genesis-era cells; A commits both, B commits S early and X only in VB
///   (valid where A's commit is not an ancestor); Y spends PA's output (exists only under A)
/// * header deps: ZA names A1, ZB names B1 (each valid only where that block is on the main chain)
///
/// Oracles: the intents (built valid / built violating in its own context), the model (contexts
/// recomputed from the ancestor chain alone), and the lock-step reference node that never saw the
/// abandoned branch.
fn reorg_scenario(c: &mut Case) {
    if c.derailed {
        return;
    }
    end_fresh(c);
    let (wc, wf) = (c.consensus.tx_proposal_window().closest(), c.consensus.tx_proposal_window().farthest());
    let _ = wf;
    let k = (wc + 1) as usize;
    if c.cells.len() < 8 || c.consensus.max_block_proposals_limit() < 5 {
        c.out.count("reorg:skipped");
        return;
    }
    let f_hash = c.tip.clone();
    let f_n = c.height();
    let take = |c: &mut Case| -> TransactionView { fresh_tx(c).expect("cell") };
    let tx_s = take(c);
    let tx_x = take(c);
    let tx_pa = take(c);
    let tx_pb = take(c);
    let tx_pu = take(c);
    let za0 = take(c);
    let zb0 = take(c);
    // Y spends the first output of PA
    let tx_y = {
        let cap: u64 = tx_pa.outputs().get(0).unwrap().capacity().unpack();
        let salt = c.next_salt();
        spend_tx(&[(OutPoint::new(tx_pa.hash(), 0), cap)], 1, 1000 + salt, salt)
    };
    let ts = |c: &mut Case| -> u64 {
        c.max_ts += 1 + c.rng.below(3);
        c.max_ts
    };
    let max_uncles = c.consensus.max_uncles_num();

    // ---------------------------------------------------------------- branch A (extends the main chain)
    let mut a: Vec<BlockView> = vec![];
    let mut u_blk: Option<BlockView> = None;
    let mut ua_blk: Option<BlockView> = None;
    for i in 1..=k {
        let parent = if i == 1 { f_hash.clone() } else { a[i - 2].hash() };
        let salt = c.next_salt();
        let t = ts(c);
        let mut spec = BlockSpec { salt, timestamp: Some(t), ..Default::default() };
        if i == 1 {
            spec.proposals = ids_of(&[&tx_s, &tx_x, &tx_pa]);
        } else {
            spec.proposals = ids_of(&[&tx_pa]);
        }
        if i == 2 {
            // U and UA: siblings of A1 (children of F), embedded here if they share this block's epoch
            let a1 = &a[0];
            if child_epoch(a1) == a1.epoch().number() && max_uncles >= 2 {
                let u = sibling_of(a1, 1, ids_of(&[&tx_pu]));
                let ua = sibling_of(a1, 2, vec![]);
                c.builder.blocks.insert(u.hash(), u.clone());
                c.builder.blocks.insert(ua.hash(), ua.clone());
                spec.uncles = vec![u.as_uncle(), ua.as_uncle()];
                u_blk = Some(u);
                ua_blk = Some(ua);
                c.out.count("reorg:A2-embeds-U-UA");
            } else {
                c.out.count("reorg:no-uncles(epoch-boundary)");
            }
        }
        if i == k {
            spec.txs = vec![tx_s.clone(), tx_x.clone(), tx_pa.clone()];
        }
        let blk = c.builder.build(&parent, &spec);
        c.submit(&blk, t, Intent::Valid, "reorg:A");
        if c.node.tip_hash() != blk.hash() {
            c.derailed = true;
            return;
        }
        c.refstore.attach(&c.consensus, &blk);
        a.push(blk);
    }
    let a1 = a[0].clone();

    // ---------------------------------------------------------------- branch B (side, then heaviest)
    let mut ref_b = RefStore::new(&c.consensus, &c.dir.join(format!("refstore-b-{}", c.salt)));
    for h in c.builder.path_to(&f_hash).iter().skip(1) {
        let b = c.builder.block(h).clone();
        ref_b.attach(&c.consensus, &b);
    }
    c.extra_ref = Some(ref_b);
    let u_in_trigger = c.rng.chance(1, 2);
    let mut u_on_b = false;
    let mut b: Vec<BlockView> = vec![];
    for i in 1..=(k + 1) {
        let parent = if i == 1 { f_hash.clone() } else { b[i - 2].hash() };
        let salt = c.next_salt();
        let t = ts(c);
        let mut spec = BlockSpec { salt, timestamp: Some(t), ..Default::default() };
        if i == 1 {
            spec.proposals = ids_of(&[&tx_s, &tx_x, &tx_pb]);
        } else {
            // ZA / ZB are completed with their header deps once B1 exists (below): propose the final ids
            spec.proposals = vec![];
        }
        if i == k {
            spec.txs = vec![tx_s.clone(), tx_pb.clone()];
        }
        let pb = if i == 1 { c.builder.block(&f_hash).clone() } else { b[i - 2].clone() };
        if i == k + 1 && u_in_trigger {
            if let Some(u) = &u_blk {
                if child_epoch(&pb) == u.epoch().number() {
                    spec.uncles = vec![u.as_uncle()];
                    u_on_b = true;
                }
            }
        }
        if i >= 2 {
            let za = with_header_dep(&za0, &a1.hash());
            let zb = with_header_dep(&zb0, &b[0].hash());
            spec.proposals = ids_of(&[&tx_x, &tx_y, &za, &zb]);
        }
        let blk = c.builder.build(&parent, &spec);
        let (intent, rule) = if i <= k {
            (Intent::Side, "reorg:B-side")
        } else if u_on_b {
            (Intent::Valid, "reorg:B-heaviest-reembeds-uncle-of-detached")
        } else {
            (Intent::Valid, "reorg:B-heaviest")
        };
        c.submit(&blk, t, intent, rule);
        c.extra_ref.as_mut().unwrap().attach(&c.consensus, &blk);
        b.push(blk);
    }
    let b1 = b[0].clone();
    let tx_za = with_header_dep(&za0, &a1.hash());
    let tx_zb = with_header_dep(&zb0, &b1.hash());
    if c.node.tip_hash() != b[k].hash() {
        // the reorg did not happen (already reported by the Valid intent)
        c.out.count("reorg:A->B-refused");
        c.derailed = true;
        c.dump_index();
        return;
    }
    c.tip = b[k].hash();
    c.out.count("reorg:A->B");
    if a.iter().chain(b.iter()).any(|x| x.epoch().index() == 0) {
        c.out.count("reorg:epoch-boundary-inside-fork");
    }
    start_fresh(c);
    c.dump_index();

    // ---------------------------------------------------------------- probes on B's tip
    {
        let parent = b[k].clone();
        let salt = c.next_salt();
        let t = ts(c);
        // the valid block on B: commits X (A's commit of X is not an ancestor), ZB (B1 is on the main
        // chain), embeds A1 (detached, child of F) and U if nobody on B did
        let mut spec = BlockSpec { salt, timestamp: Some(t), txs: vec![tx_x.clone(), tx_zb.clone()], ..Default::default() };
        let ep = child_epoch(&parent);
        if a1.epoch().number() == ep {
            spec.uncles.push(a1.as_uncle());
        }
        if let Some(u) = &u_blk {
            if !u_on_b && u.epoch().number() == ep && spec.uncles.len() < max_uncles {
                spec.uncles.push(u.as_uncle());
                u_on_b = true;
            }
        }
        let embeds_a1 = spec.uncles.iter().any(|x| x.hash() == a1.hash());
        // built by hand from a plain valid block so that the builder store stays at the parent until
        // the probes are described: the probes are derived from `plain` by surgery
        let plain = c.builder.build(&parent.hash(), &BlockSpec { salt, timestamp: Some(t), ..Default::default() });
        let mut probes: Vec<(BlockView, &'static str)> = vec![];
        let mk_txs = |extra: Vec<TransactionView>| with_txs(&plain, { let mut v = plain.transactions(); v.extend(extra); v });
        probes.push((mk_txs(vec![tx_pa.clone()]), "reorg:B:commit-proposed-on-A-only"));
        probes.push((mk_txs(vec![tx_y.clone()]), "reorg:B:spend-output-created-on-A-only"));
        probes.push((mk_txs(vec![tx_za.clone()]), "reorg:B:header-dep-on-detached-block"));
        if u_blk.is_some() && !u_on_b {
            probes.push((mk_txs(vec![tx_pu.clone()]), "reorg:B:commit-proposed-in-uncle-embedded-on-A-only"));
        }
        if let Some(ua) = &ua_blk {
            if ua.number() + 1 < plain.number() {
                let v = craft_uncle(&plain, &ua.hash(), ua.number() + 1, salt);
                probes.push((plain.as_advanced_builder().set_uncles(vec![v]).build(), "reorg:B:uncle-child-of-uncle-embedded-on-A-only"));
            }
        }
        if a1.number() + 1 < plain.number() {
            let w = craft_uncle(&plain, &a1.hash(), a1.number() + 1, salt + 1);
            probes.push((plain.as_advanced_builder().set_uncles(vec![w]).build(), "reorg:B:uncle-child-of-detached-block"));
        }
        {
            let all: Vec<&BlockView> = probes.iter().map(|p| &p.0).collect();
            c.describe_all(&parent.hash(), &all);
        }
        for (p, rule) in &probes {
            c.bad.insert(p.hash());
            c.submit(p, t, Intent::Invalid, rule);
        }
        if c.derailed {
            c.dump_index();
            return;
        }
        let salt = c.next_salt();
        spec.salt = salt;
        let vb = c.builder.build(&parent.hash(), &spec);
        c.submit(&vb, t, Intent::Valid, if embeds_a1 { "reorg:B:valid-only-here(X,ZB,uncle=detached-A1)" } else { "reorg:B:valid-only-here(X,ZB)" });
        c.dump_index();
        if c.node.tip_hash() != vb.hash() {
            c.derailed = true;
            return;
        }
        c.extra_ref.as_mut().unwrap().attach(&c.consensus, &vb);
        c.tip = vb.hash();
        b.push(vb);
    }

    // one case in three stays on B
    if c.rng.chance(1, 3) {
        // `refstore` follows the main chain
        let rb = c.extra_ref.take().unwrap();
        let ra = std::mem::replace(&mut c.refstore, rb);
        drop(ra);
        resync(c, f_n);
        c.out.count("reorg:ends-on-B");
        c.rules_hit.insert("reorg:A->B".into());
        return;
    }
    end_fresh(c);

    // ---------------------------------------------------------------- back to A: A(k+1), A(k+2) side, A(k+3) heaviest
    for i in (k + 1)..=(k + 3) {
        let parent = a[i - 2].hash();
        let salt = c.next_salt();
        let t = ts(c);
        let spec = BlockSpec { salt, timestamp: Some(t), proposals: ids_of(&[&tx_y, &tx_za, &tx_zb]), ..Default::default() };
        let blk = c.builder.build(&parent, &spec);
        let (intent, rule) = if i < k + 3 { (Intent::Side, "reorg:A'-side") } else { (Intent::Valid, "reorg:A'-heaviest(re-attaches-verified-blocks)") };
        c.submit(&blk, t, intent, rule);
        c.refstore.attach(&c.consensus, &blk);
        a.push(blk);
    }
    if c.node.tip_hash() != a[k + 2].hash() {
        c.out.count("reorg:B->A'-refused");
        c.derailed = true;
        c.dump_index();
        return;
    }
    c.tip = a[k + 2].hash();
    c.extra_ref = None;
    c.out.count("reorg:A->B->A'");
    start_fresh(c);
    c.dump_index();
    {
        let parent = a[k + 2].clone();
        let salt = c.next_salt();
        let t = ts(c);
        let ep = child_epoch(&parent);
        let plain = c.builder.build(&parent.hash(), &BlockSpec { salt, timestamp: Some(t), ..Default::default() });
        let mk_txs = |extra: Vec<TransactionView>| with_txs(&plain, { let mut v = plain.transactions(); v.extend(extra); v });
        let mut probes: Vec<(BlockView, &'static str)> = vec![];
        probes.push((mk_txs(vec![tx_x.clone()]), "reorg:A':spend-again-what-A-spent(B-spent-it-too)"));
        probes.push((mk_txs(vec![tx_pb.clone()]), "reorg:A':commit-proposed-on-B-only"));
        probes.push((mk_txs(vec![tx_zb.clone()]), "reorg:A':header-dep-on-detached-block"));
        if let Some(u) = &u_blk {
            if u.epoch().number() == ep {
                probes.push((plain.as_advanced_builder().set_uncles(vec![u.as_uncle()]).build(), "reorg:A':uncle-embedded-by-reattached-block"));
            }
        }
        if a1.epoch().number() == ep {
            probes.push((plain.as_advanced_builder().set_uncles(vec![a1.as_uncle()]).build(), "reorg:A':uncle-is-reattached-block"));
        }
        {
            let all: Vec<&BlockView> = probes.iter().map(|p| &p.0).collect();
            c.describe_all(&parent.hash(), &all);
        }
        for (p, rule) in &probes {
            c.bad.insert(p.hash());
            c.submit(p, t, Intent::Invalid, rule);
        }
        if c.derailed {
            c.dump_index();
            return;
        }
        // valid only here: Y (PA's output exists again), ZA (A1 is on the main chain again), V (child
        // of UA, which the re-attached A2 embeds), B1 (detached, child of F)
        let salt = c.next_salt();
        let mut spec = BlockSpec { salt, timestamp: Some(t), txs: vec![tx_y.clone(), tx_za.clone()], ..Default::default() };
        let mut rule = "reorg:A':valid-only-here(Y,ZA)";
        if let Some(ua) = &ua_blk {
            if ua.epoch().number() == ep {
                spec.uncles.push(craft_uncle(&plain, &ua.hash(), ua.number() + 1, salt));
                rule = "reorg:A':valid-only-here(Y,ZA,uncle-child-of-UA)";
            }
        }
        if b1.epoch().number() == ep && spec.uncles.len() < max_uncles {
            spec.uncles.push(b1.as_uncle());
        }
        let va = c.builder.build(&parent.hash(), &spec);
        c.submit(&va, t, Intent::Valid, rule);
        c.dump_index();
        if c.node.tip_hash() != va.hash() {
            c.derailed = true;
            return;
        }
        c.refstore.attach(&c.consensus, &va);
        c.tip = va.hash();
    }
    resync(c, f_n);
    c.rules_hit.insert("reorg:A->B->A'".into());
}

/// a lighter side branch whose first block breaks a contextual rule: stored unverified; the branch
/// then grows until it is the heaviest → the attempt must fail as a whole
fn side_branch(c: &mut Case) {
    let main = c.builder.path_to(&c.tip);
    let tip_n = main.len() as u64 - 1;
    let back = c.rng.range(1, 3.min(tip_n - 1));
    let fork_parent = main[(tip_n - back) as usize].clone();
    let s = c.next_salt();
    let kind = c.rng.below(4);
    let fin = c.consensus.finalization_delay_length();
    let fp_n = tip_n - back;
    // the chain-root rules bind only from the activation epoch on (parent's epoch)
    let fp_active = c.builder.block(&fork_parent).epoch().number() >= c.act_epoch;
    let (tweak, rule) = match kind {
        0 if fp_n + 1 > fin => (Tweak::CellbaseCapacity(1), "side:reward+1"),
        1 => (Tweak::Dao, "side:dao"),
        2 if fp_active => (Tweak::Extension, "side:chain-root"),
        3 if fp_active => (Tweak::NoExtension, "side:no-extension"),
        _ => (Tweak::Dao, "side:dao"),
    };
    let ts = c.max_ts;
    let s1 = c.builder.build(&fork_parent, &BlockSpec { salt: s, tweak, timestamp: Some(ts + 1), ..Default::default() });
    c.bad.insert(s1.hash());
    let now = ts + 10;
    c.submit(&s1, now, Intent::Side, rule);
    let mut prev = s1.hash();
    let mut n = fp_n + 1;
    while n < tip_n {
        let s = c.next_salt();
        let b = c.builder.build(&prev, &BlockSpec { salt: s, timestamp: Some(ts + 1 + n), ..Default::default() });
        c.inplace.insert(b.hash());
        c.bad.insert(b.hash());
        c.submit(&b, now + n, Intent::Side, "side:child");
        prev = b.hash();
        n += 1;
    }
    // now the heaviest: twice, from two different children
    let s = c.next_salt();
    let b1 = c.builder.build(&prev, &BlockSpec { salt: s, timestamp: Some(ts + 2 + n), ..Default::default() });
    c.inplace.insert(b1.hash());
    let b2 = sibling_of(&b1, 1, vec![]);
    c.builder.blocks.insert(b2.hash(), b2.clone());
    // b2 is cellbase-only and its parent chain is inside the store that holds b1
    c.describe_via(&b1.hash(), &[&b1, &b2]);
    for b in [b1, b2] {
        c.bad.insert(b.hash());
        c.submit(&b, now + n + 2, Intent::Doomed, rule);
        // and a child of the refused block
        if c.rng.chance(1, 2) && c.inplace.contains(&b.hash()) {
            let s = c.next_salt();
            let ch = c.builder.build(&b.hash(), &BlockSpec { salt: s, timestamp: Some(ts + 3 + n), ..Default::default() });
            c.inplace.insert(ch.hash());
            c.bad.insert(ch.hash());
            c.submit(&ch, now + n + 3, Intent::Doomed, "side:child-of-refused");
        }
    }
}

/// an attached block delivered again (same hash, same body — what a miner or peer can do): must be
/// answered `Ok(false)` and change nothing. Other bodies under the same header hash can only be
/// produced in-process (`build_unchecked`; every RPC / P2P entry point re-derives the header's
/// roots with `into_view()`), so they are out of the property's quantifier: see `run_scenario`.
fn resubmit(c: &mut Case) {
    let main = c.builder.path_to(&c.tip);
    if main.len() < 3 {
        return;
    }
    let i = if c.rng.chance(1, 3) { main.len() - 1 } else { c.rng.range(1, main.len() as u64 - 1) as usize };
    let b = c.builder.block(&main[i]).clone();
    let now = c.max_ts;
    c.submit(&b, now, Intent::Resubmit, "resubmit-same");
}

/// in-process-only observations (corpus/C03/*.ops: `case <n> scenario=f13|f14|f15|f15b`): a second
/// body under an already stored header hash — counted in the histogram, never an oracle failure
fn run_scenario(out: &mut Out, name: &str, base: &Path) {
    out.begin_case(&format!("scenario={}", name));
    let cc = CaseCfg { epoch_len: 10, window: (2, 10), median: 37, max_props: 1500, max_bytes: 597_000, max_cycles: 3_500_000_000, defaults: true, chain: "ckb_dev", genesis_epoch: 0, dao: false, dao_start: 10_000_000 };
    let consensus = consensus_for(&cc, 2);
    let dir = base.join(format!("scenario-{}", name));
    let _ = std::fs::remove_dir_all(&dir);
    let node = Node::start(&dir.join("node"), consensus.clone(), &NodeCfg::default());
    let mut b = ChainBuilder::new(consensus.clone(), &dir.join("builder"));
    let g = consensus.genesis_hash();
    let b1 = b.build(&g, &BlockSpec { salt: 1, ..Default::default() });
    let u = sibling_of(&b1, 5, vec![]);
    let b2 = b.build(&b1.hash(), &BlockSpec { salt: 2, uncles: vec![u.as_uncle()], ..Default::default() });
    let b3 = b.build(&b2.hash(), &BlockSpec { salt: 3, ..Default::default() });
    for blk in [&b1, &b2, &b3] {
        node.process(blk).expect("valid chain");
    }
    match name {
        "f13" => {
            let variant = b2.as_advanced_builder().set_uncles(vec![]).build_unchecked();
            assert_eq!(variant.hash(), b2.hash());
            let raw = |n: &Node| n.store().get(ckb_db_schema::COLUMN_BLOCK_UNCLE, b2.hash().as_slice()).map(|x| x.as_ref().to_vec());
            let before = raw(&node);
            let r = node.controller().blocking_process_block(Arc::new(variant));
            out.count(&format!("f13:{:?}", r.as_ref().map_err(|e| e.to_string())));
            out.count(&format!("inprocess-only:f13:uncle-row-{}", if raw(&node) != before { "replaced" } else { "unchanged" }));
        }
        "f14" => {
            let variant = b3.as_advanced_builder().set_transactions(vec![]).build_unchecked();
            assert_eq!(variant.hash(), b3.hash());
            let r = node.controller().blocking_process_block(Arc::new(variant));
            let st = node.shared.get_block_status(&b3.hash());
            let b4 = b.build(&b3.hash(), &BlockSpec { salt: 4, ..Default::default() });
            let r4 = node.process(&b4);
            out.count(&format!("f14:child:{}", if r4.is_ok() { "ok" } else { "err" }));
            let _ = r;
            out.count(&format!("inprocess-only:f14:tip-status-{} child-{}", if st == BlockStatus::BLOCK_INVALID { "invalid" } else { "kept" }, if r4.is_ok() { "attached" } else { "refused" }));
        }
        "f15" | "f15b" => {
            // a valid side block (sibling of 2), stored unverified; delivered again under the same
            // header with another body; then its branch grows until it is the heaviest
            let s2 = sibling_of(&b2, 7, vec![]);
            b.blocks.insert(s2.hash(), s2.clone());
            let r0 = node.process(&s2);
            let variant = if name == "f15" {
                s2.as_advanced_builder().extension(ext_of_len(&s2, 40)).build_unchecked()
            } else {
                s2.as_advanced_builder().set_transactions(vec![]).build_unchecked()
            };
            assert_eq!(variant.hash(), s2.hash());
            let r1 = node.controller().blocking_process_block(Arc::new(variant));
            let s3 = b.build(&s2.hash(), &BlockSpec { salt: 13, ..Default::default() });
            let s4 = b.build(&s3.hash(), &BlockSpec { salt: 14, ..Default::default() });
            let r3 = node.process(&s3);
            let r4 = node.process(&s4);
            out.count(&format!("{}:side={:?} variant={} s3={} s4={}", name, r0, if r1.is_ok() { "ok" } else { "err" }, if r3.is_ok() { "ok" } else { "err" }, if r4.is_ok() { "ok" } else { "err" }));
            // Not an oracle failure: every production entry point (RPC submit_block, sync SendBlock,
            // compact-block reconstruction) builds its BlockView with `into_view()`, which re-derives
            // transactions_root / proposals_hash / extra_hash from the body, so two bodies under one
            // header hash can only be handed to the chain service by in-process code. Recorded as an
            // observation of the chain service's behaviour towards such callers.
            let ext_row = node.store().get(ckb_db_schema::COLUMN_BLOCK_EXTENSION, s2.hash().as_slice()).map(|x| x.as_ref().to_vec());
            let orig = s2.extension().map(|e| e.as_slice().to_vec());
            out.count(&format!(
                "inprocess-only:{}:branch-{} stored-extension-row-{}",
                name,
                if node.tip_hash() == s4.hash() { "attached" } else { "refused" },
                if ext_row == orig { "original" } else { "replaced" }
            ));
        }
        other => {
            eprintln!("unknown scenario {}", other);
            std::process::exit(2);
        }
    }
    node.stop();
    drop(b);
    let _ = std::fs::remove_dir_all(&dir);
}

pub fn run(opts: &Opts) {
    let mut out = Out::new(&opts.out);
    let base = scratch_dir(&opts.out, "c03");
    let cyc = measure_cycles(&base);
    if let Some(p) = &opts.replay {
        let ops = read_replay_ops(p);
        let mut seeds = vec![];
        for l in &ops {
            if l.starts_with("case ") {
                if let Some(sc) = l.split_whitespace().find_map(|t| t.strip_prefix("scenario=")) {
                    run_scenario(&mut out, sc, &base);
                    continue;
                }
                if let Some(s) = l.split_whitespace().find_map(|t| t.strip_prefix("seed=")) {
                    let regime = l.split_whitespace().find_map(|t| t.strip_prefix("regime=")).map(|r| r.parse::<u64>().expect("regime")).unwrap_or(0);
                    seeds.push((s.parse::<u64>().expect("seed"), l.split_whitespace().any(|t| t == "reorg=1"), regime));
                }
            }
        }
        if seeds.is_empty() && out.case == 0 {
            eprintln!("replay file has no `case <n> seed=<s>` / `scenario=<name>` line");
            std::process::exit(2);
        }
        for (s, reorg, regime) in seeds {
            run_case(&mut out, s, &base, cyc, 30, reorg, regime);
        }
    } else {
        // in-process-only observations, counted in the histogram (never an oracle failure)
        for sc in ["f13", "f14", "f15", "f15b"] {
            run_scenario(&mut out, sc, &base);
        }
        let cases = if opts.thorough() { 200 * opts.scale } else { 14 * opts.scale };
        // fork trees first (context-dependence across reorgs), then the long single-chain histories
        let reorg_cases = if opts.thorough() { 120 * opts.scale } else { 12 * opts.scale };
        // round 6: activation regimes. Regime 0 = rfc0044 active from epoch 0 (any non-public consensus
        // id), 1 = a public-chain id far below its activation epoch (never active within the case),
        // 2 / 3 = test-net / main-net id with a history that starts one or two epochs below the
        // activation epoch and crosses it. Two fork-tree cases in six and three single-chain cases
        // in seven run in a non-zero regime.
        for i in 0..reorg_cases {
            let regime = match i % 6 { 2 => 2, 5 => 1, _ => 0 };
            run_case(&mut out, opts.seed.wrapping_mul(1_000_003).wrapping_add(500_000 + i), &base, cyc, 30, true, regime);
        }
        for i in 0..cases {
            let regime = match i % 7 { 1 => 4, 3 => 1, 5 => 3, _ => 0 };
            run_case(&mut out, opts.seed.wrapping_mul(1_000_003).wrapping_add(i), &base, cyc, 30, false, regime);
        }
    }
    let _ = std::fs::remove_dir_all(&base);
    out.finish("a fork-tree case = one real node, a random window / median / epoch length, a warm-up history, then twice: branch A (proposals, two uncles, commits) extended on the tip, a longer branch B from the same fork point made the heaviest (reorg), probes on B valid only in A's context (uncle descending from an A-only uncle or from a detached block, commit of ids proposed on A / in an A-only uncle, spend of an A-only output, header dep on a detached block) and one block valid only in B's context (re-embeds the uncle of the detached block, embeds the detached block, spends again what A spent, header dep on B), then A made the heaviest again (re-attaching long-verified blocks) with the mirrored probes, every block after a reorg also given to a lock-step node that only ever received the main chain, store indexes dumped and compared; a single-chain case = one real node + one random consensus configuration (epoch length, proposal window, median count, proposal/size/cycle limits, or all defaults) and a 30-step history; every step builds one valid block on the tip (random proposals, window-edge commits, uncles), 2-4 single-rule violations of it, sometimes the valid/invalid pair of a boundary (timestamp = median / median+1, now+15s / +1ms, size limit, extension 96/97), sometimes a lighter side branch starting with a violating block that is later made the heaviest, sometimes a re-submission of an attached block; non-trivial iff at least 6 distinct (rule, side) pairs were exercised; distinct by configuration");
}
