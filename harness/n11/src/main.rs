//! `vh-c11 C11 --seed N --tier quick|thorough --out DIR [--replay FILE] [--scale K]`
//! Correspondence harness for property C11 in its own crate (work-in-progress on other properties
//! cannot break this build). The code lives in hnode/src/c11.rs; `common.rs` is shared by path.
#![allow(dead_code)]
#[path = "../../hcore/src/common.rs"]
mod common;
#[path = "../../hnode/src/node.rs"]
pub mod node;
#[path = "../../hnode/src/c11.rs"]
mod c11;

fn main() {
    let args: Vec<String> = std::env::args().skip(1).collect();
    if args.is_empty() {
        eprintln!("usage: vh-c11 C11 --seed N --tier T --out DIR");
        std::process::exit(2);
    }
    let opts = common::Opts::parse(&args[1..]);
    c11::run(&opts)
}
