//! C18, stream `rich` — the SQL rich-indexer (`util/rich-indexer`, sqlite backend) against the same contract.
//!
//! Child module of c18.rs (compiled only with the cargo feature `rich`, i.e. in the crate `n18`). Drives the REAL
//! `AsyncRichIndexer::{append, rollback}` and `AsyncRichIndexerHandle::{get_cells, get_transactions,
//! get_cells_capacity, get_indexer_tip}` through the add-only hook `ckb_rich_indexer::verif::VerifRichIndexer` over a
//! sqlite FILE in the tmpfs scratch directory, on the same op language as the key-value stream (see c18.rs; the model
//! side is `Driver/C18.lean` with the argument `rich`, relational model `Model/RichIndexer.lean`). Extra tokens:
//!   `config <keep> <interval> b<n> c<n>` = custom block / cell filter of the case (rhai sources below; b1 = even block
//!   numbers, c1 = lock code 1, c2 = capacity >= 100, c3 = non-empty data; the key-value stream ignores them),
//!   search mode `part` (partial search: `instr(args, x) > 0`), and
//!   rtxs lock|type <script> pre|exact|part asc|desc <limit> u|g <6 filter tokens>   get_transactions with a full filter
//! Answers (rich):
//!   cells ..  -> cells page|page..   item = tx.idx@bn.txi:cap:datalen:lock:type|-      (order: output.id = chain order)
//!   txs/rtxs  -> txs page|page..     ungrouped: at most 40 pages (the cursor can cycle, see below); grouped: cells sorted
//!   cap ..    -> cap <sum> n.h | cap none   (None = no matching row: SUM is NULL)
//!   wf ..     -> wf a=0|1 o=0|1 s=0|1 l=1   (fresh distinct tx ids / inputs only to earlier txs of the block / no double spend;
//!                                          l: the model's `layerCheckB` — hypothesis of the rollback theorem — holds if a, o, s do)
//!   dump      -> dump <n> row..             every row of block, ckb_transaction, output, input, script read straight from
//!                                          the sqlite file (row ids verbatim, script ids replaced by the script)
//! Oracles (independent of the model): the answers must equal the direct filter over the replayed chain (live cells in
//! chain order, tx history per transaction), the tables must equal the tables the replayed chain implies
//! (`rich-rows-neq-chain`), a rollback must restore the dump taken before the matching append
//! (`rich-rollback-not-restored`), and, where both indexers are expected to satisfy the same contract (exact mode;
//! get_transactions without a filter script), the answers of the real RocksDB indexer fed with the same blocks must be
//! the same (`rich-neq-rocksdb`).
//! `rich-prefix-allff-upper-bound` (known finding): only a query whose prefix (searched args in prefix mode, filter script
//! args, output-data prefix) is empty or all 0xff AND whose answer is exactly what the code's byte range
//! `[p, get_binary_upper_boundary(p))` yields is attributed to it; every other difference is a plain failure.
//! `rich-txs-cursor-offset-restart` (repaired by /repo 706cf75): a walk that equals the OLD cursor arithmetic is reported
//! under that class, any other wrong walk as `rich-txs-pagination`; both are plain violations.
use super::*;
use ckb_rich_indexer::verif::VerifRichIndexer;
use ckb_rich_indexer::AsyncRichIndexerHandle;
use sqlx::Row;

const MAX_TX_PAGES: usize = 120;
const BIG: u32 = 1_000_000;

#[derive(Clone, Copy, PartialEq, Eq, Debug)]
enum Mode {
    Pre,
    Exact,
    Part,
}
impl Mode {
    fn parse(s: &str) -> Mode {
        match s {
            "pre" => Mode::Pre,
            "exact" => Mode::Exact,
            "part" => Mode::Part,
            _ => panic!("malformed: search mode {}", s),
        }
    }
    fn json(self) -> IndexerSearchMode {
        match self {
            Mode::Pre => IndexerSearchMode::Prefix,
            Mode::Exact => IndexerSearchMode::Exact,
            Mode::Part => IndexerSearchMode::Partial,
        }
    }
}

// ---------------------------------------------------------------- replay of the chain (oracle state)
#[derive(Clone, Debug)]
struct RRow {
    lock_family: bool,
    script: ScriptSpec,
    bn: u64,
    txi: u32,
    io: u32,
    is_input: bool,
    tx: u64,
    cell: OutSpec,
}
struct RState {
    live: BTreeMap<(u64, u32), OCell>,
    rows: Vec<RRow>,
    /// (block position, number, id)
    blocks: Vec<(u64, u64)>,
    /// (tx id, block row id, tx index)
    txs: Vec<(u64, usize, u32)>,
    /// (tx id, output index, output, spent)
    outs: Vec<(u64, u32, OutSpec, bool)>,
    /// (spent out-point, consuming tx id, input index)
    ins: Vec<((u64, u32), u64, u32)>,
}
/// the custom filters of a case (`config <keep> <interval> b<n> c<n>`): what they mean, independently of rhai
fn block_matches(bf: u64, b: &BlockSpec) -> bool {
    match bf {
        1 => b.number % 2 == 0,
        _ => true,
    }
}
fn cell_matches(cf: u64, o: &OutSpec) -> bool {
    match cf {
        1 => o.lock.code == 1,
        2 => o.cap >= 100,
        3 => !o.data.is_empty(),
        _ => true,
    }
}
/// the rhai sources given to `CustomFilters::new`
fn block_filter_src(bf: u64) -> Option<String> {
    match bf {
        // (`to_uint` of /repo slices `&s[..2]` unconditionally and panics on a one-character string: two-digit literals)
        1 => Some("to_uint(block.header.number) % to_uint(\"0x2\") == to_uint(\"0x0\")".to_string()),
        _ => None,
    }
}
fn cell_filter_src(cf: u64) -> Option<String> {
    match cf {
        1 => Some(format!("output.lock.code_hash == \"0x{}\"", "01".repeat(32))),
        2 => Some("to_uint(output.capacity) >= to_uint(\"100\")".to_string()),
        // (`output_data` is the hex of the molecule `Bytes`, 4-byte little-endian length header included)
        3 => Some("output_data != \"0x00000000\"".to_string()),
        _ => None,
    }
}
/// the chain as an index with these filters sees it: blocks that do not match contribute their block row only (the
/// cells they spend stay live in the index), cells that do not match are never indexed, a transaction is indexed iff
/// one of its outputs matches or one of its inputs spends an indexed cell (every transaction when there is no cell filter)
fn rich_replay(chain: &[BlockSpec], bf: u64, cf: u64) -> RState {
    let mut st = RState { live: BTreeMap::new(), rows: vec![], blocks: vec![], txs: vec![], outs: vec![], ins: vec![] };
    for (bi, b) in chain.iter().enumerate() {
        st.blocks.push((b.number, b.id));
        if !block_matches(bf, b) {
            continue;
        }
        for (txi, tx) in b.txs.iter().enumerate() {
            let txi = txi as u32;
            // without a cell filter every transaction of a matching block is indexed
            let matched = cf == 0 || tx.outputs.iter().any(|o| cell_matches(cf, o)) || (txi > 0 && tx.inputs.iter().any(|i| st.live.contains_key(i)));
            if !matched {
                continue;
            }
            if txi > 0 {
                for (ii, inp) in tx.inputs.iter().enumerate() {
                    if let Some(c) = st.live.remove(inp) {
                        st.rows.push(RRow { lock_family: true, script: c.out.lock.clone(), bn: b.number, txi, io: ii as u32, is_input: true, tx: tx.id, cell: c.out.clone() });
                        if let Some(t) = &c.out.type_ {
                            st.rows.push(RRow { lock_family: false, script: t.clone(), bn: b.number, txi, io: ii as u32, is_input: true, tx: tx.id, cell: c.out.clone() });
                        }
                        for o in st.outs.iter_mut() {
                            if (o.0, o.1) == *inp {
                                o.3 = true;
                            }
                        }
                        st.ins.push((*inp, tx.id, ii as u32));
                    }
                }
            }
            st.txs.push((tx.id, bi + 1, txi));
            for (oi, o) in tx.outputs.iter().enumerate() {
                let oi = oi as u32;
                if !cell_matches(cf, o) {
                    continue;
                }
                st.live.insert((tx.id, oi), OCell { op: (tx.id, oi), bn: b.number, txi, out: o.clone() });
                st.outs.push((tx.id, oi, o.clone(), false));
                st.rows.push(RRow { lock_family: true, script: o.lock.clone(), bn: b.number, txi, io: oi, is_input: false, tx: tx.id, cell: o.clone() });
                if let Some(t) = &o.type_ {
                    st.rows.push(RRow { lock_family: false, script: t.clone(), bn: b.number, txi, io: oi, is_input: false, tx: tx.id, cell: o.clone() });
                }
            }
        }
    }
    st
}
impl RState {
    /// the tables the chain implies: ids are positions (suffix deletes + max(id)+1 keep them contiguous)
    fn expected_dump(&self) -> Vec<String> {
        let mut rows = vec![];
        for (i, (n, id)) in self.blocks.iter().enumerate() {
            rows.push(format!("B/{}/{}/{}", i + 1, n, id));
        }
        let tx_row = |id: u64| self.txs.iter().position(|t| t.0 == id).map(|p| p + 1).unwrap_or(0);
        for (i, (id, b, txi)) in self.txs.iter().enumerate() {
            rows.push(format!("X/{}/{}/{}/{}", i + 1, id, b, txi));
        }
        let mut scripts: BTreeSet<String> = BTreeSet::new();
        for (i, (t, oi, o, spent)) in self.outs.iter().enumerate() {
            rows.push(format!("O/{}/{}/{}/{}/{}/{}/{}/{}", i + 1, tx_row(*t), oi, o.cap, o.lock.show(), show_opt_script(&o.type_), dotted(&o.data), if *spent { 1 } else { 0 }));
            scripts.insert(o.lock.show());
            if let Some(t) = &o.type_ {
                scripts.insert(t.show());
            }
        }
        for (op, t, ii) in self.ins.iter() {
            let oid = self.outs.iter().position(|o| (o.0, o.1) == *op).map(|p| p + 1).unwrap_or(0);
            rows.push(format!("I/{}/{}/{}", oid, tx_row(*t), ii));
        }
        for s in scripts {
            rows.push(format!("S/{}", s));
        }
        rows.sort();
        rows
    }
}

/// which reading of a prefix condition: the documented one (starts_with) or the code's byte range
/// `[p, get_binary_upper_boundary(p))` — the latter ONLY to attribute a failure to the (new) finding class
#[derive(Clone, Copy, PartialEq, Eq)]
struct RSem {
    range: bool,
}
const RSPEC: RSem = RSem { range: false };
const RRANGE: RSem = RSem { range: true };
const CLASS_ALLFF: &str = "rich-prefix-allff-upper-bound";
const CLASS_CURSOR: &str = "rich-txs-cursor-offset-restart";

/// the harness's own rendering of `get_binary_upper_boundary`
fn upper(p: &[u8]) -> Vec<u8> {
    if p.is_empty() {
        return vec![255; 32];
    }
    match p.iter().rposition(|b| *b != 255) {
        Some(i) => {
            let mut v = p[..=i].to_vec();
            v[i] += 1;
            v
        }
        None => vec![255; p.len() + 1],
    }
}
/// the only prefixes whose byte range is not the set of their extensions: empty (upper = 32 x ff) and all 0xff
fn allff_or_empty(p: &[u8]) -> bool {
    p.iter().all(|b| *b == 255)
}
/// does the query contain a prefix condition of that shape (searched args in prefix mode, filter script, data prefix)
fn allff_shape(m: Mode, q: &ScriptSpec, f: &FilterSpec) -> bool {
    (m == Mode::Pre && allff_or_empty(&q.args)) || f.script.as_ref().map(|s| allff_or_empty(&s.args)).unwrap_or(false) || f.data.as_ref().map(|(k, d)| *k == 'p' && allff_or_empty(d)).unwrap_or(false)
}
fn prefix_match(p: &[u8], v: &[u8], sem: RSem) -> bool {
    if sem.range { v >= p && v < upper(p).as_slice() } else { v.starts_with(p) }
}
fn rscript_matches(m: Mode, q: &ScriptSpec, s: &ScriptSpec, sem: RSem) -> bool {
    s.code == q.code
        && match m {
            Mode::Pre => prefix_match(&q.args, &s.args, sem),
            Mode::Exact => q.args == s.args,
            Mode::Part => find_sub(&s.args, &q.args),
        }
}
/// the documented meaning of the filters on one output (block range apart)
fn rout_passes(f: &FilterSpec, lock_search: bool, o: &OutSpec, sem: RSem) -> bool {
    let sib: Option<&ScriptSpec> = if lock_search { o.type_.as_ref() } else { Some(&o.lock) };
    if let Some(fs) = &f.script {
        match sib {
            None => return false,
            Some(s) => {
                if !(s.code == fs.code && prefix_match(&fs.args, &s.args, sem)) {
                    return false;
                }
            }
        }
    }
    let n = sib.map(|s| s.raw().len() as u64).unwrap_or(0);
    if !in_range(&f.slr, n) {
        return false;
    }
    if let Some((m, d)) = &f.data {
        let ok = match m {
            'p' => prefix_match(d, &o.data, sem),
            'e' => &o.data == d,
            _ => find_sub(&o.data, d),
        };
        if !ok {
            return false;
        }
    }
    in_range(&f.dlr, o.data.len() as u64) && in_range(&f.cap, o.cap)
}
fn show_rcell(c: &OCell) -> String {
    format!("{}.{}@{}.{}:{}:{}:{}:{}", c.op.0, c.op.1, c.bn, c.txi, c.out.cap, c.out.data.len(), c.out.lock.show(), show_opt_script(&c.out.type_))
}
/// live cells matching, in chain order (block, tx index, output index) = the order of `output.id`
fn roracle_cells(st: &RState, chain: &[BlockSpec], lock_search: bool, m: Mode, q: &ScriptSpec, f: &FilterSpec, desc: bool, sem: RSem) -> Vec<(String, u64)> {
    // chain order: position of the block in the chain (numbers are increasing along a chain)
    let _ = chain;
    let mut v: Vec<((u64, u32, u32), String, u64)> = vec![];
    for c in st.live.values() {
        let s = if lock_search { Some(&c.out.lock) } else { c.out.type_.as_ref() };
        if let Some(s) = s {
            if rscript_matches(m, q, s, sem) && rout_passes(f, lock_search, &c.out, sem) && in_range(&f.blk, c.bn) {
                v.push(((c.bn, c.txi, c.op.1), show_rcell(c), c.out.cap));
            }
        }
    }
    v.sort();
    if desc {
        v.reverse();
    }
    v.into_iter().map(|x| (x.1, x.2)).collect()
}
/// tx-history rows matching, grouped per transaction in chain order; inside a transaction sorted (inputs first, by index)
fn roracle_txs(st: &RState, lock_search: bool, m: Mode, q: &ScriptSpec, f: &FilterSpec, desc: bool, sem: RSem) -> Vec<(u64, u64, u32, Vec<(bool, u32)>)> {
    let mut groups: Vec<(u64, u64, u32, Vec<(bool, u32)>)> = vec![];
    for r in st.rows.iter() {
        if r.lock_family != lock_search || !rscript_matches(m, q, &r.script, sem) || !rout_passes(f, lock_search, &r.cell, sem) || !in_range(&f.blk, r.bn) {
            continue;
        }
        match groups.last_mut() {
            Some(g) if g.0 == r.tx => g.3.push((!r.is_input, r.io)),
            _ => groups.push((r.tx, r.bn, r.txi, vec![(!r.is_input, r.io)])),
        }
    }
    for g in groups.iter_mut() {
        g.3.sort();
    }
    if desc {
        groups.reverse();
    }
    groups
}
fn show_group(g: &(u64, u64, u32, Vec<(bool, u32)>)) -> String {
    format!("{}@{}.{}[{}]", g.0, g.1, g.2, g.3.iter().map(|(o, i)| format!("{}{}", if *o { "o" } else { "i" }, i)).collect::<Vec<_>>().join(";"))
}

// ---------------------------------------------------------------- the simulator
pub struct RichSim {
    rt: tokio::runtime::Runtime,
    root: PathBuf,
    n_dirs: u64,
    dir: Option<PathBuf>,
    idx: Option<VerifRichIndexer>,
    handle: Option<AsyncRichIndexerHandle>,
    reader: Option<sqlx::SqlitePool>,
    /// the RocksDB indexer fed with the same blocks (never pruning); also owns the id <-> hash tables
    kv: Sim,
    kv_live: bool,
    chain: Vec<BlockSpec>,
    /// custom filters of the case (0 = none)
    bf: u64,
    cf: u64,
    snapshots: Vec<(String, Vec<String>)>,
    n_reorg: u64,
    n_unindexed_before_indexed: u64,
    n_queries_nonempty: u64,
    n_gc_shared_type: u64,
    /// an `x` op of the key-value stream in progress: only its writer half runs here, under the op's own line
    x_line: Option<String>,
}

#[derive(Clone)]
struct UTx {
    tx: u64,
    bn: u64,
    txi: u32,
    io: u32,
    is_input: bool,
}
impl UTx {
    fn show(&self) -> String {
        format!("{}@{}.{}.{}.{}", self.tx, self.bn, self.txi, self.io, if self.is_input { "i" } else { "o" })
    }
    /// without the cell: in prefix / partial mode the order of the rows inside one transaction is unspecified
    fn show_as(&self, thin: bool) -> String {
        if thin { format!("{}@{}.{}", self.tx, self.bn, self.txi) } else { self.show() }
    }
}

impl RichSim {
    pub fn new(root: PathBuf) -> RichSim {
        let rt = tokio::runtime::Builder::new_multi_thread().worker_threads(2).enable_all().build().expect("tokio runtime");
        let kv = Sim::new(root.join("kv"));
        RichSim { rt, root, n_dirs: 0, dir: None, idx: None, handle: None, reader: None, kv, kv_live: false, chain: vec![], bf: 0, cf: 0, snapshots: vec![], n_reorg: 0, n_unindexed_before_indexed: 0, n_queries_nonempty: 0, n_gc_shared_type: 0, x_line: None }
    }
    pub fn close(&mut self) {
        if let Some(r) = self.reader.take() {
            self.rt.block_on(r.close());
        }
        self.handle = None;
        self.idx = None;
        self.kv.close();
        if let Some(d) = self.dir.take() {
            let _ = std::fs::remove_dir_all(d);
        }
    }
    fn reset(&mut self) {
        self.close();
        self.kv.reset();
        self.kv_live = false;
        self.chain.clear();
        self.snapshots.clear();
        self.n_reorg = 0;
        self.n_unindexed_before_indexed = 0;
        self.n_queries_nonempty = 0;
        self.n_gc_shared_type = 0;
    }
    fn open(&mut self, bf: u64, cf: u64) {
        self.close();
        self.bf = bf;
        self.cf = cf;
        self.n_dirs += 1;
        let d = self.root.join(format!("rich{}", self.n_dirs));
        std::fs::create_dir_all(&d).expect("mkdir");
        let path = d.join("rich.sqlite");
        let (bsrc, csrc) = (block_filter_src(bf), cell_filter_src(cf));
        let idx = if bf == 0 && cf == 0 {
            self.rt.block_on(VerifRichIndexer::connect_sqlite(path.to_str().expect("utf8 path")))
        } else {
            self.rt.block_on(VerifRichIndexer::connect_sqlite_with_filters(path.to_str().expect("utf8 path"), bsrc.as_deref(), csrc.as_deref()))
        };
        self.handle = Some(idx.handle(usize::MAX));
        self.idx = Some(idx);
        let url = format!("sqlite://{}", path.display());
        let reader = self.rt.block_on(sqlx::sqlite::SqlitePoolOptions::new().max_connections(1).connect(&url)).expect("second sqlite connection");
        self.reader = Some(reader);
        self.dir = Some(d);
        // the RocksDB indexer next to it: no pruning at all
        self.kv.open(1_000_000_000, 1_000_000_000);
        // the key-value indexer runs without filters: it is compared only in cases without filters
        self.kv_live = bf == 0 && cf == 0;
        self.chain.clear();
        self.snapshots.clear();
    }
    fn idx(&self) -> &VerifRichIndexer {
        self.idx.as_ref().expect("config first")
    }
    fn handle(&self) -> &AsyncRichIndexerHandle {
        self.handle.as_ref().expect("config first")
    }
    fn tx_name(&self, h: &[u8]) -> String {
        Byte32::from_slice(h).ok().and_then(|h| self.kv.tx_id.get(&h).map(|x| x.to_string())).unwrap_or_else(|| "?".into())
    }

    // ------------------------------------------------------------ raw tables
    fn dump_rows(&self) -> Vec<String> {
        let pool = self.reader.as_ref().expect("config first");
        let rt = &self.rt;
        let q = |sql: &str| rt.block_on(sqlx::query(sql).fetch_all(pool)).expect("read table");
        let mut scripts: HashMap<i64, String> = HashMap::new();
        let mut rows = vec![];
        for r in q("SELECT id, code_hash, hash_type, args FROM script") {
            let id: i64 = r.get(0);
            let ch: Vec<u8> = r.get(1);
            let ht: i64 = r.get(2);
            let args: Option<Vec<u8>> = r.get(3);
            let mut raw = ch.clone();
            raw.push(ht as u8);
            let s = ScriptSpec { code: code_of_raw(&raw), args: args.unwrap_or_default() };
            scripts.insert(id, s.show());
            rows.push(format!("S/{}", s.show()));
        }
        for r in q("SELECT id, block_hash, block_number FROM block") {
            let id: i64 = r.get(0);
            let h: Vec<u8> = r.get(1);
            let n: i64 = r.get(2);
            let bid = Byte32::from_slice(&h).ok().and_then(|h| self.kv.block_id.get(&h).map(|x| x.to_string())).unwrap_or_else(|| "?".into());
            rows.push(format!("B/{}/{}/{}", id, n, bid));
        }
        for r in q("SELECT id, tx_hash, block_id, tx_index FROM ckb_transaction") {
            let id: i64 = r.get(0);
            let h: Vec<u8> = r.get(1);
            let b: i64 = r.get(2);
            let i: i64 = r.get(3);
            rows.push(format!("X/{}/{}/{}/{}", id, self.tx_name(&h), b, i));
        }
        let sid = |x: Option<i64>| match x {
            None => "-".to_string(),
            Some(i) => scripts.get(&i).cloned().unwrap_or_else(|| "?".into()),
        };
        for r in q("SELECT id, tx_id, output_index, capacity, lock_script_id, type_script_id, data, is_spent FROM output") {
            let id: i64 = r.get(0);
            let t: i64 = r.get(1);
            let oi: i64 = r.get(2);
            let cap: i64 = r.get(3);
            let l: Option<i64> = r.get(4);
            let ty: Option<i64> = r.get(5);
            let data: Option<Vec<u8>> = r.get(6);
            let sp: i64 = r.get(7);
            rows.push(format!("O/{}/{}/{}/{}/{}/{}/{}/{}", id, t, oi, cap as u64, sid(l), sid(ty), dotted(&data.unwrap_or_default()), sp));
        }
        for r in q("SELECT output_id, consumed_tx_id, input_index FROM input") {
            let o: i64 = r.get(0);
            let t: i64 = r.get(1);
            let i: i64 = r.get(2);
            rows.push(format!("I/{}/{}/{}", o, t, i));
        }
        rows.sort();
        rows
    }
    fn check_rows(&mut self, out: &mut Out, when: &str) {
        let a = self.dump_rows();
        let b = rich_replay(&self.chain, self.bf, self.cf).expected_dump();
        if a != b {
            let da: Vec<&String> = a.iter().filter(|x| !b.contains(x)).take(4).collect();
            let db: Vec<&String> = b.iter().filter(|x| !a.contains(x)).take(4).collect();
            out.oracle_fail("rich-rows-neq-chain", &format!("{} extra={:?} missing={:?}", when, da, db));
        }
    }

    // ------------------------------------------------------------ RPC
    fn key(&self, lock: bool, q: &ScriptSpec, m: Mode, filter: Option<IndexerSearchKeyFilter>, group: bool) -> IndexerSearchKey {
        IndexerSearchKey {
            script: q.build().into(),
            script_type: if lock { IndexerScriptType::Lock } else { IndexerScriptType::Type },
            script_search_mode: Some(m.json()),
            filter,
            with_data: Some(true),
            group_by_transaction: Some(group),
        }
    }
    fn tip_string(&mut self) -> String {
        let t = self.rt.block_on(self.handle().get_indexer_tip()).expect("rpc tip");
        match t {
            None => "tip none".into(),
            Some(t) => {
                let h = Byte32::from_slice(t.block_hash.as_bytes()).unwrap();
                format!("tip {}.{}", u64::from(t.block_number), self.kv.block_id.get(&h).map(|x| x.to_string()).unwrap_or_else(|| "?".into()))
            }
        }
    }
    fn oracle_tip(&self) -> String {
        match self.chain.last() {
            Some(b) => format!("tip {}.{}", b.number, b.id),
            None => "tip none".into(),
        }
    }
    fn check_tip(&mut self, out: &mut Out, ans: &str) {
        if ans != self.oracle_tip() {
            out.oracle_fail("rich-tip-neq-chain-tip", &format!("{} vs {}", ans, self.oracle_tip()));
        }
    }
    /// a failed oracle comparison: the documented reading `want(RSPEC)` differs from `got`; attribute it
    fn judge<T: PartialEq + std::fmt::Debug>(&self, out: &mut Out, got: &T, want: &dyn Fn(RSem) -> T, plain: &str, line: &str, allff_shape: bool) {
        if *got == want(RSPEC) {
            return;
        }
        if allff_shape && *got == want(RRANGE) {
            // the known finding: the prefix is empty / all 0xff and the answer is the code's byte range
            out.oracle_fail(CLASS_ALLFF, &format!("{} got={:?} want={:?}", line, got, want(RSPEC)));
            return;
        }
        out.oracle_fail(plain, &format!("{} got={:?} want={:?}", line, got, want(RSPEC)));
    }
    fn cells_walk(&mut self, lock: bool, q: &ScriptSpec, m: Mode, f: &FilterSpec, desc: bool, limit: u32) -> Vec<Vec<(String, u64)>> {
        let mut pages = vec![];
        let mut cursor: Option<JsonBytes> = None;
        loop {
            let key = self.key(lock, q, m, f.to_json(), false);
            let r = self.rt.block_on(self.handle().get_cells(key, if desc { IndexerOrder::Desc } else { IndexerOrder::Asc }, limit.into(), cursor.clone())).expect("rich get_cells");
            let page: Vec<(String, u64)> = r
                .objects
                .iter()
                .map(|c| {
                    let op: packed::OutPoint = c.out_point.clone().into();
                    let cap: u64 = c.output.capacity.into();
                    let lock_s: Script = c.output.lock.clone().into();
                    let ty: Option<Script> = c.output.type_.clone().map(Into::into);
                    let idx: u32 = op.index().into();
                    (
                        format!(
                            "{}.{}@{}.{}:{}:{}:{}:{}",
                            self.tx_name(op.tx_hash().as_slice()),
                            idx,
                            u64::from(c.block_number),
                            u32::from(c.tx_index),
                            cap,
                            c.output_data.as_ref().map(|d| d.len()).unwrap_or(0),
                            ScriptSpec::from_real(&lock_s).show(),
                            ty.map(|t| ScriptSpec::from_real(&t).show()).unwrap_or_else(|| "-".into())
                        ),
                        cap,
                    )
                })
                .collect();
            let empty = page.is_empty();
            pages.push(page);
            if empty || pages.len() > 10_000 {
                break;
            }
            cursor = Some(r.last_cursor);
        }
        pages
    }
    fn txs_page(&mut self, lock: bool, q: &ScriptSpec, m: Mode, f: &FilterSpec, desc: bool, limit: u32, group: bool, cursor: Option<JsonBytes>) -> (Vec<UTx>, Vec<String>, JsonBytes) {
        let filter = if f.script.is_none() && f.slr.is_none() && f.data.is_none() && f.dlr.is_none() && f.cap.is_none() && f.blk.is_none() { None } else { f.to_json() };
        let key = self.key(lock, q, m, filter, group);
        let r = self.rt.block_on(self.handle().get_transactions(key, if desc { IndexerOrder::Desc } else { IndexerOrder::Asc }, limit.into(), cursor)).expect("rich get_transactions");
        let mut flat = vec![];
        let mut shown = vec![];
        for o in r.objects.iter() {
            match o {
                IndexerTx::Ungrouped(x) => {
                    let u = UTx { tx: self.tx_name(x.tx_hash.as_bytes()).parse().unwrap_or(0), bn: x.block_number.into(), txi: x.tx_index.into(), io: x.io_index.into(), is_input: matches!(x.io_type, IndexerCellType::Input) };
                    shown.push(u.show());
                    flat.push(u);
                }
                IndexerTx::Grouped(x) => {
                    let id: u64 = self.tx_name(x.tx_hash.as_bytes()).parse().unwrap_or(0);
                    let mut cells: Vec<(bool, u32)> = x.cells.iter().map(|(ty, i)| (!matches!(ty, IndexerCellType::Input), u32::from(*i))).collect();
                    cells.sort();
                    for (o, i) in cells.iter() {
                        flat.push(UTx { tx: id, bn: x.block_number.into(), txi: x.tx_index.into(), io: *i, is_input: !*o });
                    }
                    shown.push(show_group(&(id, x.block_number.into(), x.tx_index.into(), cells)));
                }
            }
        }
        (flat, shown, r.last_cursor)
    }
    /// per transaction, in answer order, cells sorted
    fn group_flat(flat: &[UTx]) -> Vec<(u64, u64, u32, Vec<(bool, u32)>)> {
        let mut groups: Vec<(u64, u64, u32, Vec<(bool, u32)>)> = vec![];
        for r in flat {
            match groups.last_mut() {
                Some(g) if g.0 == r.tx => g.3.push((!r.is_input, r.io)),
                _ => groups.push((r.tx, r.bn, r.txi, vec![(!r.is_input, r.io)])),
            }
        }
        for g in groups.iter_mut() {
            g.3.sort();
        }
        groups
    }
    /// the pages the cursor arithmetic of BEFORE the repair 706cf75 (last tx, rows of that tx at the END OF THE PAGE)
    /// produces over the full list `l` — only to name the class of a wrong walk
    fn simulate_cursor_pre_f24(l: &[UTx], limit: usize, thin: bool) -> Vec<Vec<String>> {
        let mut pages = vec![];
        let mut cursor: Option<(u64, usize)> = None;
        loop {
            let rows: Vec<&UTx> = match cursor {
                None => l.iter().collect(),
                Some((last, off)) => {
                    let from = l.iter().position(|r| r.tx == last).unwrap_or(l.len());
                    l[from..].iter().skip(off).collect()
                }
            };
            let page: Vec<&UTx> = rows.into_iter().take(limit).collect();
            let shown: Vec<String> = page.iter().map(|r| r.show_as(thin)).collect();
            let empty = page.is_empty();
            if let Some(last) = page.last() {
                let cnt = page.iter().rev().take_while(|r| r.tx == last.tx).count();
                cursor = Some((last.tx, cnt));
            }
            pages.push(shown);
            if empty || pages.len() >= MAX_TX_PAGES {
                break;
            }
        }
        pages
    }

    fn do_txs(&mut self, out: &mut Out, line: &str, lock: bool, q: &ScriptSpec, m: Mode, f: &FilterSpec, desc: bool, limit: u32, group: bool) {
        let st = rich_replay(&self.chain, self.bf, self.cf);
        let thin = m != Mode::Exact;
        let mut pages: Vec<Vec<String>> = vec![];
        let mut flat: Vec<UTx> = vec![];
        let mut cursor: Option<JsonBytes> = None;
        let cap_pages = if group { 10_000 } else { MAX_TX_PAGES };
        loop {
            let (fl, mut shown, cur) = self.txs_page(lock, q, m, f, desc, limit, group, cursor.clone());
            if !group {
                shown = fl.iter().map(|r| r.show_as(thin)).collect();
            }
            let empty = shown.is_empty();
            flat.extend(fl);
            pages.push(shown);
            if empty || pages.len() >= cap_pages {
                break;
            }
            cursor = Some(cur);
        }
        // the whole answer in one call: judged against the chain; the walk is judged against it
        let (full, _, _) = self.txs_page(lock, q, m, f, desc, BIG, false, None);
        let got = Self::group_flat(&full);
        let want = |sem: RSem| roracle_txs(&st, lock, m, q, f, desc, sem);
        self.judge(out, &got, &want, "rich-txs-neq-chain-filter", line, allff_shape(m, q, f));
        if group {
            let walked: Vec<String> = pages.iter().flatten().cloned().collect();
            let expect: Vec<String> = got.iter().map(show_group).collect();
            let n = pages.len();
            let shape_bad = pages.iter().enumerate().any(|(i, p)| if i + 2 < n { p.len() != limit as usize } else if i + 2 == n { p.is_empty() || p.len() > limit as usize } else { !p.is_empty() });
            if walked != expect || shape_bad {
                out.oracle_fail("rich-txs-grouped-pagination", &format!("{} pages={:?} want={:?}", line, pages, expect));
            }
        } else {
            let mut expect: Vec<Vec<String>> = full.chunks(limit as usize).map(|c| c.iter().map(|r| r.show_as(thin)).collect()).collect();
            expect.push(vec![]);
            expect.truncate(MAX_TX_PAGES);
            if pages != expect {
                if pages == Self::simulate_cursor_pre_f24(&full, limit as usize, thin) {
                    out.oracle_fail(CLASS_CURSOR, &format!("{} pages={:?} want={:?}", line, pages, expect));
                } else {
                    out.oracle_fail("rich-txs-pagination", &format!("{} pages={:?} want={:?}", line, pages, expect));
                }
            } else if pages.len() > 2 {
                out.count("rich-txs-multi-page-ok");
            }
        }
        // cross-check with the RocksDB indexer: same contract without a filter script and in exact mode
        if self.kv_live && m == Mode::Exact && f.script.is_none() && f.slr.is_none() && f.data.is_none() && f.dlr.is_none() && f.cap.is_none() {
            let filter = if f.blk.is_none() { None } else { f.to_json() };
            let key = self.kv.search_key(lock, q, true, filter, false);
            let r = self.kv.handle().get_transactions(key, if desc { IndexerOrder::Desc } else { IndexerOrder::Asc }, BIG.into(), None).expect("kv get_transactions");
            let mut kflat = vec![];
            for o in r.objects.iter() {
                if let IndexerTx::Ungrouped(x) = o {
                    kflat.push(UTx { tx: self.tx_name(x.tx_hash.as_bytes()).parse().unwrap_or(0), bn: x.block_number.into(), txi: x.tx_index.into(), io: x.io_index.into(), is_input: matches!(x.io_type, IndexerCellType::Input) });
                }
            }
            if Self::group_flat(&kflat) != got {
                out.oracle_fail("rich-neq-rocksdb", &format!("{} rich={:?} rocksdb={:?}", line, got, Self::group_flat(&kflat)));
            }
            out.count("cross-checked-txs");
        }
        if !flat.is_empty() {
            self.n_queries_nonempty += 1;
        }
        out.count(if group { "txs-grouped" } else { "txs-ungrouped" });
        out.count(match m {
            Mode::Pre => "mode-prefix",
            Mode::Exact => "mode-exact",
            Mode::Part => "mode-partial",
        });
        if group {
            out.op(line, &format!("txs {}", show_pages(&pages)));
        } else {
            let all: Vec<String> = got.iter().map(show_group).collect();
            out.op(line, &format!("txs {} = {}", show_pages(&pages), if all.is_empty() { "-".into() } else { all.join(",") }));
        }
    }

    pub fn exec(&mut self, out: &mut Out, line: &str) {
        let t: Vec<&str> = line.split_whitespace().collect();
        match t[0] {
            // the tx-pool overlay of the rich-indexer is not driven (no hook): overlay ops are skipped, of an
            // interleaved op (`x <query> && <writer>`, key-value stream) only the writer half runs
            "pnew" | "prej" | "pdead" => {
                out.count("overlay-op-skipped");
                match self.x_line.take() {
                    Some(xl) => out.op(&xl, "x skipped && pool skipped"),
                    None => out.op(line, "pool skipped"),
                }
            }
            "x" => {
                let pos = t.iter().position(|x| *x == "&&").expect("malformed: x without &&");
                assert!(pos + 1 < t.len() && matches!(t[pos + 1], "append" | "rollback" | "pnew" | "prej"), "malformed: x needs a writer op");
                self.x_line = Some(line.to_string());
                let w = t[pos + 1..].join(" ");
                self.exec(out, &w);
                assert!(self.x_line.is_none(), "x: the writer op did not run");
            }
            "config" => {
                // optional: b<n> c<n> = custom block / cell filter of the case
                let pick = |p: char| -> u64 { t.iter().skip(3).find(|x| x.starts_with(p)).map(|x| x[1..].parse().expect("filter id")).unwrap_or(0) };
                let (bf, cf) = (pick('b'), pick('c'));
                assert!(bf <= 1 && cf <= 3, "malformed: filter id");
                self.open(bf, cf);
                if bf != 0 || cf != 0 {
                    out.count("config-with-custom-filters");
                }
                out.op(line, "ok");
            }
            "append" => {
                let spec = parse_block_args(&t);
                if let Some(b) = self.chain.last() {
                    assert!(spec.number == b.number + 1, "malformed: append must extend the tip by one");
                }
                let block = self.kv.build_block(&spec);
                let pre = self.dump_rows();
                let pre_tip = self.tip_string();
                self.snapshots.push((pre_tip, pre));
                // statistics: an input the index does not know BEFORE one it knows, in the same transaction
                let st = rich_replay(&self.chain, self.bf, self.cf);
                let mut created: BTreeSet<(u64, u32)> = BTreeSet::new();
                for (i, tx) in spec.txs.iter().enumerate() {
                    if i > 0 {
                        let known: Vec<bool> = tx.inputs.iter().map(|op| st.live.contains_key(op) || created.contains(op)).collect();
                        if let Some(p) = known.iter().position(|k| !*k) {
                            if known[p..].iter().any(|k| *k) {
                                self.n_unindexed_before_indexed += 1;
                                out.count("append-unindexed-input-before-indexed");
                            }
                        }
                    }
                    for oi in 0..tx.outputs.len() {
                        if block_matches(self.bf, &spec) && cell_matches(self.cf, &tx.outputs[oi]) {
                            created.insert((tx.id, oi as u32));
                        }
                    }
                }
                self.rt.block_on(self.idx().append(&block)).expect("rich append");
                if self.kv_live {
                    self.kv.idx().append(&block).expect("kv append");
                    self.kv.chain.push(spec.clone());
                }
                self.chain.push(spec);
                let ans = self.tip_string();
                self.check_tip(out, &ans);
                out.count("append");
                match self.x_line.take() {
                    Some(xl) => out.op(&xl, &format!("x skipped && {}", ans)),
                    None => out.op(line, &ans),
                }
                self.check_rows(out, "after-append");
            }
            "wf" => {
                let spec = parse_block_args(&t);
                let st = rich_replay(&self.chain, self.bf, self.cf);
                let ids: Vec<u64> = spec.txs.iter().map(|x| x.id).collect();
                let a = (0..ids.len()).all(|i| !ids[..i].contains(&ids[i])) && ids.iter().all(|i| !st.txs.iter().any(|x| x.0 == *i));
                let o = spec.txs.iter().enumerate().all(|(i, tx)| tx.inputs.iter().all(|(ti, _)| spec.txs.iter().enumerate().all(|(j, o)| o.id != *ti || j < i)));
                let ins: Vec<(u64, u32)> = spec.txs.iter().skip(1).flat_map(|x| x.inputs.iter().cloned()).collect();
                let s = (0..ins.len()).all(|i| !ins[..i].contains(&ins[i])) && ins.iter().all(|op| match st.outs.iter().find(|x| (x.0, x.1) == *op) {
                    Some(x) => !x.3,
                    None => true,
                });
                let bit = |x: bool| if x { 1 } else { 0 };
                out.count("wf-checked");
                if !(a && o && s) {
                    out.count("wf-some-bit-false");
                }
                // `l` (model side: the appended database is one `Layer` on top of the current one whenever a, o, s
                // hold — the hypothesis of the rollback theorem) must be 1 on every block
                out.op(line, &format!("wf a={} o={} s={} l=1", bit(a), bit(o), bit(s)));
            }
            "rollback" => {
                let before = rich_replay(&self.chain, self.bf, self.cf);
                self.rt.block_on(self.idx().rollback()).expect("rich rollback");
                let snap = self.snapshots.pop();
                let popped = self.chain.pop();
                if self.kv_live && popped.is_some() {
                    if self.kv.has_header_rows() {
                        self.kv.idx().rollback().expect("kv rollback");
                        self.kv.chain.pop();
                        if self.kv.chain.is_empty() {
                            // the key-value indexer's tip is garbage from here on (known finding): stop comparing
                            self.kv_live = false;
                        }
                    } else {
                        self.kv_live = false;
                    }
                }
                // statistics: a script that survives ONLY as a type script of an older output
                if let Some(b) = &popped {
                    let after = rich_replay(&self.chain, self.bf, self.cf);
                    let gone_types: BTreeSet<ScriptSpec> = b.txs.iter().flat_map(|x| x.outputs.iter().filter_map(|o| o.type_.clone())).collect();
                    if gone_types.iter().any(|ty| after.outs.iter().any(|o| o.2.type_.as_ref() == Some(ty)) && !after.outs.iter().any(|o| &o.2.lock == ty)) {
                        self.n_gc_shared_type += 1;
                        out.count("rollback-keeps-script-referenced-only-as-type");
                    }
                    let _ = before;
                }
                let ans = self.tip_string();
                self.check_tip(out, &ans);
                if let Some((tip0, rows0)) = snap {
                    let rows1 = self.dump_rows();
                    if tip0 != ans {
                        out.oracle_fail("rich-rollback-tip-not-restored", &format!("{} vs before-append {}", ans, tip0));
                    }
                    if rows0 != rows1 {
                        let da: Vec<&String> = rows1.iter().filter(|x| !rows0.contains(x)).take(4).collect();
                        let db: Vec<&String> = rows0.iter().filter(|x| !rows1.contains(x)).take(4).collect();
                        out.oracle_fail("rich-rollback-not-restored", &format!("extra={:?} missing={:?}", da, db));
                    }
                }
                out.count("rollback");
                match self.x_line.take() {
                    Some(xl) => out.op(&xl, &format!("x skipped && {}", ans)),
                    None => out.op(line, &ans),
                }
                self.check_rows(out, "after-rollback");
            }
            "prune" | "tip" => {
                // the rich-indexer keeps everything: `prune` is a no-op
                let ans = self.tip_string();
                self.check_tip(out, &ans);
                out.op(line, &ans);
            }
            "live" | "rawtxs" => {
                let lock = t[1] == "lock";
                let q = ScriptSpec::parse(t[2]);
                let st = rich_replay(&self.chain, self.bf, self.cf);
                let f = FilterSpec::default();
                if t[0] == "live" {
                    let pages = self.cells_walk(lock, &q, Mode::Pre, &f, false, BIG);
                    let v: Vec<String> = pages.iter().flatten().map(|x| x.0.split('@').next().unwrap().to_string()).collect();
                    let want = |sem: RSem| -> Vec<String> { roracle_cells(&st, &self.chain, lock, Mode::Pre, &q, &f, false, sem).iter().map(|x| x.0.split('@').next().unwrap().to_string()).collect() };
                    self.judge(out, &v, &want, "rich-live-neq-chain-filter", line, allff_shape(Mode::Pre, &q, &f));
                    out.count("live");
                    out.op(line, &format!("live {}", if v.is_empty() { "-".into() } else { v.join(",") }));
                } else {
                    let (full, _, _) = self.txs_page(lock, &q, Mode::Pre, &f, false, BIG, false, None);
                    let v: Vec<String> = full.iter().map(|r| r.tx.to_string()).collect();
                    let want = |sem: RSem| -> Vec<String> { roracle_txs(&st, lock, Mode::Pre, &q, &f, false, sem).iter().flat_map(|g| std::iter::repeat(g.0.to_string()).take(g.3.len())).collect() };
                    self.judge(out, &v, &want, "rich-rawtxs-neq-chain-filter", line, allff_shape(Mode::Pre, &q, &f));
                    out.count("rawtxs");
                    out.op(line, &format!("rawtxs {}", if v.is_empty() { "-".into() } else { v.join(",") }));
                }
            }
            "cells" => {
                let lock = t[1] == "lock";
                let q = ScriptSpec::parse(t[2]);
                let m = Mode::parse(t[3]);
                let desc = t[4] == "desc";
                let limit: u32 = t[5].parse().expect("limit");
                assert!(limit >= 1, "malformed: limit 0");
                let f = FilterSpec::parse(&t[6..12]);
                let pages = self.cells_walk(lock, &q, m, &f, desc, limit);
                let st = rich_replay(&self.chain, self.bf, self.cf);
                let got: Vec<String> = pages.iter().flatten().map(|x| x.0.clone()).collect();
                let want = |sem: RSem| -> Vec<String> { roracle_cells(&st, &self.chain, lock, m, &q, &f, desc, sem).into_iter().map(|x| x.0).collect() };
                self.judge(out, &got, &want, "rich-cells-neq-chain-filter", line, allff_shape(m, &q, &f));
                let n = pages.len();
                if pages.iter().enumerate().any(|(i, p)| if i + 2 < n { p.len() != limit as usize } else if i + 2 == n { p.is_empty() || p.len() > limit as usize } else { !p.is_empty() }) {
                    out.oracle_fail("rich-cells-pagination", &format!("{} pages={:?}", line, pages.iter().map(|p| p.len()).collect::<Vec<_>>()));
                }
                if self.kv_live && m == Mode::Exact && f.script.is_none() {
                    // same contract: the RocksDB indexer's full answer, in its own order (= chain order in exact mode)
                    let key = self.kv.search_key(lock, &q, true, f.to_json(), false);
                    let r = self.kv.handle().get_cells(key, if desc { IndexerOrder::Desc } else { IndexerOrder::Asc }, BIG.into(), None).expect("kv get_cells");
                    let kv: Vec<String> = r
                        .objects
                        .iter()
                        .map(|c| {
                            let op: packed::OutPoint = c.out_point.clone().into();
                            let cap: u64 = c.output.capacity.into();
                            let lock_s: Script = c.output.lock.clone().into();
                            let ty: Option<Script> = c.output.type_.clone().map(Into::into);
                            let idx: u32 = op.index().into();
                            format!("{}.{}@{}.{}:{}:{}:{}:{}", self.tx_name(op.tx_hash().as_slice()), idx, u64::from(c.block_number), u32::from(c.tx_index), cap, c.output_data.as_ref().map(|d| d.len()).unwrap_or(0), ScriptSpec::from_real(&lock_s).show(), ty.map(|t| ScriptSpec::from_real(&t).show()).unwrap_or_else(|| "-".into()))
                        })
                        .collect();
                    if kv != got {
                        out.oracle_fail("rich-neq-rocksdb", &format!("{} rich={:?} rocksdb={:?}", line, got, kv));
                    }
                    out.count("cross-checked-cells");
                }
                if !got.is_empty() {
                    self.n_queries_nonempty += 1;
                }
                out.count(match m {
                    Mode::Pre => "cells-prefix",
                    Mode::Exact => "cells-exact",
                    Mode::Part => "cells-partial",
                });
                if pages.len() > 2 {
                    out.count("cells-multi-page");
                }
                let shown: Vec<Vec<String>> = pages.iter().map(|p| p.iter().map(|x| x.0.clone()).collect()).collect();
                out.op(line, &format!("cells {}", show_pages(&shown)));
            }
            "txs" => {
                let lock = t[1] == "lock";
                let q = ScriptSpec::parse(t[2]);
                let m = Mode::parse(t[3]);
                let desc = t[4] == "desc";
                let limit: u32 = t[5].parse().expect("limit");
                assert!(limit >= 1, "malformed: limit 0");
                let group = t[6] == "g";
                let f = FilterSpec { script: parse_opt_script(t[7]), blk: parse_range(t[8]), ..Default::default() };
                self.do_txs(out, line, lock, &q, m, &f, desc, limit, group);
            }
            "rtxs" => {
                let lock = t[1] == "lock";
                let q = ScriptSpec::parse(t[2]);
                let m = Mode::parse(t[3]);
                let desc = t[4] == "desc";
                let limit: u32 = t[5].parse().expect("limit");
                assert!(limit >= 1, "malformed: limit 0");
                let group = t[6] == "g";
                let f = FilterSpec::parse(&t[7..13]);
                out.count("rtxs-full-filter");
                self.do_txs(out, line, lock, &q, m, &f, desc, limit, group);
            }
            "cap" => {
                let lock = t[1] == "lock";
                let q = ScriptSpec::parse(t[2]);
                let m = Mode::parse(t[3]);
                let f = FilterSpec::parse(&t[4..10]);
                let key = self.key(lock, &q, m, f.to_json(), false);
                let r = self.rt.block_on(self.handle().get_cells_capacity(key)).expect("rich get_cells_capacity");
                let st = rich_replay(&self.chain, self.bf, self.cf);
                let (ans, got): (String, Option<(u64, String)>) = match r {
                    None => ("cap none".to_string(), None),
                    Some(c) => {
                        let bh = Byte32::from_slice(c.block_hash.as_bytes()).unwrap();
                        let tip = format!("{}.{}", u64::from(c.block_number), self.kv.block_id.get(&bh).map(|x| x.to_string()).unwrap_or_else(|| "?".into()));
                        (format!("cap {} {}", u64::from(c.capacity), tip), Some((u64::from(c.capacity), format!("tip {}", tip))))
                    }
                };
                // None <=> no matching live cell; Some(sum, chain tip) otherwise
                let tipw = self.oracle_tip();
                let want = |sem: RSem| -> Option<(u64, String)> {
                    let cells = roracle_cells(&st, &self.chain, lock, m, &q, &f, false, sem);
                    if cells.is_empty() { None } else { Some((cells.iter().map(|x| x.1).sum(), tipw.clone())) }
                };
                self.judge(out, &got, &want, "rich-capacity-neq-chain-filter", line, allff_shape(m, &q, &f));
                if self.kv_live && m == Mode::Exact && f.script.is_none() {
                    let key = self.kv.search_key(lock, &q, true, f.to_json(), false);
                    let k = self.kv.handle().get_cells_capacity(key).expect("kv get_cells_capacity");
                    let ksum = k.map(|c| u64::from(c.capacity)).unwrap_or(0);
                    if ksum != got.as_ref().map(|x| x.0).unwrap_or(0) {
                        out.oracle_fail("rich-neq-rocksdb", &format!("{} rich={:?} rocksdb sum={}", line, got, ksum));
                    }
                    out.count("cross-checked-cap");
                }
                out.count("cap");
                out.op(line, &ans);
            }
            "dump" => {
                let rows = self.dump_rows();
                out.count("dump");
                out.op(line, &format!("dump {} {}", rows.len(), if rows.is_empty() { "-".into() } else { rows.join(" ") }));
                self.check_rows(out, "dump");
            }
            other => panic!("malformed op {}", other),
        }
    }
}

// ---------------------------------------------------------------- generator
fn rich_query_line(g: &Gen, rng: &mut Rng, rs: &RichSim) -> String {
    let base = if rng.chance(1, 3) { g.edge_query(rng, &rs.kv).map(|x| x.1) } else { None };
    let line = base.unwrap_or_else(|| g.rand_query(rng, &rs.kv));
    let mut t: Vec<String> = line.split_whitespace().map(|x| x.to_string()).collect();
    match t[0].as_str() {
        "cells" | "cap" | "txs" => {
            if rng.chance(1, 5) {
                t[3] = "part".into();
                // a needle from the middle of the args
                let mut q = ScriptSpec::parse(&t[2]);
                if q.args.len() >= 2 && rng.chance(1, 2) {
                    let a = rng.below(q.args.len() as u64) as usize;
                    let b = rng.range(a as u64 + 1, q.args.len() as u64) as usize;
                    q.args = q.args[a..b].to_vec();
                    t[2] = q.show();
                }
            }
            if t[0] == "txs" && rng.chance(1, 2) {
                // get_transactions with a full filter
                let tip = rs.chain.last().map(|b| b.number).unwrap_or(0);
                let mut f = g.rand_filter(rng, tip, false);
                if f.script.is_none() {
                    f.script = parse_opt_script(&t[7]);
                }
                if f.blk.is_none() {
                    f.blk = parse_range(&t[8]);
                }
                let head: Vec<String> = t[1..7].to_vec();
                return format!("rtxs {} {}", head.join(" "), f.show());
            }
            t.join(" ")
        }
        _ => t.join(" "),
    }
}

fn gen_case_rich(out: &mut Out, rng: &mut Rng, rs: &mut RichSim, steps: usize) {
    rs.reset();
    let start = *rng.pick(&[0u64, 0, 1, 7, 1000]);
    // custom filters in 2 cases of 5: the index then misses cells / whole blocks the chain spends later
    let (bf, cf) = if rng.chance(3, 5) { (0, 0) } else { *rng.pick(&[(0u64, 1u64), (0, 2), (0, 3), (1, 0), (1, 2), (1, 3)]) };
    out.begin_case(&format!("rich start={} block_filter={} cell_filter={}", start, bf, cf));
    if bf == 0 && cf == 0 {
        rs.exec(out, "config 100 1000");
    } else {
        rs.exec(out, &format!("config 100 1000 b{} c{}", bf, cf));
    }
    let mut g = Gen::new(script_pool(rng, true), true, 4);
    g.unresolvable_anywhere = true;
    g.start_number = start;
    for _ in 0..steps {
        let r = rng.below(100);
        if r < 42 || rs.chain.is_empty() {
            let b = g.gen_block(rng, &rs.kv_view());
            let args = format!("{} {} {}", b.number, b.id, b.txs.iter().map(|t| t.show()).collect::<Vec<_>>().join(" "));
            rs.exec(out, &format!("wf {}", args));
            rs.exec(out, &format!("append {}", args));
        } else if r < 60 {
            // the rich-indexer keeps no retention limit; the first indexed block is rolled back rarely
            let keep_first = if rng.chance(1, 10) { 0 } else { 1 };
            let k = rng.range(1, 4).min((rs.chain.len() as u64).saturating_sub(keep_first));
            if k > 0 {
                rs.n_reorg += 1;
            }
            for _ in 0..k {
                if let Some(b) = rs.chain.last() {
                    for t in b.txs.iter().skip(1) {
                        g.orphans.push(t.clone());
                    }
                }
                rs.exec(out, "rollback");
            }
        } else if r < 66 {
            rs.exec(out, "dump");
        } else {
            let line = rich_query_line(&g, rng, rs);
            rs.exec(out, &line);
        }
    }
    rs.exec(out, "dump");
    if rs.n_reorg > 0 && rs.n_unindexed_before_indexed > 0 && rs.n_queries_nonempty > 0 {
        out.nontrivial(format!("S:s{}f{}.{}r{}u{}g{}b{}", start.min(2), bf, cf, rs.n_reorg.min(5), rs.n_unindexed_before_indexed.min(4), rs.n_gc_shared_type.min(3), rs.chain.len()));
    }
}

impl RichSim {
    /// what the block generator reads of a `Sim`: the chain (the RocksDB sim may have stopped following)
    fn kv_view(&mut self) -> &Sim {
        if self.kv.chain.len() != self.chain.len() {
            self.kv.chain = self.chain.clone();
        }
        &self.kv
    }
}

pub fn run_rich(opts: &Opts, out: &mut Out, rng: &mut Rng, root: &std::path::Path) {
    // sqlx's migrator unpacks the migration files into a tempdir: keep it inside the scratch directory
    let tmp = root.join("tmp");
    std::fs::create_dir_all(&tmp).expect("mkdir");
    unsafe {
        std::env::set_var("TMPDIR", &tmp);
    }
    let mut rs = RichSim::new(root.to_path_buf());
    if let Some(p) = &opts.replay {
        for line in read_replay_ops(p) {
            let t: Vec<&str> = line.split_whitespace().collect();
            if t[0] == "case" {
                rs.reset();
                out.begin_case(&t[2..].join(" "));
            } else {
                rs.exec(out, &line);
            }
        }
    } else {
        let (cases, steps) = if opts.thorough() { (900 * opts.scale, 50) } else { (110 * opts.scale, 40) };
        for _ in 0..cases {
            gen_case_rich(out, rng, &mut rs, steps as usize);
        }
    }
    rs.close();
}

pub const RICH_RULE: &str = "rich stream: a case is non-trivial when it contains at least one reorg (rollback of >=1 block followed by other blocks), at least one transaction with an input the index does not know BEFORE an input it knows, and at least one query with a non-empty answer; fingerprint S:first block number class/block filter.cell filter/reorgs/transactions with an unindexed input before an indexed one/rollbacks that must keep a script referenced only as a type script/final chain length";
