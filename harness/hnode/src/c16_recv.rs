//! C16, stream `recv` — peer bytes through the REAL entry points of the sync and relay protocols:
//! `<Synchronizer as CKBProtocolHandler>::received` and `<Relayer as CKBProtocolHandler>::received`
//! (the functions tentacle calls with the decoded frame), on a real node (`Shared`, chain service,
//! tx-pool service, `SyncShared`) with a recording `CKBProtocolContext`.  Nothing of the handler is
//! re-stated: the gate at the top of `received`, `try_process`, `check_data()` and the per-message
//! `*Process::execute()` all run as in production; only the network context is a mock, and the
//! block-fetch timer is replaced by inserting the request into `InflightBlocks` by hand.
//!
//! Model (`Driver/C16.lean`, `Model/Compact.lean` `gateSync` / `gateRelay`):
//!   recv <sync|relay> <hex>  -> pass <item id> | too-many-fields | malformed
//! `pass` = the message went on to `process`; the other two are the bans issued by the gate itself
//! (recognised by their reason text; bans issued later by a handler have other reasons).
//!   peer <k>                 -> ok        the following messages come from the k-th peer of this case
//!                                         (k = 0 is the peer the case starts with; a new peer is connected on first use)
//!
//! Oracle (implementation alone):
//!   handler-panic     `received` panics
//!   tip-not-sent      the tip moved to a block whose hash is not the hash of a header this driver sent
//!                     in a CompactBlock / SendBlock message (the header whose PoW the handler checked)
//!   stored-body-forged  a block in the store does not satisfy its own header's commitments
//!                     (transactions root, proposals hash, extra hash), or a forged body delivered under
//!                     a valid header became retrievable under that header's hash
//!   valid-block-lost  (counted, not failing) a fully valid block sent through the relay / sync path did
//!                     not become the tip within the settle time
use crate::common::*;
use crate::node::*;
use ckb_network::bytes::Bytes as NBytes;
use ckb_network::{CKBProtocolHandler, PeerIndex, SupportProtocols};
use ckb_store::ChainStore;
use ckb_sync::{Relayer, SyncShared, Synchronizer};
use ckb_types::core::{BlockView, HeaderView, TransactionBuilder, TransactionView};
use ckb_types::packed::{self, Byte32, CellOutput};
use ckb_types::prelude::*;
use std::collections::HashSet;
use std::panic::{AssertUnwindSafe, catch_unwind};
use std::sync::Arc;

pub mod ctx {
    use ckb_network::{
        Behaviour, CKBProtocolContext, Error, Peer, PeerIndex, ProtocolId, TargetSession, async_trait, bytes::Bytes,
    };
    use std::future::Future;
    use std::pin::Pin;
    use std::sync::Mutex;
    use std::time::Duration;

    #[derive(Default)]
    pub struct Rec {
        pub sent: Vec<(ProtocolId, PeerIndex, Bytes)>,
        pub bans: Vec<(PeerIndex, String)>,
        pub disconnects: Vec<PeerIndex>,
        pub reports: usize,
    }

    /// total (never `unimplemented!`) recording context; usable from the chain-service threads too
    pub struct Ctx {
        pub proto: ProtocolId,
        pub rec: Mutex<Rec>,
        pub peers: Mutex<Vec<PeerIndex>>,
    }

    impl Ctx {
        pub fn new(proto: ProtocolId) -> Ctx {
            Ctx { proto, rec: Mutex::new(Rec::default()), peers: Mutex::new(vec![]) }
        }
        fn push(&self, proto: ProtocolId, peer: PeerIndex, data: Bytes) -> Result<(), Error> {
            self.rec.lock().unwrap_or_else(|e| e.into_inner()).sent.push((proto, peer, data));
            Ok(())
        }
        fn bcast(&self, proto: ProtocolId, target: TargetSession, data: Bytes) -> Result<(), Error> {
            match target {
                TargetSession::Single(p) => self.push(proto, p, data)?,
                TargetSession::Multi(it) => {
                    for p in it {
                        self.push(proto, p, data.clone())?;
                    }
                }
                TargetSession::Filter(mut f) => {
                    let peers = self.peers.lock().unwrap_or_else(|e| e.into_inner()).clone();
                    for p in peers {
                        if f(&p) {
                            self.push(proto, p, data.clone())?;
                        }
                    }
                }
                TargetSession::All => {
                    let peers = self.peers.lock().unwrap_or_else(|e| e.into_inner()).clone();
                    for p in peers {
                        self.push(proto, p, data.clone())?;
                    }
                }
            }
            Ok(())
        }
    }

    #[async_trait]
    impl CKBProtocolContext for Ctx {
        async fn set_notify(&self, _interval: Duration, _token: u64) -> Result<(), Error> {
            Ok(())
        }
        async fn remove_notify(&self, _token: u64) -> Result<(), Error> {
            Ok(())
        }
        async fn async_quick_send_message(&self, proto_id: ProtocolId, peer_index: PeerIndex, data: Bytes) -> Result<(), Error> {
            self.push(proto_id, peer_index, data)
        }
        async fn async_quick_send_message_to(&self, peer_index: PeerIndex, data: Bytes) -> Result<(), Error> {
            self.push(self.proto, peer_index, data)
        }
        async fn async_quick_filter_broadcast(&self, target: TargetSession, data: Bytes) -> Result<(), Error> {
            self.bcast(self.proto, target, data)
        }
        async fn async_future_task(&self, task: Pin<Box<dyn Future<Output = ()> + 'static + Send>>, _blocking: bool) -> Result<(), Error> {
            crate::node::runtime_handle().spawn(task);
            Ok(())
        }
        async fn async_send_message(&self, proto_id: ProtocolId, peer_index: PeerIndex, data: Bytes) -> Result<(), Error> {
            self.push(proto_id, peer_index, data)
        }
        async fn async_send_message_to(&self, peer_index: PeerIndex, data: Bytes) -> Result<(), Error> {
            self.push(self.proto, peer_index, data)
        }
        async fn async_filter_broadcast(&self, target: TargetSession, data: Bytes) -> Result<(), Error> {
            self.bcast(self.proto, target, data)
        }
        async fn async_filter_broadcast_with_proto(&self, proto_id: ProtocolId, target: TargetSession, data: Bytes) -> Result<(), Error> {
            self.bcast(proto_id, target, data)
        }
        async fn async_quick_filter_broadcast_with_proto(&self, proto_id: ProtocolId, target: TargetSession, data: Bytes) -> Result<(), Error> {
            self.bcast(proto_id, target, data)
        }
        async fn async_disconnect(&self, peer_index: PeerIndex, _message: &str) -> Result<(), Error> {
            self.rec.lock().unwrap_or_else(|e| e.into_inner()).disconnects.push(peer_index);
            Ok(())
        }
        fn quick_send_message(&self, proto_id: ProtocolId, peer_index: PeerIndex, data: Bytes) -> Result<(), Error> {
            self.push(proto_id, peer_index, data)
        }
        fn quick_send_message_to(&self, peer_index: PeerIndex, data: Bytes) -> Result<(), Error> {
            self.push(self.proto, peer_index, data)
        }
        fn quick_filter_broadcast(&self, target: TargetSession, data: Bytes) -> Result<(), Error> {
            self.bcast(self.proto, target, data)
        }
        fn quick_filter_broadcast_with_proto(&self, proto_id: ProtocolId, target: TargetSession, data: Bytes) -> Result<(), Error> {
            self.bcast(proto_id, target, data)
        }
        fn future_task(&self, task: Pin<Box<dyn Future<Output = ()> + 'static + Send>>, _blocking: bool) -> Result<(), Error> {
            crate::node::runtime_handle().spawn(task);
            Ok(())
        }
        fn send_message(&self, proto_id: ProtocolId, peer_index: PeerIndex, data: Bytes) -> Result<(), Error> {
            self.push(proto_id, peer_index, data)
        }
        fn send_message_to(&self, peer_index: PeerIndex, data: Bytes) -> Result<(), Error> {
            self.push(self.proto, peer_index, data)
        }
        fn filter_broadcast(&self, target: TargetSession, data: Bytes) -> Result<(), Error> {
            self.bcast(self.proto, target, data)
        }
        fn disconnect(&self, peer_index: PeerIndex, _message: &str) -> Result<(), Error> {
            self.rec.lock().unwrap_or_else(|e| e.into_inner()).disconnects.push(peer_index);
            Ok(())
        }
        fn get_peer(&self, _peer_index: PeerIndex) -> Option<Peer> {
            None
        }
        fn with_peer_mut(&self, _peer_index: PeerIndex, _f: Box<dyn FnOnce(&mut Peer)>) {}
        fn connected_peers(&self) -> Vec<PeerIndex> {
            self.peers.lock().unwrap_or_else(|e| e.into_inner()).clone()
        }
        fn full_relay_connected_peers(&self) -> Vec<PeerIndex> {
            self.peers.lock().unwrap_or_else(|e| e.into_inner()).clone()
        }
        fn report_peer(&self, _peer_index: PeerIndex, _behaviour: Behaviour) {
            self.rec.lock().unwrap_or_else(|e| e.into_inner()).reports += 1;
        }
        fn ban_peer(&self, peer_index: PeerIndex, _duration: Duration, reason: String) {
            self.rec.lock().unwrap_or_else(|e| e.into_inner()).bans.push((peer_index, reason));
        }
        fn protocol_id(&self) -> ProtocolId {
            self.proto
        }
    }
}

type Nc = Arc<dyn ckb_network::CKBProtocolContext + Sync>;

pub struct World {
    node: Node,
    shared: Arc<SyncShared>,
    sync: Synchronizer,
    relay: Relayer,
    rt: tokio::runtime::Runtime,
    sync_ctx: Arc<ctx::Ctx>,
    relay_ctx: Arc<ctx::Ctx>,
    builder: ChainBuilder,
    _time: ckb_systemtime::FaketimeGuard,
    /// hashes of the headers sent in CompactBlock / SendBlock messages
    sent_headers: HashSet<Byte32>,
    /// hashes under which a body that the header does not commit to was delivered
    forged: Vec<(Byte32, Byte32)>, // (header hash, witness-including root of the forged body)
    next_peer: usize,
    peer: PeerIndex,
    /// proposed, not yet committed transactions and the block number they were proposed in
    proposed: Vec<TransactionView>,
    salt: u64,
    base_dir: std::path::PathBuf,
    relay_cursor: usize,
    /// stored blocks already found consistent (blocks are immutable once stored)
    checked_ok: HashSet<Byte32>,
    /// the peers of the current case, in order of first use (`peer <k>`)
    case_peers: Vec<PeerIndex>,
}

/// where the last panic happened (set by the panic hook of `run`)
pub static LAST_PANIC_AT: std::sync::Mutex<String> = std::sync::Mutex::new(String::new());

pub fn panic_hook() {
    std::panic::set_hook(Box::new(|info| {
        if let (Some(l), Ok(mut g)) = (info.location(), LAST_PANIC_AT.lock()) {
            *g = format!("{}:{}", l.file(), l.line());
        }
    }));
}

fn sync_msg<T: Into<packed::SyncMessageUnion>>(x: T) -> Vec<u8> {
    packed::SyncMessage::new_builder().set(x).build().as_slice().to_vec()
}

fn relay_msg<T: Into<packed::RelayMessageUnion>>(x: T) -> Vec<u8> {
    packed::RelayMessage::new_builder().set(x).build().as_slice().to_vec()
}

fn body_root(b: &BlockView) -> Byte32 {
    b.calc_transactions_root()
}

impl World {
    pub fn new(out: &std::path::Path) -> World {
        let base = scratch_dir(out, "c16recv");
        let cfg = NodeCfg { with_pool: true, epoch_len: 1000, window: (2, 10), ..Default::default() };
        let consensus = make_consensus(&cfg);
        let node = Node::start(&base.join("node"), consensus.clone(), &cfg);
        let time = ckb_systemtime::faketime();
        time.set_faketime(50_000);
        let (_tx, rx) = ckb_channel::unbounded::<ckb_tx_pool::service::TxVerificationResult>();
        let shared = Arc::new(SyncShared::new(node.shared.clone(), Default::default(), rx));
        let sync = Synchronizer::new(node.controller().clone(), Arc::clone(&shared));
        let relay = Relayer::new(node.controller().clone(), Arc::clone(&shared));
        let rt = tokio::runtime::Builder::new_multi_thread().worker_threads(2).enable_all().build().unwrap();
        let mut builder = ChainBuilder::new(consensus.clone(), &base.join("builder"));
        // three blocks; the first proposes a handful of transactions that later blocks may commit
        let cells = genesis_cells(&consensus);
        let proposed: Vec<TransactionView> = (0..cells.len().min(12)).map(|i| spend_tx(&cells[i..i + 1], 1 + i % 2, 1000, i as u64)).collect();
        let mut tip = consensus.genesis_hash();
        for n in 1..=3u64 {
            let mut spec = BlockSpec { salt: n, ..Default::default() };
            if n == 1 {
                spec.proposals = proposed.iter().map(|t| t.proposal_short_id()).collect();
            }
            let b = builder.build(&tip, &spec);
            node.process(&b).expect("setup block");
            tip = b.hash();
        }
        let mut w = World {
            node,
            shared,
            sync,
            relay,
            rt,
            sync_ctx: Arc::new(ctx::Ctx::new(SupportProtocols::Sync.protocol_id())),
            relay_ctx: Arc::new(ctx::Ctx::new(SupportProtocols::RelayV3.protocol_id())),
            builder,
            _time: time,
            sent_headers: HashSet::new(),
            forged: vec![],
            next_peer: 1,
            peer: 0.into(),
            proposed,
            salt: 1000,
            base_dir: base,
            relay_cursor: 0,
            checked_ok: HashSet::new(),
            case_peers: vec![],
        };
        // leave IBD (`Relayer::received` ignores everything while in IBD)
        assert!(!w.shared.active_chain().is_initial_block_download(), "setup: still in IBD");
        w.new_peer();
        w
    }

    pub fn cleanup(&self) {
        let _ = std::fs::remove_dir_all(&self.base_dir);
    }

    /// a new case: a fresh peer, which is peer 0 of the case
    fn new_peer(&mut self) {
        self.connect_peer();
        self.case_peers = vec![self.peer];
    }

    /// `peer <k>`: the k-th peer of this case speaks next
    fn switch_peer(&mut self, out: &mut Out, k: usize) {
        assert!(k <= self.case_peers.len(), "peer {k}: peers are numbered in order of first use");
        if k == self.case_peers.len() {
            self.connect_peer();
            self.case_peers.push(self.peer);
        }
        self.peer = self.case_peers[k];
        out.op(&format!("peer {k}"), "ok");
    }

    fn connect_peer(&mut self) {
        self.peer = self.next_peer.into();
        self.next_peer += 1;
        self.sync_ctx.peers.lock().unwrap_or_else(|e| e.into_inner()).push(self.peer);
        self.relay_ctx.peers.lock().unwrap_or_else(|e| e.into_inner()).push(self.peer);
        let (snc, rnc): (Nc, Nc) = (self.sync_ctx.clone(), self.relay_ctx.clone());
        let p = self.peer;
        let sync = &mut self.sync;
        let relay = &mut self.relay;
        self.rt.block_on(async {
            CKBProtocolHandler::connected(sync, snc, p, "3").await;
            CKBProtocolHandler::connected(relay, rnc, p, "3").await;
        });
    }

    fn tip(&self) -> Byte32 {
        self.node.tip_hash()
    }

    /// next block on the current tip; `with_tx`: commit one of the proposed transactions when possible
    fn next_block(&mut self, with_tx: bool, n_proposals: usize) -> BlockView {
        self.salt += 1;
        let tip = self.tip();
        let mut spec = BlockSpec { salt: self.salt, ..Default::default() };
        if with_tx && !self.proposed.is_empty() {
            spec.txs = vec![self.proposed.remove(0)];
        }
        spec.proposals = (0..n_proposals).map(|i| packed::ProposalShortId::new([(self.salt % 251) as u8, i as u8, (i >> 8) as u8, 7, 7, 7, 7, 7, 7, 7])).collect();
        self.builder.build(&tip, &spec)
    }

    /// a transaction nobody proposed (a block containing it is invalid for the chain, fine for the relay layer)
    fn foreign_tx(&mut self) -> TransactionView {
        self.salt += 1;
        TransactionBuilder::default()
            .output(CellOutput::new_builder().capacity(100_000 + self.salt).build())
            .output_data(ckb_types::bytes::Bytes::from(vec![1u8; (self.salt % 5) as usize]))
            .witness(ckb_types::bytes::Bytes::from(self.salt.to_le_bytes().to_vec()))
            .build()
    }

    /// one message through the real `received`; writes the op line; returns what the handler sent back
    fn recv(&mut self, out: &mut Out, proto: &str, bytes: &[u8]) -> Vec<Vec<u8>> {
        let op = format!("recv {} {}", proto, hex(bytes));
        let is_sync = proto == "sync";
        if let Some(h) = carried_header_hash(proto, bytes) {
            self.sent_headers.insert(h);
        }
        let c = if is_sync { self.sync_ctx.clone() } else { self.relay_ctx.clone() };
        let (bans0, sent0) = {
            let r = c.rec.lock().unwrap_or_else(|e| e.into_inner());
            (r.bans.len(), r.sent.len())
        };
        let nc: Nc = c.clone();
        let peer = self.peer;
        let data = NBytes::from(bytes.to_vec());
        let sync = &mut self.sync;
        let relay = &mut self.relay;
        let rt = &self.rt;
        let r = catch_unwind(AssertUnwindSafe(|| {
            rt.block_on(async {
                if is_sync {
                    CKBProtocolHandler::received(sync, nc, peer, data).await
                } else {
                    CKBProtocolHandler::received(relay, nc, peer, data).await
                }
            })
        }));
        let (gate, sent, snap_len): (String, Vec<Vec<u8>>, usize) = {
            let rec = c.rec.lock().unwrap_or_else(|e| e.into_inner());
            let mut gate = None;
            for (p, reason) in &rec.bans[bans0..] {
                if *p != peer {
                    continue;
                }
                let norm: String = reason.split_whitespace().collect::<Vec<_>>().join(" ");
                if norm.contains("too many fields") {
                    gate = Some("too-many-fields".to_string());
                } else if norm == "send us a malformed message" {
                    gate = Some("malformed".to_string());
                } else {
                    // a ban decided by a handler: `<StatusCode>(<n>): context`
                    let code: String = norm.chars().take_while(|ch| ch.is_ascii_alphanumeric()).collect();
                    out.count(&format!("ban-{}", code));
                }
            }
            let id = if bytes.len() >= 4 { u32::from_le_bytes([bytes[0], bytes[1], bytes[2], bytes[3]]) } else { 0 };
            (gate.unwrap_or(format!("pass {}", id)), rec.sent[sent0..].iter().filter(|(_, p, _)| *p == peer).map(|(_, _, d)| d.to_vec()).collect(), rec.sent.len())
        };
        let ans = match r {
            Ok(()) => gate,
            Err(e) => {
                let msg = e.downcast_ref::<String>().cloned().or_else(|| e.downcast_ref::<&str>().map(|s| s.to_string())).unwrap_or_default();
                let at = LAST_PANIC_AT.lock().map(|g| g.clone()).unwrap_or_default();
                out.oracle_fail("handler-panic", &format!("{}::received panics ({}) at {} on {}", proto, msg, at, &hex(bytes)[..hex(bytes).len().min(400)]));
                "panic".to_string()
            }
        };
        out.count(&format!("{}-{}", proto, ans.split(' ').next().unwrap()));
        for r in &sent {
            let name = match (packed::SyncMessageReader::from_compatible_slice(r), packed::RelayMessageReader::from_compatible_slice(r)) {
                (Ok(m), _) if is_sync => m.to_enum().item_name().to_string(),
                (_, Ok(m)) if !is_sync => m.to_enum().item_name().to_string(),
                (Ok(m), _) => m.to_enum().item_name().to_string(),
                (_, Ok(m)) => m.to_enum().item_name().to_string(),
                _ => "undecodable".to_string(),
            };
            out.count(&format!("reply-{}", name));
        }
        out.op(&op, &ans);
        if !is_sync {
            self.relay_cursor = snap_len;
        }
        sent
    }

    /// wait until the asynchronous block pipeline has dealt with `hash` (or `ms` elapsed)
    fn settle(&self, hash: &Byte32, ms: u64) {
        use ckb_shared::block_status::BlockStatus;
        let t0 = std::time::Instant::now();
        loop {
            let st = self.shared.active_chain().get_block_status(hash);
            let done = st.contains(BlockStatus::BLOCK_VALID) || st == BlockStatus::BLOCK_INVALID || (st.contains(BlockStatus::BLOCK_STORED) && self.tip() == *hash);
            // BLOCK_RECEIVED is set synchronously when a handler hands a block to the chain service
            let in_pipeline = st.contains(BlockStatus::BLOCK_RECEIVED);
            let waited = t0.elapsed().as_millis() as u64;
            if done || waited > ms || (!in_pipeline && waited > 30) {
                return;
            }
            std::thread::sleep(std::time::Duration::from_millis(2));
        }
    }

    /// the store-level oracle, after every scenario
    fn check_store(&mut self, out: &mut Out, tip_before: &Byte32, what: &str) {
        let tip = self.tip();
        if tip != *tip_before && !self.sent_headers.contains(&tip) {
            out.oracle_fail("tip-not-sent", &format!("{what}: tip moved to {tip}, which is not the hash of any header sent to the handlers"));
        }
        // the tip and every block delivered so far under a header this driver sent: whatever of them is in
        // the store must be the block its header commits to
        let mut to_check: Vec<Byte32> = vec![tip.clone()];
        to_check.extend(self.sent_headers.iter().cloned());
        for h in to_check {
            if self.checked_ok.contains(&h) {
                continue;
            }
            if let Some(b) = self.node.store().get_block(&h) {
                // only blocks the node accepted count: fully verified, or on the main chain.  (A block that was
                // stored unverified and then deleted as invalid can still be read header-only through the
                // store's caches — `delete_block` does not evict them; that phantom is counted, not judged.)
                use ckb_shared::block_status::BlockStatus;
                let st = self.shared.active_chain().get_block_status(&h);
                let on_main = self.node.store().get_block_hash(b.number()).map(|x| x == h).unwrap_or(false);
                if !(st.contains(BlockStatus::BLOCK_VALID) || on_main) {
                    if st == BlockStatus::BLOCK_INVALID {
                        out.count("phantom-read-of-deleted-invalid-block");
                    }
                    continue;
                }
                let ok = b.calc_transactions_root() == b.transactions_root()
                    && b.calc_proposals_hash() == b.proposals_hash()
                    && b.calc_extra_hash().extra_hash() == b.extra_hash()
                    && b.data().header().calc_header_hash() == h;
                if !ok {
                    out.oracle_fail(
                        "stored-body-forged",
                        &format!(
                            "{what}: the stored block {h} (number {}) does not satisfy its header's commitments: tx-root {} proposals {} extra {} header-hash {} (stored header hashes to {}; {} txs, {} uncles, {} proposals, extension {:?}; status {:?}, main-chain {})",
                            b.number(),
                            b.calc_transactions_root() == b.transactions_root(),
                            b.calc_proposals_hash() == b.proposals_hash(),
                            b.calc_extra_hash().extra_hash() == b.extra_hash(),
                            b.data().header().calc_header_hash() == h,
                            b.data().header().calc_header_hash(),
                            b.transactions().len(),
                            b.uncles().data().len(),
                            b.data().proposals().len(),
                            b.extension().map(|e| e.len()),
                            self.shared.active_chain().get_block_status(&h),
                            self.node.store().get_block_hash(b.number()).map(|x| x == h).unwrap_or(false),
                        ),
                    );
                } else {
                    self.checked_ok.insert(h);
                }
            }
        }
        for (h, root) in self.forged.clone() {
            if let Some(b) = self.node.store().get_block(&h) {
                if body_root(&b) == root && !b.transactions().is_empty() {
                    out.oracle_fail("stored-body-forged", &format!("{what}: the forged body is stored under header hash {h}"));
                }
            }
        }
    }

    /// messages the relay handler sent to the current peer after `recv` returned (some replies are
    /// spawned on the async runtime): waits up to `ms` for the first one
    fn late_relay_replies(&mut self, out: &mut Out, ms: u64) -> Vec<Vec<u8>> {
        let t0 = std::time::Instant::now();
        loop {
            {
                let rec = self.relay_ctx.rec.lock().unwrap_or_else(|e| e.into_inner());
                if rec.sent.len() > self.relay_cursor {
                    let v: Vec<Vec<u8>> = rec.sent[self.relay_cursor..].iter().filter(|(_, p, _)| *p == self.peer).map(|(_, _, d)| d.to_vec()).collect();
                    self.relay_cursor = rec.sent.len();
                    if !v.is_empty() {
                        for r in &v {
                            if let Ok(m) = packed::RelayMessageReader::from_slice(r) {
                                out.count(&format!("reply-{}", m.to_enum().item_name()));
                            }
                        }
                        return v;
                    }
                }
            }
            if t0.elapsed().as_millis() as u64 > ms {
                return vec![];
            }
            std::thread::sleep(std::time::Duration::from_millis(2));
        }
    }

    fn request_block(&self, b: &BlockView) {
        self.shared.state().write_inflight_blocks().insert(self.peer, (b.number(), b.hash()).into());
    }

    fn headers_msg(hs: &[HeaderView]) -> Vec<u8> {
        sync_msg(packed::SendHeaders::new_builder().headers(packed::HeaderVec::new_builder().set(hs.iter().map(|h| h.data()).collect()).build()).build())
    }

    fn send_block_msg(b: &packed::Block) -> Vec<u8> {
        sync_msg(packed::SendBlock::new_builder().block(b.clone()).build())
    }
}

/// the hash of the header a CompactBlock / SendBlock message carries (the header whose PoW the handler checks)
fn carried_header_hash(proto: &str, bytes: &[u8]) -> Option<Byte32> {
    if proto == "relay" {
        packed::RelayMessageReader::from_compatible_slice(bytes).ok().and_then(|m| match m.to_enum() {
            packed::RelayMessageUnionReader::CompactBlock(cb) => Some(cb.header().to_entity().calc_header_hash()),
            _ => None,
        })
    } else {
        packed::SyncMessageReader::from_compatible_slice(bytes).ok().and_then(|m| match m.to_enum() {
            packed::SyncMessageUnionReader::SendBlock(sb) => Some(sb.block().header().to_entity().calc_header_hash()),
            _ => None,
        })
    }
}

fn index_tx(i: u32, t: &TransactionView) -> packed::IndexTransaction {
    packed::IndexTransaction::new_builder().index(i).transaction(t.data()).build()
}

/// a compact block with explicit parts (header and extension of `b`)
fn compact(b: &BlockView, prefilled: Vec<packed::IndexTransaction>, short_ids: Vec<packed::ProposalShortId>, uncles: Vec<Byte32>, proposals: Vec<packed::ProposalShortId>) -> packed::CompactBlock {
    let pre = packed::IndexTransactionVec::new_builder().set(prefilled).build();
    let sids = packed::ProposalShortIdVec::new_builder().set(short_ids).build();
    let us = packed::Byte32Vec::new_builder().set(uncles).build();
    let ps = packed::ProposalShortIdVec::new_builder().set(proposals).build();
    match b.data().extension() {
        Some(e) => packed::CompactBlockV1::new_builder().header(b.data().header()).short_ids(sids).prefilled_transactions(pre).uncles(us).proposals(ps).extension(e).build().as_v0(),
        None => packed::CompactBlock::new_builder().header(b.data().header()).short_ids(sids).prefilled_transactions(pre).uncles(us).proposals(ps).build(),
    }
}

/// append one more field (raw bytes) to a molecule table
fn table_with_extra_field(table: &[u8], extra: &[u8]) -> Vec<u8> {
    let total = u32::from_le_bytes(table[0..4].try_into().unwrap()) as usize;
    if total < 8 || table.len() != total {
        return table.to_vec();
    }
    let first = u32::from_le_bytes(table[4..8].try_into().unwrap()) as usize;
    let n = first / 4 - 1;
    let mut offs: Vec<u32> = (0..n).map(|i| u32::from_le_bytes(table[4 + 4 * i..8 + 4 * i].try_into().unwrap()) + 4).collect();
    offs.push(total as u32 + 4);
    let mut v = ((total + 4 + extra.len()) as u32).to_le_bytes().to_vec();
    for o in offs {
        v.extend_from_slice(&o.to_le_bytes());
    }
    v.extend_from_slice(&table[first..]);
    v.extend_from_slice(extra);
    v
}

fn mutate(rng: &mut Rng, m: &[u8]) -> Vec<u8> {
    let mut v = m.to_vec();
    match rng.below(6) {
        0 if v.len() > 1 => {
            let k = rng.range(0, v.len() as u64 - 1) as usize;
            v.truncate(k);
        }
        1 if !v.is_empty() => {
            let i = rng.below(v.len() as u64) as usize;
            v[i] ^= 1 << rng.below(8);
        }
        2 if v.len() >= 8 => {
            // the union's item id
            v[0] = rng.below(12) as u8;
        }
        3 if v.len() >= 8 => {
            // total size field of the outer table
            let i = 4 + rng.below(4) as usize;
            v[i] = v[i].wrapping_add(rng.range(1, 5) as u8);
        }
        4 if v.len() > 4 => {
            // one more field on the outer table (compatible-mode territory)
            let t = table_with_extra_field(&v[4..], &[0, 0, 0, 0]);
            v.truncate(4);
            v.extend_from_slice(&t);
        }
        _ => v.extend_from_slice(&[rng.next() as u8]),
    }
    v
}

// ------------------------------------------------------------------------------------------------
// scenarios

fn sc_compact_block(w: &mut World, out: &mut Out, rng: &mut Rng, forced: Option<u64>) {
    let tip0 = w.tip();
    let variant = forced.unwrap_or_else(|| rng.below(16));
    let with_tx = rng.chance(1, 2);
    let n_props = *rng.pick(&[0usize, 0, 1, 3]);
    let b = w.next_block(with_tx, n_props);
    let txs = b.transactions();
    let all: HashSet<usize> = (0..txs.len()).collect();
    let label = format!("compact-v{variant}");
    out.begin_case(&label);
    w.sent_headers.insert(b.hash());
    let f1 = w.foreign_tx();
    let f2 = w.foreign_tx();
    let proposals: Vec<packed::ProposalShortId> = b.data().proposals().into_iter().collect();
    let cb: packed::CompactBlock = match variant {
        // consistent: everything prefilled / the non-cellbase transaction by short id
        0 | 1 => packed::CompactBlock::build_from_block(&b, &all),
        2 | 3 => packed::CompactBlock::build_from_block(&b, &HashSet::new()),
        // prefilled index rule: equal neighbours, unsorted, out of range, u32::MAX, first not 0, none
        4 => compact(&b, vec![index_tx(0, &txs[0]), index_tx(0, &f1)], vec![], vec![], proposals.clone()),
        5 => compact(&b, vec![index_tx(0, &txs[0]), index_tx(1, &f1), index_tx(1, &f2)], vec![f1.proposal_short_id()], vec![], proposals.clone()),
        6 => compact(&b, vec![index_tx(0, &txs[0]), index_tx(2, &f1), index_tx(1, &f2)], vec![], vec![], proposals.clone()),
        7 => compact(&b, vec![index_tx(0, &txs[0]), index_tx(*rng.pick(&[2u32, 3, 1000, u32::MAX - 1, u32::MAX]), &f1)], if rng.chance(1, 2) { vec![] } else { vec![f2.proposal_short_id()] }, vec![], proposals.clone()),
        8 => compact(&b, vec![index_tx(*rng.pick(&[1u32, 2, u32::MAX]), &txs[0])], vec![f1.proposal_short_id()], vec![], proposals.clone()),
        9 => compact(&b, vec![], if rng.chance(1, 2) { vec![] } else { vec![txs[0].proposal_short_id()] }, vec![], proposals.clone()),
        // short ids: duplicates, intersection with a prefilled transaction
        10 => compact(&b, vec![index_tx(0, &txs[0])], vec![f1.proposal_short_id(), f1.proposal_short_id()], vec![], proposals.clone()),
        11 => compact(&b, vec![index_tx(0, &txs[0]), index_tx(1, &f1)], vec![f1.proposal_short_id()], vec![], proposals.clone()),
        // uncles / proposals lists not matching the header, or above the limits
        12 => {
            let n = *rng.pick(&[1usize, 2, 3]).max(&1);
            let n = if rng.chance(1, 2) { w.node.consensus.max_uncles_num() + 1 } else { n };
            compact(&b, vec![index_tx(0, &txs[0])], vec![], (0..n).map(|i| Byte32::from_slice(&[i as u8 + 1; 32]).unwrap()).collect(), proposals.clone())
        }
        13 => {
            let n = if rng.chance(1, 3) { w.node.consensus.max_block_proposals_limit() as usize + 1 } else { rng.range(1, 4) as usize };
            compact(&b, (0..txs.len()).map(|i| index_tx(i as u32, &txs[i])).collect(), vec![], vec![], (0..n).map(|i| packed::ProposalShortId::new([9, 9, 9, i as u8, (i >> 8) as u8, 0, 0, 0, 0, 1])).collect())
        }
        // a foreign transaction in place of / next to the committed ones (root mismatch: all prefilled)
        14 => compact(&b, vec![index_tx(0, &txs[0]), index_tx(1, &f1)], vec![], vec![], proposals.clone()),
        // short id of a transaction the node does not have, then BlockTransactions
        _ => compact(&b, vec![index_tx(0, &txs[0])], vec![f1.proposal_short_id()], vec![], proposals.clone()),
    };
    let msg = relay_msg(cb.clone());
    let mut replies = w.recv(out, "relay", &msg);
    // `missing_or_collided_post_process` sends GetBlockTransactions from a spawned task
    replies.extend(w.late_relay_replies(out, if matches!(variant, 2 | 3 | 15) && (with_tx || variant == 15) { 400 } else { 30 }));
    let mut faithful = true;
    // the handler asks for what it misses: answer it
    for r in replies {
        if let Ok(m) = packed::RelayMessageReader::from_slice(&r) {
            if let packed::RelayMessageUnionReader::GetBlockTransactions(g) = m.to_enum() {
                out.count("asked-GetBlockTransactions");
                let idx: Vec<u32> = g.indexes().iter().map(|i| Into::<u32>::into(i)).collect();
                let uidx: Vec<u32> = g.uncle_indexes().iter().map(|i| Into::<u32>::into(i)).collect();
                let mut answer_txs: Vec<packed::Transaction> = idx.iter().filter_map(|i| txs.get(*i as usize).map(|t| t.data())).collect();
                let mut answer_uncles: Vec<packed::UncleBlock> = uidx.iter().map(|_| packed::UncleBlock::new_builder().header(b.data().header()).build()).collect();
                match rng.below(9) {
                    0 => {
                        answer_txs.push(f2.data());
                        faithful = false;
                    }
                    1 if !answer_txs.is_empty() => {
                        answer_txs[0] = f2.data();
                        faithful = false;
                    }
                    2 if !answer_txs.is_empty() => {
                        answer_txs.pop();
                        faithful = false;
                    }
                    3 => {
                        answer_uncles.push(packed::UncleBlock::default());
                        faithful = false;
                    }
                    4 if !answer_uncles.is_empty() => {
                        answer_uncles.pop();
                        faithful = false;
                    }
                    _ => {}
                }
                if variant >= 15 && answer_txs.is_empty() {
                    answer_txs.push(f1.data());
                }
                let bt = packed::BlockTransactions::new_builder()
                    .block_hash(g.block_hash().to_entity())
                    .transactions(packed::TransactionVec::new_builder().set(answer_txs).build())
                    .uncles(packed::UncleBlockVec::new_builder().set(answer_uncles).build())
                    .build();
                w.recv(out, "relay", &relay_msg(bt));
            }
        }
    }
    let expect_accept = matches!(variant, 0..=3) && faithful;
    w.settle(&b.hash(), if expect_accept { 4000 } else { 60 });
    if expect_accept && w.tip() != b.hash() {
        out.count("valid-block-lost");
    }
    if !expect_accept && w.tip() == b.hash() {
        out.count("tampered-compact-still-yields-committed-block");
    }
    w.check_store(out, &tip0, &label);
    out.nontrivial(format!("{label}-{}", w.tip() == b.hash()));
}

fn sc_send_block(w: &mut World, out: &mut Out, rng: &mut Rng, forced: Option<u64>) {
    let tip0 = w.tip();
    let variant = forced.unwrap_or_else(|| rng.below(8));
    let b = w.next_block(rng.chance(1, 2), *rng.pick(&[0usize, 2]));
    let label = format!("sendblock-v{variant}");
    out.begin_case(&label);
    w.sent_headers.insert(b.hash());
    // headers first (real `HeadersProcess`), then the block as if requested
    w.recv(out, "sync", &World::headers_msg(&[b.header()]));
    if variant != 7 {
        w.request_block(&b);
    }
    let f1 = w.foreign_tx();
    let data = b.data();
    let forged: Option<packed::Block> = match variant {
        0 | 1 | 7 => None,
        // same header, other body
        2 => Some(data.clone().as_builder().transactions(packed::TransactionVec::new_builder().set(vec![data.transactions().get(0).unwrap(), f1.data()]).build()).build()),
        3 => Some(data.clone().as_builder().proposals(packed::ProposalShortIdVec::new_builder().set(vec![packed::ProposalShortId::new([5; 10])]).build()).build()),
        4 => Some(data.clone().as_builder().uncles(packed::UncleBlockVec::new_builder().set(vec![packed::UncleBlock::new_builder().header(b.data().header()).build()]).build()).build()),
        5 => Some(data.clone().as_builder().transactions(packed::TransactionVec::default()).build()),
        // check_data: outputs / outputs_data count mismatch in a transaction
        _ => {
            let raw = f1.data().raw().as_builder().outputs_data(packed::BytesVec::default()).build();
            let bad = f1.data().as_builder().raw(raw).build();
            Some(data.clone().as_builder().transactions(packed::TransactionVec::new_builder().set(vec![data.transactions().get(0).unwrap(), bad]).build()).build())
        }
    };
    let to_send: packed::Block = match &forged {
        Some(fb) => {
            // `as_builder` drops the extension: put the original one back so that only the intended part differs
            let fb = match data.extension() {
                Some(e) => packed::BlockV1::new_builder().header(fb.header()).uncles(fb.uncles()).transactions(fb.transactions()).proposals(fb.proposals()).extension(e).build().as_v0(),
                None => fb.clone(),
            };
            let view = fb.clone().into_view_without_reset_header();
            if body_root(&view) != b.transactions_root() {
                w.forged.push((b.hash(), body_root(&view)));
            }
            fb
        }
        None => data.clone(),
    };
    w.recv(out, "sync", &World::send_block_msg(&to_send));
    let expect_accept = matches!(variant, 0 | 1);
    w.settle(&b.hash(), if expect_accept { 4000 } else { 300 });
    if expect_accept && w.tip() != b.hash() {
        out.count("valid-block-lost");
    }
    w.check_store(out, &tip0, &label);
    out.nontrivial(format!("{label}-{}", w.tip() == b.hash()));
}

fn sc_sync_lists(w: &mut World, out: &mut Out, rng: &mut Rng, heavy: bool, forced: Option<u64>) {
    use ckb_constant::sync::{MAX_BLOCKS_IN_TRANSIT_PER_PEER, MAX_HEADERS_LEN, MAX_LOCATOR_SIZE};
    let tip0 = w.tip();
    let variant = forced.unwrap_or_else(|| rng.below(9));
    let label = format!("synclists-v{variant}");
    out.begin_case(&label);
    let tiph = w.node.tip();
    let h32 = |i: usize| Byte32::from_slice(&[(i % 251) as u8 + 1; 32]).unwrap();
    match variant {
        0 => {
            // GetHeaders: locator sizes around MAX_LOCATOR_SIZE, known and unknown hashes
            let n = *rng.pick(&[0usize, 1, 2, MAX_LOCATOR_SIZE - 1, MAX_LOCATOR_SIZE, MAX_LOCATOR_SIZE + 1]);
            let mut loc: Vec<Byte32> = (0..n).map(h32).collect();
            if n > 0 && rng.chance(1, 2) {
                loc[0] = tiph.hash();
            }
            if n > 1 && rng.chance(1, 2) {
                loc[n - 1] = w.node.consensus.genesis_hash();
            }
            let m = packed::GetHeaders::new_builder().block_locator_hashes(packed::Byte32Vec::new_builder().set(loc).build()).hash_stop(if rng.chance(1, 2) { Byte32::zero() } else { tiph.hash() }).build();
            w.recv(out, "sync", &sync_msg(m));
        }
        1 => {
            // GetBlocks: counts around the limit, duplicates, known / unknown
            let n = *rng.pick(&[0usize, 1, 2, 16, MAX_BLOCKS_IN_TRANSIT_PER_PEER, MAX_BLOCKS_IN_TRANSIT_PER_PEER + 1]);
            let mut hs: Vec<Byte32> = (0..n).map(h32).collect();
            if n > 1 {
                hs[0] = tiph.hash();
                hs[1] = if rng.chance(1, 2) { tiph.hash() } else { tiph.parent_hash() };
            }
            let m = packed::GetBlocks::new_builder().block_hashes(packed::Byte32Vec::new_builder().set(hs).build()).build();
            w.recv(out, "sync", &sync_msg(m));
        }
        2 => {
            // SendHeaders: empty, duplicated, not continuous, reversed
            let b1 = w.next_block(false, 0);
            let hs: Vec<HeaderView> = match rng.below(4) {
                0 => vec![],
                1 => vec![b1.header(), b1.header()],
                2 => vec![b1.header(), tiph.clone()],
                _ => vec![tiph.clone(), b1.header()],
            };
            w.recv(out, "sync", &World::headers_msg(&hs));
        }
        3 => {
            // SendHeaders: header fields tampered (number, epoch, parent, timestamp, target)
            let b1 = w.next_block(false, 0);
            let raw = b1.data().header().raw();
            let raw = match rng.below(6) {
                0 => raw.as_builder().number(b1.number() + 1).build(),
                1 => raw.as_builder().epoch(0u64).build(),
                2 => raw.as_builder().parent_hash(h32(7)).build(),
                3 => raw.as_builder().timestamp(u64::MAX).build(),
                4 => raw.as_builder().compact_target(0u32).build(),
                _ => raw.as_builder().epoch(u64::MAX).build(),
            };
            let h = b1.data().header().as_builder().raw(raw).build().into_view();
            w.recv(out, "sync", &World::headers_msg(&[h]));
        }
        4 if heavy => {
            // SendHeaders above MAX_HEADERS_LEN
            let b1 = w.next_block(false, 0);
            let hs: Vec<HeaderView> = (0..MAX_HEADERS_LEN + 1).map(|_| b1.header()).collect();
            w.recv(out, "sync", &World::headers_msg(&hs));
        }
        5 => {
            // SendBlock nobody asked for / of an unknown parent / the genesis block / the tip again
            let blk = match rng.below(3) {
                0 => w.node.store().get_block(&tiph.hash()).unwrap().data(),
                1 => w.node.store().get_block(&w.node.consensus.genesis_hash()).unwrap().data(),
                _ => w.next_block(false, 0).data(),
            };
            w.recv(out, "sync", &World::send_block_msg(&blk));
        }
        6 => {
            // SendBlock whose extension slot is not a `Bytes` / is too long / two extra fields (F16 territory)
            let b1 = w.next_block(false, 0);
            w.sent_headers.insert(b1.hash());
            let plain = packed::Block::new_builder().header(b1.data().header()).uncles(b1.data().uncles()).transactions(b1.data().transactions()).proposals(b1.data().proposals()).build();
            let extra: Vec<u8> = match rng.below(5) {
                0 => vec![],
                1 => vec![1, 0, 0],
                2 => vec![9, 0, 0, 0, 1, 2, 3],
                3 => {
                    let mut v = (97u32).to_le_bytes().to_vec();
                    v.extend_from_slice(&[7u8; 97]);
                    v
                }
                _ => {
                    let mut v = (32u32).to_le_bytes().to_vec();
                    v.extend_from_slice(&[7u8; 32]);
                    v
                }
            };
            let mut blk = table_with_extra_field(plain.as_slice(), &extra);
            if rng.chance(1, 4) {
                blk = table_with_extra_field(&blk, &[0, 0, 0, 0]);
            }
            // SendBlock { block } as a one-field table around the raw block bytes
            let mut sb = ((4 + 4 + blk.len()) as u32).to_le_bytes().to_vec();
            sb.extend_from_slice(&8u32.to_le_bytes());
            sb.extend_from_slice(&blk);
            let mut m = 3u32.to_le_bytes().to_vec(); // SyncMessage item id of SendBlock
            m.extend_from_slice(&sb);
            w.recv(out, "sync", &World::headers_msg(&[b1.header()]));
            w.request_block(&b1);
            w.recv(out, "sync", &m);
            w.settle(&b1.hash(), 300);
        }
        7 => {
            let m = packed::InIBD::new_builder().build();
            w.recv(out, "sync", &sync_msg(m));
        }
        _ => {
            // byte-level mutations of a valid message
            let b1 = w.next_block(true, 1);
            // every sync message type as a base
            let base = match rng.below(5) {
                0 => World::headers_msg(&[b1.header()]),
                1 => World::send_block_msg(&b1.data()),
                2 => sync_msg(packed::GetBlocks::new_builder().block_hashes(packed::Byte32Vec::new_builder().set(vec![b1.hash()]).build()).build()),
                3 => sync_msg(packed::GetHeaders::new_builder().block_locator_hashes(packed::Byte32Vec::new_builder().set(vec![tiph.hash(), w.node.consensus.genesis_hash()]).build()).hash_stop(Byte32::zero()).build()),
                _ => sync_msg(packed::InIBD::new_builder().build()),
            };
            for _ in 0..6 {
                let m = mutate(rng, &base);
                w.recv(out, "sync", &m);
            }
        }
    }
    std::thread::sleep(std::time::Duration::from_millis(5));
    w.check_store(out, &tip0, &label);
    out.nontrivial(label);
}

fn sc_relay_lists(w: &mut World, out: &mut Out, rng: &mut Rng, heavy: bool, forced: Option<u64>) {
    use ckb_constant::sync::MAX_RELAY_TXS_NUM_PER_BATCH;
    let tip0 = w.tip();
    let variant = forced.unwrap_or_else(|| rng.below(8));
    let label = format!("relaylists-v{variant}");
    out.begin_case(&label);
    let tiph = w.node.tip();
    let u32s = |v: &[u32]| packed::Uint32Vec::new_builder().set(v.iter().map(|x| Into::<packed::Uint32>::into(*x)).collect()).build();
    match variant {
        0 => {
            // GetBlockTransactions on a stored block: duplicate, unsorted, out-of-range, u32::MAX indexes
            let idx: Vec<u32> = match rng.below(5) {
                0 => vec![],
                1 => vec![0, 0, 0],
                2 => vec![5, 1, 0],
                3 => vec![u32::MAX, u32::MAX - 1, 1 << 31],
                _ => vec![0, 1, 2, 3],
            };
            let uidx: Vec<u32> = match rng.below(4) {
                0 => vec![],
                1 => vec![0, 0],
                2 => vec![u32::MAX],
                _ => (0..w.node.consensus.max_uncles_num() as u32 + 1).collect(),
            };
            let h = if rng.chance(3, 4) { tiph.hash() } else { Byte32::zero() };
            let m = packed::GetBlockTransactions::new_builder().block_hash(h).indexes(u32s(&idx)).uncle_indexes(u32s(&uidx)).build();
            w.recv(out, "relay", &relay_msg(m));
        }
        1 if heavy => {
            let idx: Vec<u32> = (0..MAX_RELAY_TXS_NUM_PER_BATCH as u32 + 1).collect();
            let m = packed::GetBlockTransactions::new_builder().block_hash(tiph.hash()).indexes(u32s(&idx)).build();
            w.recv(out, "relay", &relay_msg(m));
        }
        2 => {
            // BlockTransactions nobody is waiting for / for the tip
            let f = w.foreign_tx();
            let m = packed::BlockTransactions::new_builder().block_hash(if rng.chance(1, 2) { tiph.hash() } else { Byte32::zero() }).transactions(packed::TransactionVec::new_builder().set(vec![f.data()]).build()).build();
            w.recv(out, "relay", &relay_msg(m));
        }
        3 => {
            // BlockProposal: none, duplicates, not asked for, malformed transaction (check_data)
            let f = w.foreign_tx();
            let raw = f.data().raw().as_builder().outputs_data(packed::BytesVec::default()).build();
            let bad = f.data().as_builder().raw(raw).build();
            let txs: Vec<packed::Transaction> = match rng.below(4) {
                0 => vec![],
                1 => vec![f.data(), f.data()],
                2 => vec![bad],
                _ => vec![f.data()],
            };
            let m = packed::BlockProposal::new_builder().transactions(packed::TransactionVec::new_builder().set(txs).build()).build();
            w.recv(out, "relay", &relay_msg(m));
        }
        4 => {
            // GetBlockProposal: counts around the proposal limit, unknown block
            let lim = w.node.consensus.max_block_proposals_limit() as usize;
            let n = *rng.pick(&[0usize, 1, 2, lim, lim + 1]);
            let ids: Vec<packed::ProposalShortId> = (0..n).map(|i| packed::ProposalShortId::new([i as u8, (i >> 8) as u8, 1, 1, 1, 1, 1, 1, 1, 1])).collect();
            let m = packed::GetBlockProposal::new_builder().block_hash(if rng.chance(1, 2) { tiph.hash() } else { Byte32::zero() }).proposals(packed::ProposalShortIdVec::new_builder().set(ids).build()).build();
            w.recv(out, "relay", &relay_msg(m));
        }
        5 => {
            // RelayTransactions / hashes / GetRelayTransactions
            let f = w.foreign_tx();
            let rt = packed::RelayTransaction::new_builder().cycles(*rng.pick(&[0u64, 1, u64::MAX])).transaction(f.data()).build();
            let m1 = packed::RelayTransactions::new_builder().transactions(packed::RelayTransactionVec::new_builder().set(vec![rt.clone(), rt]).build()).build();
            w.recv(out, "relay", &relay_msg(m1));
            let hashes: Vec<Byte32> = (0..rng.range(0, 4)).map(|i| Byte32::from_slice(&[i as u8 + 3; 32]).unwrap()).collect();
            let m2 = packed::RelayTransactionHashes::new_builder().tx_hashes(packed::Byte32Vec::new_builder().set(hashes.clone()).build()).build();
            w.recv(out, "relay", &relay_msg(m2));
            let m3 = packed::GetRelayTransactions::new_builder().tx_hashes(packed::Byte32Vec::new_builder().set(hashes).build()).build();
            w.recv(out, "relay", &relay_msg(m3));
        }
        6 => {
            // CompactBlock with a malformed / over-long / doubled extension slot
            let b1 = w.next_block(false, 0);
            w.sent_headers.insert(b1.hash());
            let cb = packed::CompactBlock::new_builder()
                .header(b1.data().header())
                .prefilled_transactions(packed::IndexTransactionVec::new_builder().set(vec![index_tx(0, &b1.transactions()[0])]).build())
                .build();
            let extra: Vec<u8> = match rng.below(4) {
                0 => vec![],
                1 => vec![2, 0],
                2 => vec![200, 0, 0, 0, 1],
                _ => {
                    let mut v = (32u32).to_le_bytes().to_vec();
                    v.extend_from_slice(&[3u8; 32]);
                    v
                }
            };
            let mut t = table_with_extra_field(cb.as_slice(), &extra);
            if rng.chance(1, 4) {
                t = table_with_extra_field(&t, &[0, 0, 0, 0]);
            }
            let mut m = 0u32.to_le_bytes().to_vec(); // RelayMessage item id of CompactBlock
            m.extend_from_slice(&t);
            w.recv(out, "relay", &m);
            w.settle(&b1.hash(), 100);
        }
        _ => {
            let b1 = w.next_block(true, 1);
            // every relay message type as a base
            let f = w.foreign_tx();
            let h1 = Byte32::from_slice(&[0x31u8; 32]).unwrap();
            let base = match rng.below(8) {
                0 => relay_msg(packed::CompactBlock::build_from_block(&b1, &HashSet::new())),
                1 => relay_msg(packed::GetBlockTransactions::new_builder().block_hash(b1.hash()).indexes(u32s(&[1, 2])).uncle_indexes(u32s(&[0])).build()),
                2 => relay_msg(packed::BlockTransactions::new_builder().block_hash(b1.hash()).transactions(packed::TransactionVec::new_builder().set(vec![b1.transactions()[0].data()]).build()).uncles(packed::UncleBlockVec::new_builder().set(vec![packed::UncleBlock::new_builder().header(b1.data().header()).build()]).build()).build()),
                3 => relay_msg(packed::RelayTransactions::new_builder().transactions(packed::RelayTransactionVec::new_builder().set(vec![packed::RelayTransaction::new_builder().cycles(7u64).transaction(f.data()).build()]).build()).build()),
                4 => relay_msg(packed::RelayTransactionHashes::new_builder().tx_hashes(packed::Byte32Vec::new_builder().set(vec![h1.clone(), f.hash()]).build()).build()),
                5 => relay_msg(packed::GetRelayTransactions::new_builder().tx_hashes(packed::Byte32Vec::new_builder().set(vec![h1.clone()]).build()).build()),
                6 => relay_msg(packed::GetBlockProposal::new_builder().block_hash(tiph.hash()).proposals(packed::ProposalShortIdVec::new_builder().set(vec![f.proposal_short_id()]).build()).build()),
                _ => relay_msg(packed::BlockProposal::new_builder().transactions(packed::TransactionVec::new_builder().set(vec![f.data()]).build()).build()),
            };
            for _ in 0..6 {
                let m = mutate(rng, &base);
                w.recv(out, "relay", &m);
            }
        }
    }
    std::thread::sleep(std::time::Duration::from_millis(5));
    w.check_store(out, &tip0, &label);
    out.nontrivial(label);
}

/// One peer's compact variant of a block: which positions it prefills, how its short-id and uncle lists
/// deviate from the block, and the body it has in mind (what it answers a GetBlockTransactions with).
struct Variant {
    cb: packed::CompactBlock,
    /// the transaction this peer would send for block position `i`
    layout: Vec<TransactionView>,
    /// the uncle this peer would send for uncle index `i`
    uncle_blocks: Vec<packed::UncleBlock>,
}

/// Several peers announce the SAME header with different compact blocks, then answer the
/// GetBlockTransactions they were sent — faithfully (relative to their own variant) or not.  The block has
/// 0..=3 non-cellbase transactions the node does not know and 0..=2 real uncles (siblings of the tip), some
/// of which the node may already have stored.  `forced`: 0 = one peer, one unknown uncle, answered with no
/// uncle at all; 1 = a first peer with a shorter variant, then an honest peer with the full one.
fn sc_pending(w: &mut World, out: &mut Out, rng: &mut Rng, forced: Option<u64>) {
    let tip0 = w.tip();
    let label = match forced {
        Some(v) => format!("pending-f{v}"),
        None => "pending".to_string(),
    };
    out.begin_case(&label);
    let (n_tx, n_uncles, n_peers): (usize, usize, usize) = match forced {
        Some(0) => (0, 1, 1),
        Some(1) => (2, 0, 2),
        Some(2) => (1, 2, 1),
        Some(3) => (2, 1, 3),
        _ => (rng.below(4) as usize, *rng.pick(&[0usize, 0, 1, 2, 2]), *rng.pick(&[1usize, 2, 2, 3])),
    };
    // real uncles: siblings of the tip
    let tiph = w.node.tip();
    let mut uncle_views: Vec<BlockView> = vec![];
    for _ in 0..n_uncles {
        w.salt += 1;
        let u = w.builder.build(&tiph.parent_hash(), &BlockSpec { salt: 500_000 + w.salt, ..Default::default() });
        uncle_views.push(u);
    }
    w.salt += 1;
    let b0 = w.builder.build(&tip0, &BlockSpec { salt: w.salt, uncles: uncle_views.iter().map(|u| u.as_uncle()).collect(), ..Default::default() });
    // the body: cellbase + foreign transactions under a header that commits to them (valid for the relay layer;
    // the chain rejects it later unless n_tx == 0)
    let foreign: Vec<TransactionView> = (0..n_tx).map(|_| w.foreign_tx()).collect();
    let b: BlockView = if n_tx == 0 { b0.clone() } else { b0.as_advanced_builder().transactions(foreign.clone()).build() };
    let txs: Vec<TransactionView> = b.transactions();
    w.sent_headers.insert(b.hash());
    // some uncles are already known to the node (stored side blocks): reconstruct_block takes them from the store
    let mut stored_uncle = vec![false; n_uncles];
    if forced.is_none() {
        for (i, u) in uncle_views.iter().enumerate() {
            if rng.chance(1, 3) {
                let _ = w.node.process(u);
                stored_uncle[i] = true;
                out.count("pending-uncle-stored");
            }
        }
    }
    let uncle_hashes: Vec<Byte32> = uncle_views.iter().map(|u| u.hash()).collect();
    let proposals: Vec<packed::ProposalShortId> = b.data().proposals().into_iter().collect();
    // the variants
    let mut variants: Vec<Variant> = vec![];
    for p in 0..n_peers {
        let honest = match forced {
            Some(1) => p == 1,
            Some(_) => true,
            None => rng.chance(1, 2),
        };
        let mut prefilled_pos: Vec<usize> = vec![0];
        for i in 1..txs.len() {
            if rng.chance(1, 4) && forced.is_none() {
                prefilled_pos.push(i);
            }
        }
        let mut layout: Vec<TransactionView> = txs.clone();
        let mut sids: Vec<packed::ProposalShortId> = (0..txs.len()).filter(|i| !prefilled_pos.contains(i)).map(|i| txs[i].proposal_short_id()).collect();
        let mut uncles = uncle_hashes.clone();
        let mut uncle_blocks: Vec<packed::UncleBlock> = uncle_views.iter().map(|u| u.as_uncle().data()).collect();
        if !honest {
            let how = if forced == Some(1) { 0 } else { rng.below(6) };
            match how {
                // a shorter short-id list ending in a transaction nobody has (only the cellbase prefilled)
                0 => {
                    let keep = if forced == Some(1) { 0 } else { rng.below(txs.len() as u64) as usize };
                    let f = w.foreign_tx();
                    prefilled_pos = vec![0];
                    sids = txs[1..1 + keep].iter().map(|t| t.proposal_short_id()).collect();
                    sids.push(f.proposal_short_id());
                    layout = txs[..1 + keep].to_vec();
                    layout.push(f);
                }
                // a longer list: extra unknown transactions at the end
                1 => {
                    for _ in 0..rng.range(1, 3) {
                        let f = w.foreign_tx();
                        sids.push(f.proposal_short_id());
                        layout.push(f);
                    }
                }
                // fewer uncles
                2 if !uncles.is_empty() => {
                    uncles.pop();
                    uncle_blocks.pop();
                }
                // one more / other uncles (nobody knows them)
                3 if uncles.len() < 2 => {
                    let h = b0.header();
                    uncles.push(h.hash());
                    uncle_blocks.push(packed::UncleBlock::new_builder().header(h.data()).build());
                }
                4 if !uncles.is_empty() => {
                    uncles.reverse();
                    uncle_blocks.reverse();
                }
                // one short id replaced by a foreign one (same length)
                _ if !sids.is_empty() => {
                    let j = rng.below(sids.len() as u64) as usize;
                    let f = w.foreign_tx();
                    sids[j] = f.proposal_short_id();
                    let pos = (0..txs.len()).filter(|i| !prefilled_pos.contains(i)).nth(j).unwrap();
                    layout[pos] = f;
                }
                _ => {}
            }
        }
        prefilled_pos.sort();
        let pre: Vec<packed::IndexTransaction> = prefilled_pos.iter().map(|i| index_tx(*i as u32, &layout[*i])).collect();
        let cb = compact(&b, pre, sids, uncles, proposals.clone());
        variants.push(Variant { cb, layout, uncle_blocks });
    }
    // announcements
    let mut asked: Vec<Option<(Vec<u32>, Vec<u32>)>> = vec![None; n_peers];
    for p in 0..n_peers {
        if p > 0 {
            w.switch_peer(out, p);
        }
        let mut replies = w.recv(out, "relay", &relay_msg(variants[p].cb.clone()));
        replies.extend(w.late_relay_replies(out, 300));
        for r in replies {
            if let Ok(m) = packed::RelayMessageReader::from_slice(&r) {
                if let packed::RelayMessageUnionReader::GetBlockTransactions(g) = m.to_enum() {
                    out.count("asked-GetBlockTransactions");
                    let idx: Vec<u32> = g.indexes().iter().map(|i| Into::<u32>::into(i)).collect();
                    let uidx: Vec<u32> = g.uncle_indexes().iter().map(|i| Into::<u32>::into(i)).collect();
                    if !uidx.is_empty() {
                        out.count("asked-uncle-indexes");
                    }
                    asked[p] = Some((idx, uidx));
                }
            }
        }
    }
    // answers, in any order
    let mut order: Vec<usize> = (0..n_peers).collect();
    if forced.is_none() {
        rng.shuffle(&mut order);
    }
    let mut any_faithful = false;
    for p in order {
        let Some((idx, uidx)) = asked[p].clone() else { continue };
        if n_peers > 1 {
            w.switch_peer(out, p);
        }
        let v = &variants[p];
        let mut answer_txs: Vec<packed::Transaction> = idx.iter().filter_map(|i| v.layout.get(*i as usize).map(|t| t.data())).collect();
        let mut answer_uncles: Vec<packed::UncleBlock> = uidx.iter().filter_map(|i| v.uncle_blocks.get(*i as usize).cloned()).collect();
        let tamper = match forced {
            Some(0) => 1,
            Some(2) => 2,
            Some(_) => 0,
            None => rng.below(12),
        };
        match tamper {
            // no uncle at all / one uncle fewer / one more / swapped / a wrong one
            1 if !answer_uncles.is_empty() => answer_uncles.clear(),
            2 if !answer_uncles.is_empty() => {
                answer_uncles.pop();
            }
            3 => answer_uncles.push(packed::UncleBlock::new_builder().header(b0.data().header()).build()),
            4 if answer_uncles.len() >= 2 => answer_uncles.swap(0, 1),
            5 if !answer_uncles.is_empty() => answer_uncles[0] = packed::UncleBlock::new_builder().header(b0.data().header()).build(),
            // transactions: one fewer / one more / swapped
            6 if !answer_txs.is_empty() => {
                answer_txs.pop();
            }
            7 => answer_txs.push(w.foreign_tx().data()),
            8 if answer_txs.len() >= 2 => answer_txs.swap(0, 1),
            _ => any_faithful = true,
        }
        let bt = packed::BlockTransactions::new_builder()
            .block_hash(b.hash())
            .transactions(packed::TransactionVec::new_builder().set(answer_txs).build())
            .uncles(packed::UncleBlockVec::new_builder().set(answer_uncles).build())
            .build();
        let again = w.recv(out, "relay", &relay_msg(bt));
        // a second request (fresh transactions / collision): answered once more, faithfully
        for r in again {
            if let Ok(m) = packed::RelayMessageReader::from_slice(&r) {
                if let packed::RelayMessageUnionReader::GetBlockTransactions(g) = m.to_enum() {
                    out.count("asked-GetBlockTransactions-again");
                    let idx: Vec<u32> = g.indexes().iter().map(|i| Into::<u32>::into(i)).collect();
                    let uidx: Vec<u32> = g.uncle_indexes().iter().map(|i| Into::<u32>::into(i)).collect();
                    let bt = packed::BlockTransactions::new_builder()
                        .block_hash(b.hash())
                        .transactions(packed::TransactionVec::new_builder().set(idx.iter().filter_map(|i| v.layout.get(*i as usize).map(|t| t.data())).collect()).build())
                        .uncles(packed::UncleBlockVec::new_builder().set(uidx.iter().filter_map(|i| v.uncle_blocks.get(*i as usize).cloned()).collect()).build())
                        .build();
                    w.recv(out, "relay", &relay_msg(bt));
                }
            }
        }
    }
    let may_accept = n_tx == 0 && any_faithful;
    w.settle(&b.hash(), if may_accept { 3000 } else { 60 });
    if w.tip() == b.hash() {
        out.count("pending-block-accepted");
    }
    w.check_store(out, &tip0, &label);
    out.nontrivial(format!("{label}-{n_tx}-{n_uncles}-{n_peers}-{}", w.tip() == b.hash()));
}

pub fn run(opts: &Opts, mut out: Out) {
    panic_hook();
    // never dropped: dropping the node joins the chain-service threads (a panic of this driver must end the
    // process, not hang it)
    let mut w = std::mem::ManuallyDrop::new(World::new(&opts.out));
    if let Some(p) = &opts.replay {
        for l in read_replay_ops(p) {
            let ts: Vec<&str> = l.split(' ').collect();
            match ts[0] {
                "case" => {
                    out.begin_case(&ts[2..].join(" "));
                    w.new_peer();
                }
                "recv" => {
                    let bytes = if ts[2] == "-" { vec![] } else { (0..ts[2].len() / 2).map(|i| u8::from_str_radix(&ts[2][2 * i..2 * i + 2], 16).expect("hex")).collect() };
                    let tip0 = w.tip();
                    w.recv(&mut out, ts[1], &bytes);
                    // let the asynchronous block pipeline finish with the block this message carries, if any
                    let carried: Option<Byte32> = carried_header_hash(ts[1], &bytes);
                    match carried {
                        Some(h) => {
                            std::thread::sleep(std::time::Duration::from_millis(20));
                            w.settle(&h, 1500);
                        }
                        None => std::thread::sleep(std::time::Duration::from_millis(20)),
                    }
                    w.check_store(&mut out, &tip0, "replay");
                }
                "peer" => {
                    let k: usize = ts[1].parse().expect("peer number");
                    w.switch_peer(&mut out, k);
                }
                other => panic!("C16 recv replay: unknown op {other}"),
            }
        }
        out.finish("recv: replay");
        w.cleanup();
        std::process::exit(0);
    }
    let mut rng = Rng::new(opts.seed ^ 0x5ec16);
    if let Some(k) = opts.extra.iter().find_map(|a| a.strip_prefix("only-pending=")) {
        // (for writing corpus files) one forced multi-peer scenario on the fresh world
        sc_pending(&mut w, &mut out, &mut rng, Some(k.parse().expect("variant")));
        out.finish("recv: one forced scenario");
        w.cleanup();
        std::process::exit(0);
    }
    let n = if opts.thorough() { 1500 } else { 130 } * opts.scale;
    for i in 0..n {
        w.new_peer();
        // every variant of every scenario once, in a fixed order, then at random
        if i < 16 {
            sc_compact_block(&mut w, &mut out, &mut rng, Some(i));
        } else if i < 24 {
            sc_send_block(&mut w, &mut out, &mut rng, Some(i - 16));
        } else if i < 33 {
            sc_sync_lists(&mut w, &mut out, &mut rng, true, Some(i - 24));
        } else if i < 41 {
            sc_relay_lists(&mut w, &mut out, &mut rng, true, Some(i - 33));
        } else if i < 45 {
            sc_pending(&mut w, &mut out, &mut rng, Some(i - 41));
        } else {
            let heavy = i % 40 == 7;
            match rng.below(13) {
                0..=2 => sc_compact_block(&mut w, &mut out, &mut rng, None),
                3 | 4 => sc_send_block(&mut w, &mut out, &mut rng, None),
                5 | 6 => sc_sync_lists(&mut w, &mut out, &mut rng, heavy, None),
                7 | 8 => sc_relay_lists(&mut w, &mut out, &mut rng, heavy, None),
                _ => sc_pending(&mut w, &mut out, &mut rng, None),
            }
        }
    }
    out.extra.insert("tip_number".into(), w.node.tip().number().into());
    out.finish("recv: one scenario (a peer sends one to four messages to the real Synchronizer/Relayer::received); fingerprint = scenario variant and whether the tip moved to the scenario's block");
    w.cleanup();
    std::process::exit(0);
}
