//! C20, node-level streams: a real node (SharedBuilder + chain service, optionally the tx-pool
//! service) is fed blocks carrying proposal ids (own and in embedded uncles). After EVERY tip change,
//! truncation and restart every consumer of the proposal view is compared with a window oracle that
//! is computed from the node's STORED main chain (`union_proposal_ids()` of the blocks at distance
//! w_close..=w_far / 1..w_close from the next block), with the chain the harness delivered, and with
//! the Lean model (lean/CkbVerif/Driver/C20.lean):
//!
//!   (a) `Shared::snapshot().proposals()` set and gap;
//!   (b) the commit verifier as a black box: the next block committing real always-success
//!       transactions is submitted to the node: accepted <=> every committed id is in the oracle set;
//!   (c) the pool's staging (`get_tx_status` at submission / re-admission, the stage moves of
//!       `_update_tx_pool_for_reorg`, the ids moved back from Proposed on a reorg) and what
//!       `get_block_template` packages.
//!
//! Families (first extra argument; one stream each in checks/C20.json):
//!   (none) `node`  random histories: extensions, first-time forks, switch-backs to an abandoned
//!                  branch (re-attached blocks have ext.verified == Some(true)), truncations,
//!                  extensions of a cut-off verified branch, restarts, commitments near the edges;
//!   `edge`         per window a planned linear chain longer than w_far+2 (nothing clamped at genesis,
//!                  plus a short-chain prelude): every transaction is proposed in a main-chain block
//!                  or ONLY in an embedded uncle and its commitment is offered at distance
//!                  w_close-1, w_close, mid, w_far, w_far+1, w_far+2 from the proposal, and after
//!                  re-proposals inside / outside the window;
//!   `fork`         per window, for every depth class relative to the window (1 .. w_far+2):
//!                  A, first-time fork B, switch-back A', switch-back B', truncate to the fork point,
//!                  extension of the cut-off (verified) branch, truncate again; restarts interleaved;
//!   `pool`         node WITH the tx-pool service: ids in set only / gap only / both (re-proposal) /
//!                  neither / expired, submitted before and after their proposals; a reorganisation
//!                  that re-admits committed transactions and drops a Proposed one.
//!
//! Protocol (model side: lean/CkbVerif/Driver/C20.lean):
//!   cfg <close> <far>              -> ok <close> <far>
//!   nboot                          -> set=<ids> gap=<ids>        (first start, genesis only)
//!   nswitch <common> <ids>*        -> set=.. gap=..              (what verify_block / truncate did)
//!   nrestart                       -> set=.. gap=..              (stop, start on the same directory)
//!   verify <ids>                   -> ok | invalid               (block tip+1 committing txs <ids>)
//!   status <id>                    -> proposed | gap | fresh     (get_tx_status on the current view)
//!   nswitchm <watch> <common> <ids>* -> moved=<ids> set=.. gap=..  (moved = detached_proposal_id ∩ watch)
//!   pool <ids>                     -> proposed=<ids>             (of the pooled ids, those staged Proposed)
//!   ncommit <ids>                  -> ok                         (the next pool-family block commits these; replay only)
//! ids 1..=n_tx are the proposal short ids of real transactions spending genesis cells; ids >= 100
//! are arbitrary short ids.
use crate::common::*;
use crate::node::*;
use ckb_app_config::{BlockAssemblerConfig, NetworkConfig};
use ckb_chain::ChainServiceScope;
use ckb_chain_spec::consensus::{build_genesis_epoch_ext, Consensus, ConsensusBuilder, ProposalWindow};
use ckb_dao_utils::genesis_dao_data;
use ckb_test_chain_utils::{always_success_cell, create_always_success_tx};
use ckb_types::bytes::Bytes;
use ckb_types::core::{capacity_bytes, BlockBuilder, Capacity, EpochNumberWithFraction, TransactionBuilder};
use ckb_types::packed::{CellInput, CellOutput, OutPoint};
use ckb_types::utilities::{compact_to_difficulty, difficulty_to_compact};
use ckb_types::U256;
use ckb_jsonrpc_types::ScriptHashType;
use ckb_network::{Flags, NetworkController, NetworkService, NetworkState, network::TransportType};
use ckb_shared::{Shared, SharedBuilder};
use ckb_store::ChainStore;
use ckb_tx_pool::verif::Status;
use ckb_types::core::{BlockView, TransactionView};
use ckb_types::h256;
use ckb_types::packed::{self, Byte32, ProposalShortId};
use ckb_types::prelude::*;
use std::collections::{BTreeMap, BTreeSet, HashMap};
use std::path::{Path, PathBuf};
use std::sync::Arc;
use std::time::{Duration, Instant};

fn show_set(s: &BTreeSet<u64>) -> String {
    if s.is_empty() { "-".into() } else { s.iter().map(|x| x.to_string()).collect::<Vec<_>>().join(",") }
}

fn show_list(ids: &[u64]) -> String {
    if ids.is_empty() { "-".into() } else { ids.iter().map(|x| x.to_string()).collect::<Vec<_>>().join(",") }
}

// ------------------------------------------------------------------------------------------------
// the node (own start function: block-assembler interval 0 so that the template follows the pool
// without a timer; everything else as node.rs::Node::start)
// ------------------------------------------------------------------------------------------------

struct N {
    shared: Shared,
    chain: Option<ChainServiceScope>,
    _network: Option<NetworkController>,
}

fn dummy_network(shared: &Shared, dir: &Path) -> NetworkController {
    let config = NetworkConfig {
        max_peers: 19,
        max_outbound_peers: 5,
        path: dir.join("network"),
        ping_interval_secs: 15,
        ping_timeout_secs: 20,
        connect_outbound_interval_secs: 1,
        discovery_local_address: true,
        bootnode_mode: true,
        reuse_port_on_linux: true,
        ..Default::default()
    };
    let network_state = Arc::new(NetworkState::from_config(config).expect("Init network state failed"));
    NetworkService::new(network_state, vec![], vec![], (shared.consensus().identify_name(), "test".to_string(), Flags::COMPATIBILITY), TransportType::Tcp)
        .start(shared.async_handle())
        .expect("Start network service failed")
}

impl N {
    fn start(dir: &Path, consensus: Consensus, with_pool: bool) -> N {
        std::fs::create_dir_all(dir.join("header_map")).unwrap();
        let db_config = ckb_app_config::DBConfig { path: dir.join("db"), ..Default::default() };
        let builder = SharedBuilder::new("verif", dir, &db_config, None, runtime_handle(), consensus)
            .unwrap_or_else(|e| panic!("SharedBuilder::new failed: {e:?}"))
            .header_map_tmp_dir(Some(dir.join("header_map")));
        let ba = BlockAssemblerConfig {
            code_hash: h256!("0x0"),
            args: Default::default(),
            hash_type: ScriptHashType::Data,
            message: Default::default(),
            use_binary_version_as_message_prefix: false,
            binary_version: "TEST".to_string(),
            update_interval_millis: 0,
            notify: vec![],
            notify_scripts: vec![],
            notify_timeout_millis: 800,
        };
        let (shared, mut pack) = builder.block_assembler_config(Some(ba)).build().unwrap_or_else(|e| panic!("SharedBuilder::build failed: {e:?}"));
        let network = if with_pool {
            let n = dummy_network(&shared, dir);
            pack.take_tx_pool_builder().start(n.clone());
            Some(n)
        } else {
            None
        };
        let chain = ChainServiceScope::new(pack.take_chain_services_builder());
        N { shared, chain: Some(chain), _network: network }
    }
    fn process(&self, block: &BlockView) -> Result<bool, String> {
        self.chain.as_ref().unwrap().chain_controller().blocking_process_block(Arc::new(block.clone())).map_err(|e| e.to_string())
    }
    fn truncate(&self, hash: Byte32) -> Result<(), String> {
        self.chain.as_ref().unwrap().chain_controller().truncate(hash).map_err(|e| e.to_string())
    }
    fn tip_hash(&self) -> Byte32 {
        self.shared.snapshot().tip_hash()
    }
    fn stop(mut self) {
        self.chain.take();
    }
}

// ------------------------------------------------------------------------------------------------
// the simulation shared by all families
// ------------------------------------------------------------------------------------------------

#[derive(Clone)]
struct Blk {
    hash: Byte32,
    /// union proposal ids (own + uncles')
    ids: Vec<u64>,
    /// committed tx ids
    committed: Vec<u64>,
    /// the block's own proposals and those of its embedded uncle (None: no uncle embedded)
    own: Vec<u64>,
    uncle: Option<Vec<u64>>,
}

impl Blk {
    /// the block token of the node-level lines: `<own>` or `<own>+<uncle's>`
    fn token(&self) -> String {
        match &self.uncle {
            None => show_list(&self.own),
            Some(u) => format!("{}+{}", show_list(&self.own), show_list(u)),
        }
    }
}

/// what one new block shall carry
#[derive(Clone, Default)]
struct Spec {
    ids: Vec<u64>,
    uncle_ids: Option<Vec<u64>>,
    commits: Vec<u64>,
    /// family `heavy`: a timestamp far after the parent's (the epoch's last block: a long epoch, so
    /// the next epoch's difficulty drops)
    slow: bool,
}

struct Sim {
    window: (u64, u64),
    n_tx: u64,
    dir: PathBuf,
    consensus: Consensus,
    with_pool: bool,
    node: Option<N>,
    builder: ChainBuilder,
    txs: Vec<TransactionView>,
    idmap: HashMap<ProposalShortId, u64>,
    /// the main chain as delivered (index = block number)
    chain: Vec<Blk>,
    /// abandoned main chains (full, from genesis) whose tip is not on the main chain
    old: Vec<Vec<Blk>>,
    salt: u64,
    uniq: u64,
    /// set after an oracle failure that leaves node and harness out of step
    dead: bool,
    /// family `heavy`: (epoch-0 length, epoch duration target in s, genesis difficulty) of a consensus
    /// with the dynamic difficulty adjustment on; the best chain is then the one with the larger
    /// total difficulty, which may be the SHORTER one
    uneven: Option<(u64, u64, u64)>,
    /// total difficulty of every block built (sum of the headers' difficulties from genesis)
    tds: HashMap<Byte32, U256>,
}

impl Sim {
    fn new(base: &Path, tag: &str, window: (u64, u64), n_tx: u64, with_pool: bool) -> Sim {
        Sim::new_on(base, tag, window, n_tx, with_pool, None)
    }

    fn new_on(base: &Path, tag: &str, window: (u64, u64), n_tx: u64, with_pool: bool, uneven: Option<(u64, u64, u64)>) -> Sim {
        let cfg = NodeCfg { epoch_len: 1000, window, genesis_cells: n_tx, with_pool: false, ..Default::default() };
        let consensus = match uneven {
            None => make_consensus(&cfg),
            Some((gl, t, d0)) => uneven_consensus(window, n_tx, gl, t, d0),
        };
        let dir = base.join(tag);
        let _ = std::fs::remove_dir_all(&dir);
        let node = N::start(&dir.join("node"), consensus.clone(), with_pool);
        let builder = ChainBuilder::new(consensus.clone(), &dir.join("builder"));
        let cells = genesis_cells(&consensus);
        let txs: Vec<TransactionView> = (0..n_tx as usize).map(|i| spend_tx(&cells[i..i + 1], 1, 1000, i as u64)).collect();
        let mut sim = Sim {
            window,
            n_tx,
            dir,
            consensus: consensus.clone(),
            with_pool,
            node: Some(node),
            builder,
            txs,
            idmap: HashMap::new(),
            chain: vec![],
            old: vec![],
            salt: 0,
            uniq: 0,
            dead: false,
            uneven,
            tds: HashMap::new(),
        };
        sim.tds.insert(consensus.genesis_hash(), consensus.genesis_block().header().difficulty());
        for i in (1..=n_tx).chain(100..1200) {
            let p = sim.pid(i);
            sim.idmap.insert(p, i);
        }
        sim.chain.push(Blk { hash: consensus.genesis_hash(), ids: vec![], committed: vec![], own: vec![], uncle: None });
        sim
    }

    fn begin(&mut self, out: &mut Out, label: &str) {
        let (c, f) = self.window;
        out.begin_case(&format!("{label} w={c},{f}"));
        out.op(&format!("cfg {c} {f}"), &format!("ok {c} {f}"));
        if let Some((gl, t, d0)) = self.uneven {
            // recorded for the replay (the model answers ok)
            out.op(&format!("nuneven {gl} {t} {d0}"), "ok");
        }
        let l = self.view_line(out, "nboot");
        out.op("nboot", &l);
    }

    fn finish(mut self) {
        if let Some(n) = self.node.take() {
            n.stop();
        }
        let dir = self.dir.clone();
        drop(self);
        let _ = std::fs::remove_dir_all(&dir);
    }

    fn n(&self) -> &N {
        self.node.as_ref().unwrap()
    }

    fn tip(&self) -> u64 {
        self.chain.len() as u64 - 1
    }

    fn pid(&self, id: u64) -> ProposalShortId {
        if id >= 1 && id <= self.n_tx {
            self.txs[id as usize - 1].proposal_short_id()
        } else {
            let mut b = [0u8; 10];
            b[..8].copy_from_slice(&id.to_le_bytes());
            b[9] = 0xEE;
            ProposalShortId::new(b)
        }
    }

    fn small(&self, p: &ProposalShortId) -> u64 {
        self.idmap.get(p).copied().unwrap_or(u64::MAX)
    }

    /// a fresh arbitrary id (never a transaction's)
    fn unique_id(&mut self) -> u64 {
        self.uniq += 1;
        200 + (self.uniq % 1000)
    }

    /// the window over the chain the harness delivered
    fn window_of(&self, chain: &[Blk]) -> (BTreeSet<u64>, BTreeSet<u64>) {
        let (close, far) = self.window;
        let next = chain.len() as u64;
        let (mut set, mut gap) = (BTreeSet::new(), BTreeSet::new());
        for n in 1..next {
            let d = next - n;
            if d >= close && d <= far {
                set.extend(chain[n as usize].ids.iter().copied());
            } else if d < close {
                gap.extend(chain[n as usize].ids.iter().copied());
            }
        }
        (set, gap)
    }

    fn window(&self) -> (BTreeSet<u64>, BTreeSet<u64>) {
        self.window_of(&self.chain)
    }

    /// the window oracle over the node's STORED main chain: for every main-chain block at distance
    /// d from the next block, `union_proposal_ids()` (own proposals and the embedded uncles')
    fn store_window(&self) -> (BTreeSet<u64>, BTreeSet<u64>, u64) {
        let (close, far) = self.window;
        let snap = self.n().shared.snapshot();
        let store = self.n().shared.store();
        let tip = snap.tip_number();
        let next = tip + 1;
        let (mut set, mut gap) = (BTreeSet::new(), BTreeSet::new());
        for n in next.saturating_sub(far)..=tip {
            let d = next - n;
            let blk = store.get_block_hash(n).and_then(|h| store.get_block(&h));
            let Some(blk) = blk else { continue };
            let ids: Vec<u64> = blk.union_proposal_ids().iter().map(|p| self.small(p)).collect();
            if d >= close && d <= far {
                set.extend(ids);
            } else if d < close {
                gap.extend(ids);
            }
        }
        (set, gap, tip)
    }

    /// (a): the snapshot's view against both oracles; returns the model line
    fn view_line(&self, out: &mut Out, what: &str) -> String {
        let node = self.n();
        let snap = node.shared.snapshot();
        let p = snap.proposals();
        let conv = |s: &std::collections::HashSet<ProposalShortId>| -> BTreeSet<u64> { s.iter().map(|x| self.small(x)).collect() };
        let (set, gap) = (conv(p.set()), conv(p.gap()));
        let (wset, wgap) = self.window();
        let (sset, sgap, stip) = self.store_window();
        if set != wset {
            out.oracle_fail("node-set-not-window", &format!("{what}: snapshot set={} window={} tip={}", show_set(&set), show_set(&wset), self.tip()));
        }
        if gap != wgap {
            out.oracle_fail("node-gap-not-window", &format!("{what}: snapshot gap={} window={} tip={}", show_set(&gap), show_set(&wgap), self.tip()));
        }
        if set != sset {
            out.oracle_fail("node-set-not-stored-window", &format!("{what}: snapshot set={} stored window={} stored tip={stip}", show_set(&set), show_set(&sset)));
        }
        if gap != sgap {
            out.oracle_fail("node-gap-not-stored-window", &format!("{what}: snapshot gap={} stored window={} stored tip={stip}", show_set(&gap), show_set(&sgap)));
        }
        if node.tip_hash() != self.chain.last().unwrap().hash {
            out.oracle_fail("node-tip-unexpected", what);
        }
        out.count("view-checked");
        format!("set={} gap={}", show_set(&set), show_set(&gap))
    }

    fn committed_on_main(&self) -> BTreeSet<u64> {
        self.chain.iter().flat_map(|b| b.committed.iter().copied()).collect()
    }

    /// build one block on `parent`: own ids, optionally ONE embedded uncle (a sibling of the parent)
    /// carrying `uncle_ids`, committing the txs `commits`
    fn build(&mut self, parent: &Byte32, spec: &Spec) -> (BlockView, Vec<u64>, Option<Vec<u64>>) {
        self.salt += 1;
        let mut union: Vec<u64> = spec.ids.clone();
        let mut uncles = vec![];
        let mut eff_uncle: Option<Vec<u64>> = None;
        if let Some(uids) = &spec.uncle_ids {
            let p = self.builder.block(parent).clone();
            // dynamic difficulty: an uncle must be of the including block's epoch (UnclesVerifier:
            // InvalidTarget / InvalidDifficultyEpoch), so the first block of an epoch embeds no uncle (its
            // uncle would be the last block of the previous epoch)
            let crosses_epoch = self.uneven.is_some() && p.epoch().index() + 1 == p.epoch().length();
            if p.number() >= 1 && !crosses_epoch {
                self.salt += 1;
                let us = BlockSpec { proposals: uids.iter().map(|i| self.pid(*i)).collect(), salt: 1_000_000 + self.salt, ..Default::default() };
                let u = self.builder.build(&p.parent_hash(), &us);
                uncles.push(u.as_uncle());
                eff_uncle = Some(uids.clone());
                for i in uids {
                    if !union.contains(i) {
                        union.push(*i);
                    }
                }
            }
        }
        let bs = BlockSpec {
            proposals: spec.ids.iter().map(|i| self.pid(*i)).collect(),
            uncles,
            txs: spec.commits.iter().map(|i| self.txs[*i as usize - 1].clone()).collect(),
            salt: self.salt,
            timestamp: if spec.slow {
                let t = self.uneven.map(|u| u.1).unwrap_or(8);
                Some(self.builder.block(parent).timestamp() + 16 * t * 1000)
            } else {
                None
            },
            ..Default::default()
        };
        let blk = self.builder.build(parent, &bs);
        let ptd = self.tds.get(parent).cloned().unwrap_or_default();
        self.tds.insert(blk.hash(), ptd + compact_to_difficulty(blk.compact_target()));
        (blk, union, eff_uncle)
    }

    fn td(&self, h: &Byte32) -> U256 {
        self.tds.get(h).cloned().unwrap_or_default()
    }

    /// Deliver new blocks on top of `base` (a full chain from genesis: the main chain itself for an
    /// extension, a prefix of it for a first-time fork, an abandoned chain for a switch-back or for
    /// the extension of a cut-off branch). Returns the number of tip changes.
    fn deliver(&mut self, out: &mut Out, base: Vec<Blk>, specs: &[Spec], what: &str) -> usize {
        let mut cand = base;
        let mut changes = 0;
        for spec in specs {
            if self.dead {
                break;
            }
            let parent = cand.last().unwrap().hash.clone();
            let (blk, union, unc) = self.build(&parent, spec);
            let r = self.n().process(&blk);
            if r != Ok(true) {
                out.oracle_fail("node-rejects-valid-block", &format!("{what}: block {} on {}: {:?}", blk.number(), cand.len() - 1, r));
                self.dead = true;
                break;
            }
            cand.push(Blk { hash: blk.hash(), ids: union, committed: spec.commits.clone(), own: spec.ids.clone(), uncle: unc });
            let is_tip = self.n().tip_hash() == blk.hash();
            // permanent difficulty: the longer chain; dynamic difficulty (family `heavy`): the one with
            // the larger total difficulty (the first received wins a tie)
            let expect_tip = if self.uneven.is_some() { self.td(&blk.hash()) > self.td(&self.chain.last().unwrap().hash) } else { cand.len() > self.chain.len() };
            if spec.slow {
                // recorded for the replay (the model answers ok)
                out.op("nslow", "ok");
            }
            if is_tip != expect_tip {
                out.oracle_fail("node-tip-unexpected", &format!("{what}: block {} is_tip={is_tip}, delivered chain length {} against main {}", blk.number(), cand.len(), self.chain.len()));
                self.dead = true;
                break;
            }
            if is_tip {
                let common = self.chain.iter().zip(cand.iter()).take_while(|(a, b)| a.hash == b.hash).count() - 1;
                if common + 1 < self.chain.len() {
                    let old = std::mem::take(&mut self.chain);
                    self.remember(old);
                    out.count("tip-change-with-detach");
                }
                let mut op = format!("nswitch {common}");
                for b in &cand[common + 1..] {
                    op.push(' ');
                    op.push_str(&b.token());
                }
                self.chain = cand.clone();
                let l = self.view_line(out, &format!("{what}: {op}"));
                out.op(&op, &l);
                changes += 1;
            } else {
                // a side block was stored: the view must not move
                let _ = self.view_line(out, &format!("{what}: side block {} stored", blk.number()));
            }
        }
        // the branch is remembered even if it never became the main chain
        if !self.dead && cand.last().unwrap().hash != self.chain.last().unwrap().hash {
            self.remember(cand);
        }
        changes
    }

    fn remember(&mut self, chain: Vec<Blk>) {
        self.old.retain(|c| c.last().unwrap().hash != chain.last().unwrap().hash);
        self.old.push(chain);
        if self.old.len() > 4 {
            self.old.remove(0);
        }
    }

    /// abandoned chains whose tip is not on the main chain (candidates for a switch-back)
    fn abandoned(&self) -> Vec<Vec<Blk>> {
        self.old
            .iter()
            .filter(|c| {
                let n = c.len() - 1;
                !(n < self.chain.len() && self.chain[n].hash == c[n].hash)
            })
            .cloned()
            .collect()
    }

    fn truncate(&mut self, out: &mut Out, target: u64) {
        let hash = self.chain[target as usize].hash.clone();
        if let Err(e) = self.n().truncate(hash) {
            out.oracle_fail("node-truncate-fails", &e);
            self.dead = true;
            return;
        }
        if (target as usize) + 1 < self.chain.len() {
            let old = self.chain.clone();
            self.remember(old);
        }
        self.chain.truncate(target as usize + 1);
        let op = format!("nswitch {target}");
        let l = self.view_line(out, &op);
        out.op(&op, &l);
        out.count("node-truncate");
    }

    fn restart(&mut self, out: &mut Out) {
        assert!(!self.with_pool, "in-process restart needs a node without the pool service");
        let before = self.view_line(out, "before restart");
        let node = self.node.take().unwrap();
        node.stop();
        let node = N::start(&self.dir.join("node"), self.consensus.clone(), false);
        self.node = Some(node);
        let l = self.view_line(out, "nrestart");
        if l != before {
            out.oracle_fail("node-restart-changes-view", &format!("before: {before} after: {l}"));
        }
        out.op("nrestart", &l);
        out.count("node-restart");
    }

    /// (b) the commit verifier as a black box: block tip+1 committing `ids` (no proposals of its own)
    /// is submitted to the node; accepted <=> every id is in the oracle set. An accepted block stays
    /// (it becomes the new tip), a rejected one leaves the node unchanged. Returns the verdict.
    fn verify(&mut self, out: &mut Out, spec: &Spec, what: &str) -> bool {
        let ids: &[u64] = &spec.commits;
        let (wset, wgap) = self.window();
        let (sset, _, _) = self.store_window();
        let expect_ok = ids.iter().all(|i| sset.contains(i));
        let tip = self.tip();
        let parent = self.chain.last().unwrap().hash.clone();
        let (blk, union, unc) = self.build(&parent, spec);
        let r = self.n().process(&blk);
        let ok = r == Ok(true);
        if ok != expect_ok {
            out.oracle_fail(
                "node-commit-verdict-not-window",
                &format!("{what}: verify {} at block {}: node says {:?}, stored window set={}; delivered window set={} gap={}", show_list(ids), tip + 1, r, show_set(&sset), show_set(&wset), show_set(&wgap)),
            );
        }
        if let Err(e) = &r {
            if !e.contains("Commit") && !e.contains("commit") {
                out.oracle_fail("node-commit-rejected-for-another-reason", &format!("{what}: verify {}: {e}", show_list(ids)));
            }
        }
        out.op(&format!("verify {}", show_list(ids)), if ok { "ok" } else { "invalid" });
        out.count(if ok { "node-commit-accepted" } else { "node-commit-rejected" });
        if ok {
            self.chain.push(Blk { hash: blk.hash(), ids: union.clone(), committed: ids.to_vec(), own: spec.ids.clone(), uncle: unc });
            let op = format!("nswitch {tip} {}", self.chain.last().unwrap().token());
            let l = self.view_line(out, &op);
            out.op(&op, &l);
        } else if self.n().tip_hash() != parent {
            out.oracle_fail("node-tip-unexpected", &format!("{what}: a rejected block moved the tip"));
            self.dead = true;
        }
        ok
    }
}

fn gen_ids(rng: &mut Rng, n_tx: u64) -> Vec<u64> {
    let k = match rng.below(8) {
        0 | 1 => 0,
        2..=5 => 1,
        6 => 2,
        _ => 3,
    };
    let mut v: Vec<u64> = vec![];
    for _ in 0..k {
        let id = if rng.chance(3, 4) { rng.range(1, n_tx) } else { 100 + rng.below(6) };
        if !v.contains(&id) {
            v.push(id);
        }
    }
    v
}

fn gen_spec(rng: &mut Rng, n_tx: u64, uncle_chance: (u64, u64)) -> Spec {
    Spec { ids: gen_ids(rng, n_tx), uncle_ids: if rng.chance(uncle_chance.0, uncle_chance.1) { Some(gen_ids(rng, n_tx)) } else { None }, commits: vec![], slow: false }
}

// ------------------------------------------------------------------------------------------------
// family `node`: random histories
// ------------------------------------------------------------------------------------------------

const N_TX: u64 = 12;

fn node_case(out: &mut Out, rng: &mut Rng, base: &Path, case_no: usize, n_ops: usize) {
    let wins: [(u64, u64); 5] = [(2, 10), (1, 2), (2, 4), (1, 1), (3, 5)];
    let window = *rng.pick(&wins);
    let mut sim = Sim::new(base, &format!("case{case_no}"), window, N_TX, false);
    sim.begin(out, "node");
    let (close, far) = window;
    let (mut reorgs, mut restarts, mut commits_ok, mut commits_bad, mut backs) = (0, 0, 0, 0, 0);
    for _ in 0..n_ops {
        if sim.dead {
            break;
        }
        let tip = sim.tip();
        match rng.below(24) {
            0..=8 => {
                let spec = gen_spec(rng, N_TX, (1, 4));
                if spec.uncle_ids.is_some() && tip >= 1 {
                    out.count("node-block-with-uncle");
                }
                let base_chain = sim.chain.clone();
                sim.deliver(out, base_chain, &[spec], "extend");
                out.count("node-extend");
            }
            9..=12 => {
                // first-time fork to a longer branch from `common`
                if tip == 0 {
                    continue;
                }
                let depth = match rng.below(5) {
                    0 => 1,
                    1 => rng.range(1, close + 1),
                    2 => rng.range(close, far + 1),
                    3 => far + rng.below(3),
                    _ => rng.range(1, tip),
                }
                .min(tip)
                .max(1);
                let common = tip - depth;
                let len = depth + rng.range(1, 2);
                let specs: Vec<Spec> = (0..len).map(|k| if k >= 1 { gen_spec(rng, N_TX, (1, 5)) } else { gen_spec(rng, N_TX, (0, 1)) }).collect();
                let base_chain = sim.chain[..=common as usize].to_vec();
                let ch = sim.deliver(out, base_chain, &specs, "fork");
                if ch > 0 {
                    reorgs += 1;
                    out.count("node-reorg");
                    if depth > far {
                        out.count("node-reorg-deeper-than-window");
                    }
                }
            }
            13 | 14 => {
                if tip == 0 {
                    continue;
                }
                let target = if rng.chance(1, 5) { 0 } else { rng.range(0, tip - 1) };
                sim.truncate(out, target);
            }
            15 | 16 => {
                sim.restart(out);
                restarts += 1;
            }
            17..=19 => {
                // switch back to an abandoned chain (its blocks above the fork point were verified
                // before: ForkChanges::verified_len() > 0), or extend a cut-off verified branch
                let cands = sim.abandoned();
                if cands.is_empty() {
                    continue;
                }
                let b = rng.pick(&cands).clone();
                let need = (sim.chain.len() + 1).saturating_sub(b.len()).max(1) + rng.below(2) as usize;
                if need > 14 {
                    continue;
                }
                let specs: Vec<Spec> = (0..need).map(|_| gen_spec(rng, N_TX, (1, 6))).collect();
                let common = sim.chain.iter().zip(b.iter()).take_while(|(x, y)| x.hash == y.hash).count() - 1;
                let reattached = b.len() - 1 - common;
                let ch = sim.deliver(out, b, &specs, "switch-back");
                if ch > 0 && reattached > 0 {
                    backs += 1;
                    reorgs += 1;
                    out.count("node-switch-back");
                }
            }
            _ => {
                // commitment of a real transaction in block tip+1: accepted iff proposed in the window
                let done = sim.committed_on_main();
                let (wset, wgap) = sim.window();
                let free: Vec<u64> = (1..=N_TX).filter(|i| !done.contains(i)).collect();
                if free.is_empty() {
                    continue;
                }
                let cands: Vec<u64> = free.iter().copied().filter(|i| wset.contains(i) || wgap.contains(i)).collect();
                let id = if !cands.is_empty() && rng.chance(4, 5) { *rng.pick(&cands) } else { *rng.pick(&free) };
                let own = gen_ids(rng, N_TX);
                if sim.verify(out, &Spec { ids: own, uncle_ids: None, commits: vec![id], slow: false }, "random") {
                    commits_ok += 1;
                } else {
                    commits_bad += 1;
                }
            }
        }
    }
    if reorgs > 0 && restarts > 0 && commits_ok > 0 && commits_bad > 0 {
        out.nontrivial(format!("node w={window:?} reorgs={reorgs} backs={backs} restarts={restarts} ok={commits_ok} bad={commits_bad} len={}", sim.chain.len()));
    }
    sim.finish();
}

// ------------------------------------------------------------------------------------------------
// family `edge`: commitments at every distance class, proposals in main blocks / only in uncles
// ------------------------------------------------------------------------------------------------

#[derive(Clone, Copy, PartialEq, Debug)]
enum Place {
    Main,
    Uncle,
}

struct Item {
    tx: u64,
    props: Vec<(u64, Place)>,
    commit_at: u64,
    label: String,
}

fn edge_case(out: &mut Out, rng: &mut Rng, base: &Path, window: (u64, u64)) {
    let (c, f) = window;
    let n_tx = 24;
    let mut sim = Sim::new(base, &format!("edge-{c}-{f}"), window, n_tx, false);
    sim.begin(out, "edge");
    let mut txs: Vec<u64> = (1..=n_tx).collect();
    rng.shuffle(&mut txs);
    let mut next_tx = 0usize;
    let mut take = || {
        next_tx += 1;
        txs[next_tx - 1]
    };
    let mut items: Vec<Item> = vec![];
    // short-chain prelude (the window start is clamped at genesis)
    if c >= 2 {
        items.push(Item { tx: take(), props: vec![(1, Place::Main)], commit_at: 1 + c - 1, label: "low d=close-1".into() });
    }
    items.push(Item { tx: take(), props: vec![(1, Place::Main)], commit_at: 1 + c, label: "low d=close".into() });
    items.push(Item { tx: take(), props: vec![(2, Place::Uncle)], commit_at: 2 + f, label: "low uncle d=far".into() });
    // the planned part starts where nothing is clamped any more
    let pad = f + 3;
    let mut dists: Vec<u64> = vec![c, f, f + 1, f + 2];
    if c >= 2 {
        dists.push(c - 1);
    }
    if f > c + 1 {
        dists.push(rng.range(c + 1, f - 1));
    }
    rng.shuffle(&mut dists);
    let mut p = pad;
    for d in &dists {
        for place in [Place::Main, Place::Uncle] {
            items.push(Item { tx: take(), props: vec![(p, place)], commit_at: p + d, label: format!("{place:?} d={}", dist_label(*d, c, f)) });
        }
        p += 1;
    }
    // re-proposals
    // R1: expired by the first proposal (d = far+1), renewed by a second one at distance close
    items.push(Item { tx: take(), props: vec![(p, Place::Main), (p + f + 1 - c, Place::Uncle)], commit_at: p + f + 1, label: "re expired+close".into() });
    p += 1;
    if c >= 2 {
        // R2: in the set by the first proposal (d = far) AND in the gap by a second (d = close-1)
        items.push(Item { tx: take(), props: vec![(p, Place::Uncle), (p + f - (c - 1), Place::Main)], commit_at: p + f, label: "re set+gap".into() });
        p += 1;
        // R3: expired by the first (d = far+1) and only in the gap by the second (d = close-1)
        items.push(Item { tx: take(), props: vec![(p, Place::Main), (p + f + 1 - (c - 1), Place::Main)], commit_at: p + f + 1, label: "re expired+gap".into() });
        p += 1;
    }
    if f >= c + 1 {
        // R4: twice in the committable part
        items.push(Item { tx: take(), props: vec![(p, Place::Main), (p + 1, Place::Uncle)], commit_at: p + 1 + f, label: "re set+set".into() });
    }
    let last = items.iter().map(|i| i.commit_at).max().unwrap();
    let mut accepted = 0;
    let mut rejected = 0;
    for h in 1..=last {
        if sim.dead {
            break;
        }
        assert_eq!(sim.tip() + 1, h);
        // commitments due in this block: those the oracle forbids are offered one by one (each must
        // be rejected and leave the node unchanged), the others all together in the block that stays
        let due: Vec<usize> = (0..items.len()).filter(|i| items[*i].commit_at == h).collect();
        let (sset, _, _) = sim.store_window();
        let mut good: Vec<u64> = vec![];
        for i in &due {
            let it = &items[*i];
            // the plan's expectation, by arithmetic on the planned heights alone
            let planned = it.props.iter().any(|(ph, _)| h - ph >= c && h - ph <= f);
            if planned != sset.contains(&it.tx) {
                out.count("edge-plan-mismatch");
                eprintln!("edge plan mismatch: {} tx {} at {h}: planned {planned}, stored window {}", it.label, it.tx, show_set(&sset));
            }
            if sset.contains(&it.tx) {
                good.push(it.tx);
                out.count(&format!("edge accept {}", it.label));
            } else {
                out.count(&format!("edge reject {}", it.label));
                if sim.verify(out, &Spec { ids: vec![], uncle_ids: None, commits: vec![it.tx], slow: false }, &it.label.clone()) {
                    // a commitment outside the window was accepted: node and plan are out of step
                    sim.dead = true;
                    break;
                }
                rejected += 1;
            }
        }
        if sim.dead {
            break;
        }
        // the block of this height: planned proposals (+ an arbitrary unique id), planned uncle
        let mut own: Vec<u64> = items.iter().filter(|it| it.props.contains(&(h, Place::Main))).map(|it| it.tx).collect();
        let unc: Vec<u64> = items.iter().filter(|it| it.props.contains(&(h, Place::Uncle))).map(|it| it.tx).collect();
        if rng.chance(1, 2) {
            let u = sim.unique_id();
            own.push(u);
        }
        let spec = Spec { ids: own, uncle_ids: if unc.is_empty() { None } else { Some(unc) }, commits: good.clone(), slow: false };
        if !good.is_empty() {
            // (b) for the accepted side: the block that stays commits them all
            accepted += good.len();
            if !sim.verify(out, &spec, "edge block with commitments") {
                // wrongly rejected (reported by `verify`): the plan cannot go on
                sim.dead = true;
            }
        } else {
            let base_chain = sim.chain.clone();
            sim.deliver(out, base_chain, &[spec], "edge block");
        }
    }
    if !sim.dead {
        out.nontrivial(format!("edge w={window:?} accepted={accepted} rejected={rejected} len={}", sim.chain.len()));
    }
    sim.finish();
}

fn dist_label(d: u64, c: u64, f: u64) -> &'static str {
    if d + 1 == c {
        "close-1"
    } else if d == c {
        "close"
    } else if d == f {
        "far"
    } else if d == f + 1 {
        "far+1"
    } else if d == f + 2 {
        "far+2"
    } else {
        "mid"
    }
}

// ------------------------------------------------------------------------------------------------
// family `fork`: reorganisation shapes of every depth relative to the window
// ------------------------------------------------------------------------------------------------

fn fork_spec(sim: &mut Sim, rng: &mut Rng, uncle: bool) -> Spec {
    // every block carries a unique id (so that a lost table row is visible), sometimes a shared one
    let mut ids = vec![sim.unique_id()];
    if rng.chance(1, 3) {
        ids.push(100 + rng.below(4));
    }
    let uncle_ids = if uncle && rng.chance(1, 4) { Some(vec![sim.unique_id(), 100 + rng.below(4)]) } else { None };
    Spec { ids, uncle_ids, commits: vec![], slow: false }
}

fn fork_case(out: &mut Out, rng: &mut Rng, base: &Path, window: (u64, u64), restart_chance: (u64, u64)) {
    let (c, f) = window;
    let mut sim = Sim::new(base, &format!("fork-{c}-{f}"), window, 2, false);
    sim.begin(out, "fork");
    // base chain longer than the window
    let l0 = f + 3;
    let specs: Vec<Spec> = (0..l0).map(|k| fork_spec(&mut sim, rng, k >= 1)).collect();
    let g = sim.chain.clone();
    sim.deliver(out, g, &specs, "base");
    let mut depths: Vec<u64> = vec![1, c, c + 1, f, f + 1, f + 2];
    if f >= 2 {
        depths.push(f - 1);
    }
    if c >= 2 {
        depths.push(c - 1);
    }
    depths.sort();
    depths.dedup();
    rng.shuffle(&mut depths);
    let mut shapes = 0;
    let maybe_restart = |sim: &mut Sim, out: &mut Out, rng: &mut Rng| {
        if !sim.dead && rng.chance(restart_chance.0, restart_chance.1) {
            sim.restart(out);
        }
    };
    for d in depths {
        if sim.dead {
            break;
        }
        let common = sim.tip();
        let root = sim.chain.clone();
        // A: d blocks
        let specs: Vec<Spec> = (0..d).map(|k| fork_spec(&mut sim, rng, k >= 1)).collect();
        sim.deliver(out, root.clone(), &specs, "A");
        let a = sim.chain.clone();
        maybe_restart(&mut sim, out, rng);
        // B: first-time fork of depth d (d+1 blocks from the fork point)
        let specs: Vec<Spec> = (0..d + 1).map(|k| fork_spec(&mut sim, rng, k >= 1)).collect();
        let ch = sim.deliver(out, root.clone(), &specs, "B first-time fork");
        if ch == 0 && !sim.dead {
            out.oracle_fail("node-no-reorg-to-longer-branch", &format!("B: common {common} depth {d}"));
            break;
        }
        let b = sim.chain.clone();
        out.count("fork-first-time");
        maybe_restart(&mut sim, out, rng);
        // A': switch back; the d blocks of A above the fork point were verified before
        let specs: Vec<Spec> = (0..2).map(|_| fork_spec(&mut sim, rng, true)).collect();
        let ch = sim.deliver(out, a, &specs, "A' switch-back");
        if ch == 0 && !sim.dead {
            out.oracle_fail("node-no-reorg-to-longer-branch", &format!("A': common {common} depth {d}"));
            break;
        }
        out.count("fork-switch-back");
        maybe_restart(&mut sim, out, rng);
        // B': and back again (d+1 verified blocks re-attached)
        let specs: Vec<Spec> = (0..2 + rng.below(2)).map(|_| fork_spec(&mut sim, rng, true)).collect();
        let ch = sim.deliver(out, b, &specs, "B' switch-back");
        if ch == 0 && !sim.dead {
            out.oracle_fail("node-no-reorg-to-longer-branch", &format!("B': common {common} depth {d}"));
            break;
        }
        out.count("fork-switch-back");
        maybe_restart(&mut sim, out, rng);
        if sim.dead {
            break;
        }
        // truncate to the fork point, then extend the cut-off (verified) branch by one block:
        // several attached blocks, none detached, verified_len > 0
        let cut = sim.chain.clone();
        sim.truncate(out, common);
        maybe_restart(&mut sim, out, rng);
        if rng.chance(1, 2) {
            // a partial truncation first: the cut-off branch is then re-attached from the middle
            let spec = fork_spec(&mut sim, rng, false);
            sim.deliver(out, cut, &[spec], "extend cut-off branch");
            out.count("fork-extend-cut-off-branch");
            maybe_restart(&mut sim, out, rng);
            if sim.dead {
                break;
            }
            let mid = rng.range(common, sim.tip());
            sim.truncate(out, mid);
            sim.truncate(out, common);
        }
        shapes += 1;
        out.nontrivial(format!("fork w={window:?} depth={d}"));
    }
    let _ = shapes;
    sim.finish();
}

// ------------------------------------------------------------------------------------------------
// family `pool`: the tx-pool's use of the view
// ------------------------------------------------------------------------------------------------

#[derive(Clone, Copy, PartialEq, Eq, Debug, PartialOrd, Ord)]
enum Stage {
    Pending,
    Gap,
    Proposed,
}

impl Sim {
    fn tpc(&self) -> &ckb_tx_pool::TxPoolController {
        self.n().shared.tx_pool_controller()
    }

    /// wait until the pool's snapshot is at the node's tip
    fn sync_pool(&self, out: &mut Out) {
        let t = Instant::now();
        loop {
            let tip = self.n().tip_hash();
            if let Ok(info) = self.tpc().get_tx_pool_info() {
                if info.tip_hash == tip {
                    return;
                }
            }
            if t.elapsed() > Duration::from_secs(30) {
                out.count("pool-sync-timeout");
                return;
            }
            std::thread::sleep(Duration::from_millis(2));
        }
    }

    fn stages(&self) -> BTreeMap<u64, Stage> {
        let d = self.tpc().verif_read(|pool| pool.verif_pool_map().verif_dump()).expect("verif_read");
        d.entries
            .iter()
            .map(|e| {
                (
                    self.small(&e.id),
                    match e.status {
                        Status::Pending => Stage::Pending,
                        Status::Gap => Stage::Gap,
                        Status::Proposed => Stage::Proposed,
                    },
                )
            })
            .collect()
    }

    /// what the stored window says about an id (`get_tx_status` as the property wants it)
    fn oracle_stage(&self, id: u64) -> Stage {
        let (sset, sgap, _) = self.store_window();
        if sset.contains(&id) {
            Stage::Proposed
        } else if sgap.contains(&id) {
            Stage::Gap
        } else {
            Stage::Pending
        }
    }

    /// staging of every pooled entry against the stored window. An entry staged Gap whose id is in
    /// no part of the window is C12's known finding `stage-gap-outside-window` (counted, not failed).
    fn staging_mismatch(&self, st: &BTreeMap<u64, Stage>, expect_pooled: &BTreeSet<u64>) -> Option<String> {
        let pooled: BTreeSet<u64> = st.keys().copied().collect();
        if &pooled != expect_pooled {
            return Some(format!("pooled ids {} expected {}", show_set(&pooled), show_set(expect_pooled)));
        }
        for (id, s) in st {
            let o = self.oracle_stage(*id);
            if *s != o && !(*s == Stage::Gap && o == Stage::Pending) {
                return Some(format!("tx {id} is staged {s:?}, the stored window says {o:?}"));
            }
        }
        None
    }

    /// (c) after a tip change (or a submission): poll until the pool's staging and the block
    /// template agree with the stored window; report what was last seen otherwise
    fn check_pool(&mut self, out: &mut Out, expect_pooled: &BTreeSet<u64>, what: &str) -> BTreeMap<u64, Stage> {
        let last = self.settle_pool(out, expect_pooled, what);
        self.pool_line(out, &last);
        last
    }

    fn pool_line(&self, out: &mut Out, last: &BTreeMap<u64, Stage>) {
        let proposed: Vec<u64> = last.iter().filter(|(_, s)| **s == Stage::Proposed).map(|(id, _)| *id).collect();
        let pooled: Vec<u64> = last.keys().copied().collect();
        out.op(&format!("pool {}", show_list(&pooled)), &format!("proposed={}", show_list(&proposed)));
        // the whole pool, every entry with its stage, against the model's pool (Window.poolReorg /
        // poolSubmit: remove committed, remove_by_detached_proposal, mine-mode moves, re-admissions)
        let stages = if last.is_empty() {
            "-".to_string()
        } else {
            last.iter()
                .map(|(id, s)| {
                    format!(
                        "{id}:{}",
                        match s {
                            Stage::Pending => "pending",
                            Stage::Gap => "gap",
                            Stage::Proposed => "proposed",
                        }
                    )
                })
                .collect::<Vec<_>>()
                .join(",")
        };
        out.op("pstages", &stages);
        out.count("pool-checked");
    }

    fn settle_pool(&mut self, out: &mut Out, expect_pooled: &BTreeSet<u64>, what: &str) -> BTreeMap<u64, Stage> {
        self.sync_pool(out);
        let t = Instant::now();
        let patience = if self.dead { Duration::from_millis(200) } else { Duration::from_secs(12) };
        let mut last;
        loop {
            let st = self.stages();
            let mut problem = self.staging_mismatch(&st, expect_pooled).map(|p| ("pool-stage-not-window", p));
            if problem.is_none() {
                // the template packages exactly the pooled ids of the committable set
                let want: BTreeSet<u64> = st.iter().filter(|(id, _)| self.oracle_stage(**id) == Stage::Proposed).map(|(id, _)| *id).collect();
                match self.tpc().get_block_template(None, None, None) {
                    Ok(Ok(t)) => {
                        let block: packed::Block = t.into();
                        let block = block.into_view();
                        let got: BTreeSet<u64> = block.transactions().iter().skip(1).map(|tx| self.small(&tx.proposal_short_id())).collect();
                        if block.parent_hash() != self.n().tip_hash() {
                            problem = Some(("pool-template-not-window", format!("template parent is not the tip")));
                        } else if got != want {
                            problem = Some(("pool-template-not-window", format!("template commits {}, committable and pooled: {}", show_set(&got), show_set(&want))));
                        }
                    }
                    other => problem = Some(("pool-template-not-window", format!("no template: {:?}", other.map(|r| r.map(|_| ()).map_err(|e| e.to_string())).map_err(|e| e.to_string())))),
                }
            }
            last = st;
            match problem {
                None => break,
                Some((cls, p)) => {
                    if t.elapsed() > patience {
                        out.oracle_fail(cls, &format!("{what}: {p} (tip {})", self.tip()));
                        self.dead = true;
                        break;
                    }
                    std::thread::sleep(Duration::from_millis(5));
                }
            }
        }
        if last.iter().any(|(id, s)| *s == Stage::Gap && self.oracle_stage(*id) == Stage::Pending) {
            out.count("pool-gap-entry-outside-window (C12 known finding)");
        }
        last
    }

    /// submit a transaction at the current tip: its stage must be what the stored window says
    fn submit(&mut self, out: &mut Out, id: u64, pooled: &mut BTreeSet<u64>) {
        let tx = self.txs[id as usize - 1].clone();
        let want = self.oracle_stage(id);
        match self.tpc().submit_local_tx(tx) {
            Ok(Ok(())) => {}
            other => {
                out.oracle_fail("pool-rejects-valid-tx", &format!("submit {id}: {:?}", other.map(|r| r.map_err(|e| e.to_string())).map_err(|e| e.to_string())));
                self.dead = true;
                return;
            }
        }
        pooled.insert(id);
        // the entry appears with the stage chosen by get_tx_status
        let t = Instant::now();
        let got = loop {
            let st = self.stages();
            if let Some(s) = st.get(&id) {
                break Some(*s);
            }
            if t.elapsed() > Duration::from_secs(12) {
                break None;
            }
            std::thread::sleep(Duration::from_millis(2));
        };
        let name = |s: Stage| match s {
            Stage::Proposed => "proposed",
            Stage::Gap => "gap",
            Stage::Pending => "fresh",
        };
        match got {
            Some(s) => {
                if s != want {
                    out.oracle_fail("pool-status-not-window", &format!("tx {id} submitted at tip {} was staged {s:?}; the stored window says {want:?}", self.tip()));
                    self.dead = true;
                }
                out.op(&format!("status {id}"), name(s));
                out.count(&format!("pool-submit-{}", name(s)));
            }
            None => {
                out.oracle_fail("pool-rejects-valid-tx", &format!("submit {id}: accepted but never pooled"));
                self.dead = true;
            }
        }
    }

    /// a tip change with the pool attached: `nswitchm` line (ids moved out of Proposed = the
    /// detached_proposal_id handed to the pool, restricted to the entries that stay pooled)
    fn deliver_pool(&mut self, out: &mut Out, base: Vec<Blk>, specs: &[Spec], pooled: &mut BTreeSet<u64>, what: &str) {
        let before = self.stages();
        let (old_set, _, _) = self.store_window();
        if let Some(first) = specs.first().filter(|s| !s.commits.is_empty()) {
            // recorded for the replay only (the model answers ok)
            out.op(&format!("ncommit {}", show_list(&first.commits)), "ok");
        }
        // the blocks are delivered one by one; only the last one may change the tip
        let mut cand = base;
        for (k, spec) in specs.iter().enumerate() {
            let parent = cand.last().unwrap().hash.clone();
            let (blk, union, unc) = self.build(&parent, spec);
            let r = self.n().process(&blk);
            if r != Ok(true) {
                out.oracle_fail("node-rejects-valid-block", &format!("{what}: block {}: {:?}", blk.number(), r));
                self.dead = true;
                return;
            }
            cand.push(Blk { hash: blk.hash(), ids: union, committed: spec.commits.clone(), own: spec.ids.clone(), uncle: unc });
            let is_tip = self.n().tip_hash() == blk.hash();
            if is_tip != (k + 1 == specs.len()) {
                out.oracle_fail("node-tip-unexpected", &format!("{what}: block {} is_tip={is_tip}", blk.number()));
                self.dead = true;
                return;
            }
        }
        let common = self.chain.iter().zip(cand.iter()).take_while(|(a, b)| a.hash == b.hash).count() - 1;
        // transactions committed on the detached part and not on the attached part are re-admitted
        let detached: BTreeSet<u64> = self.chain[common + 1..].iter().flat_map(|b| b.committed.iter().copied()).collect();
        let attached: BTreeSet<u64> = cand[common + 1..].iter().flat_map(|b| b.committed.iter().copied()).collect();
        for i in &attached {
            pooled.remove(i);
        }
        for i in detached.difference(&attached) {
            pooled.insert(*i);
            out.count("pool-readmitted-after-detach");
        }
        self.chain = cand.clone();
        self.sync_pool(out);
        let after = self.settle_pool(out, pooled, what);
        // ids moved out of Proposed by this change, among the entries pooled before and after
        let watch: Vec<u64> = before.iter().filter(|(id, s)| **s == Stage::Proposed && after.contains_key(*id)).map(|(id, _)| *id).collect();
        let moved: Vec<u64> = watch.iter().copied().filter(|id| after[id] != Stage::Proposed).collect();
        let (new_set, _, _) = self.store_window();
        let left: Vec<u64> = watch.iter().copied().filter(|id| old_set.contains(id) && !new_set.contains(id)).collect();
        if moved != left {
            out.oracle_fail("pool-moved-not-left-window", &format!("{what}: entries moved out of Proposed: {}; ids that left the stored committable window: {}", show_list(&moved), show_list(&left)));
        }
        if !moved.is_empty() {
            out.count("pool-entry-moved-back");
        }
        let mut op = format!("nswitchm {} {common}", show_list(&watch));
        for b in &cand[common + 1..] {
            op.push(' ');
            op.push_str(&b.token());
        }
        let l = self.view_line(out, &format!("{what}: {op}"));
        out.op(&op, &format!("moved={} {l}", show_list(&moved)));
        self.pool_line(out, &after);
    }
}

fn pool_case(out: &mut Out, rng: &mut Rng, base: &Path, window: (u64, u64), no: usize) {
    let (c, f) = window;
    assert!(c >= 2 && f >= c + 1);
    let mut sim = Sim::new(base, &format!("pool-{c}-{f}-{no}"), window, 12, true);
    sim.begin(out, "pool");
    let mut ids: Vec<u64> = (1..=12).collect();
    rng.shuffle(&mut ids);
    let (a, b, ab, n, e, a2, b2, ab2, m) = (ids[0], ids[1], ids[2], ids[3], ids[4], ids[5], ids[6], ids[7], ids[8]);
    let mut pooled: BTreeSet<u64> = BTreeSet::new();
    // 1. pad: chain longer than the window
    let h0 = f + 2;
    for _ in 0..h0 {
        if sim.dead {
            break;
        }
        let u = sim.unique_id();
        let ch = sim.chain.clone();
        sim.deliver_pool(out, ch, &[Spec { ids: vec![u], ..Default::default() }], &mut pooled, "pad");
    }
    // 2. early submissions: nothing proposed yet
    for id in [a2, b2, ab2, m] {
        if !sim.dead {
            sim.submit(out, id, &mut pooled);
        }
    }
    if !sim.dead {
        sim.check_pool(out, &pooled.clone(), "early submissions");
    }
    // 3. proposals placed by their distance from block T+1
    let t = h0 + f + 1;
    let mut plan: BTreeMap<u64, (Vec<u64>, Vec<u64>)> = BTreeMap::new(); // height -> (own, uncle)
    let at = |d: u64| t + 1 - d;
    let ab2_first = if c + 1 <= f { c + 1 } else { c };
    let mut put = |h: u64, id: u64, uncle: bool| {
        let e = plan.entry(h).or_default();
        if uncle { e.1.push(id) } else { e.0.push(id) }
    };
    put(at(f + 1), e, false);
    put(at(f), a, rng.chance(1, 2));
    put(at(f), ab, true);
    put(at(c - 1), ab, false);
    put(at(c), a2, rng.chance(1, 2));
    put(at(ab2_first), ab2, false);
    put(at(1), ab2, false);
    put(at(c - 1), b, rng.chance(1, 2));
    put(at(1), b2, false);
    for h in h0 + 1..=t {
        if sim.dead {
            break;
        }
        let (mut own, unc) = plan.get(&h).cloned().unwrap_or_default();
        if rng.chance(1, 2) {
            own.push(sim.unique_id());
        }
        let ch = sim.chain.clone();
        sim.deliver_pool(out, ch, &[Spec { ids: own, uncle_ids: if unc.is_empty() { None } else { Some(unc) }, commits: vec![], slow: false }], &mut pooled, "planned proposals");
    }
    // 4. submissions at tip T: set only / gap only / both / neither / expired
    for (id, want) in [(a, Stage::Proposed), (b, Stage::Gap), (ab, Stage::Proposed), (n, Stage::Pending), (e, Stage::Pending)] {
        if sim.dead {
            break;
        }
        if sim.oracle_stage(id) != want {
            out.count("pool-plan-mismatch");
            eprintln!("pool plan mismatch: tx {id} planned {want:?}, stored window {:?}", sim.oracle_stage(id));
        }
        sim.submit(out, id, &mut pooled);
    }
    if !sim.dead {
        sim.check_pool(out, &pooled.clone(), "submissions at T");
    }
    // 5. A1 commits a and ab (both committable) and proposes m; A2..Ac
    let root = sim.chain.clone();
    if !sim.dead {
        let ch = sim.chain.clone();
        sim.deliver_pool(out, ch, &[Spec { ids: vec![m], uncle_ids: None, commits: vec![a, ab], slow: false }], &mut pooled, "A1 commits");
    }
    for _ in 1..c {
        if sim.dead {
            break;
        }
        let u = sim.unique_id();
        let ch = sim.chain.clone();
        sim.deliver_pool(out, ch, &[Spec { ids: vec![u], ..Default::default() }], &mut pooled, "A");
    }
    if !sim.dead && sim.stages().get(&m) != Some(&Stage::Proposed) {
        out.count("pool-plan-mismatch");
    }
    // 6. reorganisation to B (c+1 blocks from T): a and ab are re-admitted (ab proposed in B1 and
    // again in the last block: both parts of the view), m is not proposed on B: back from Proposed;
    // n (pending so far) is proposed in B1 and in the last block: the stage move must file it Proposed
    if !sim.dead {
        let mut specs: Vec<Spec> = vec![];
        for k in 0..=c {
            let mut own = vec![sim.unique_id()];
            if k == 0 {
                own.push(a);
                own.push(ab);
                own.push(n);
            }
            if k == c {
                own.push(ab);
                own.push(n);
            }
            specs.push(Spec { ids: own, ..Default::default() });
        }
        sim.deliver_pool(out, root, &specs, &mut pooled, "reorg to B");
        out.count("pool-reorg");
    }
    // 7. two more blocks: the re-proposed ids move on
    for _ in 0..2 {
        if sim.dead {
            break;
        }
        let u = sim.unique_id();
        let ch = sim.chain.clone();
        sim.deliver_pool(out, ch, &[Spec { ids: vec![u], ..Default::default() }], &mut pooled, "after reorg");
    }
    if !sim.dead {
        out.nontrivial(format!("pool w={window:?} len={}", sim.chain.len()));
    }
    // the pool service keeps `Shared` alive until the process exits: stop the chain service, keep going
    sim.finish();
}


// ------------------------------------------------------------------------------------------------
// family `poolr`: random histories of a node WITH the tx-pool service
// ------------------------------------------------------------------------------------------------

/// Random interleavings of submissions, extensions (proposals in the block or in an embedded uncle,
/// commitments of pooled Proposed transactions) and reorganisations of every depth class relative to
/// the window (the first block of the new branch may commit transactions that are committable at the
/// fork point; transactions committed only on the abandoned branch are re-admitted). After every step
/// the WHOLE pool (every entry with its stage) is compared with the model's `poolReorg` / `poolSubmit`
/// and with the stored window, and the block template with the pooled committable ids.
fn poolr_case(out: &mut Out, rng: &mut Rng, base: &Path, window: (u64, u64), no: usize, n_ops: usize) {
    let (c, f) = window;
    let n_tx = 12u64;
    let mut sim = Sim::new(base, &format!("poolr-{c}-{f}-{no}"), window, n_tx, true);
    sim.begin(out, "poolr");
    let mut pooled: BTreeSet<u64> = BTreeSet::new();
    let (mut reorgs, mut commits, mut readmits, mut subs) = (0, 0, 0, 0);
    let prop_ids = |rng: &mut Rng, sim: &mut Sim| -> Vec<u64> {
        let mut v = vec![];
        for _ in 0..rng.below(4) {
            let id = rng.range(1, n_tx);
            if !v.contains(&id) {
                v.push(id);
            }
        }
        if rng.chance(1, 3) {
            v.push(sim.unique_id());
        }
        v
    };
    for _ in 0..n_ops {
        if sim.dead {
            break;
        }
        let tip = sim.tip();
        match rng.below(10) {
            0..=4 => {
                // one more block; sometimes it commits pooled transactions that are committable now
                let (sset, _, _) = sim.store_window();
                let done = sim.committed_on_main();
                let cands: Vec<u64> = (1..=n_tx).filter(|i| sset.contains(i) && !done.contains(i)).collect();
                let mut cm: Vec<u64> = vec![];
                if !cands.is_empty() && rng.chance(1, 2) {
                    for i in &cands {
                        if rng.chance(1, 2) && cm.len() < 3 {
                            cm.push(*i);
                        }
                    }
                }
                commits += cm.len();
                let ids = prop_ids(rng, &mut sim);
                let uncle_ids = if tip >= 1 && rng.chance(1, 4) { Some(prop_ids(rng, &mut sim)) } else { None };
                let ch = sim.chain.clone();
                sim.deliver_pool(out, ch, &[Spec { ids, uncle_ids, commits: cm, slow: false }], &mut pooled, "poolr extend");
                out.count("poolr-extend");
            }
            5..=7 => {
                let done = sim.committed_on_main();
                let free: Vec<u64> = (1..=n_tx).filter(|i| !done.contains(i) && !pooled.contains(i)).collect();
                if free.is_empty() {
                    continue;
                }
                // biased to ids that are in some part of the window now (Gap / Proposed at submission)
                let (sset, sgap, _) = sim.store_window();
                let in_gap: Vec<u64> = free.iter().copied().filter(|i| sgap.contains(i)).collect();
                let in_set: Vec<u64> = free.iter().copied().filter(|i| sset.contains(i)).collect();
                let id = if !in_gap.is_empty() && rng.chance(1, 2) {
                    *rng.pick(&in_gap)
                } else if !in_set.is_empty() && rng.chance(1, 2) {
                    *rng.pick(&in_set)
                } else {
                    *rng.pick(&free)
                };
                sim.submit(out, id, &mut pooled);
                subs += 1;
                if !sim.dead {
                    sim.check_pool(out, &pooled.clone(), "poolr submit");
                }
            }
            _ => {
                if tip == 0 {
                    continue;
                }
                let depth = match rng.below(5) {
                    0 => 1,
                    1 => c,
                    2 => rng.range(c, f + 1),
                    3 => f + rng.below(3),
                    _ => rng.range(1, tip),
                }
                .min(tip)
                .min(8)
                .max(1);
                let common = (tip - depth) as usize;
                let prefix = sim.chain[..=common].to_vec();
                // the first block of the branch may commit what is committable at the fork point
                let (pset, _) = sim.window_of(&prefix);
                let pdone: BTreeSet<u64> = prefix.iter().flat_map(|b| b.committed.iter().copied()).collect();
                let cm: Vec<u64> = (1..=n_tx).filter(|i| pset.contains(i) && !pdone.contains(i) && rng.chance(1, 3)).take(2).collect();
                let lost: BTreeSet<u64> = sim.chain[common + 1..].iter().flat_map(|b| b.committed.iter().copied()).filter(|i| !cm.contains(i)).collect();
                readmits += lost.len();
                let mut specs: Vec<Spec> = vec![];
                for k in 0..=depth {
                    let ids = prop_ids(rng, &mut sim);
                    specs.push(Spec { ids, uncle_ids: None, commits: if k == 0 { cm.clone() } else { vec![] }, slow: false });
                }
                sim.deliver_pool(out, prefix, &specs, &mut pooled, "poolr reorg");
                reorgs += 1;
                out.count("poolr-reorg");
                if depth > f {
                    out.count("poolr-reorg-deeper-than-window");
                }
            }
        }
    }
    if !sim.dead && reorgs > 0 && commits > 0 && subs > 2 {
        out.nontrivial(format!("poolr w={window:?} reorgs={reorgs} commits={commits} readmits={readmits} subs={subs} len={}", sim.chain.len()));
    }
    sim.finish();
}

// ------------------------------------------------------------------------------------------------
// family `heavy`: heavier-but-shorter branches through the real chain service
// ------------------------------------------------------------------------------------------------

/// node.rs `make_consensus` with the dynamic difficulty adjustment switched on (dummy PoW accepts any
/// header whose compact target is the epoch's): epoch 0 has `gl` blocks (numbers 0..gl-1), the
/// difficulty of epoch 1 is computed from the duration of epoch 0 on the branch the block is on.
fn uneven_consensus(window: (u64, u64), n_tx: u64, gl: u64, t: u64, d0: u64) -> Consensus {
    let (_, _, always_success_script) = always_success_cell();
    let tx = create_always_success_tx();
    let cells: Vec<TransactionView> = (0..n_tx)
        .map(|i| {
            TransactionBuilder::default()
                .input(CellInput::new(OutPoint::null(), 0))
                .output(CellOutput::new_builder().capacity(capacity_bytes!(50_000)).lock(always_success_script.clone()).build())
                .output_data(Bytes::from(i.to_le_bytes().to_vec()))
                .build()
        })
        .collect();
    let mut all: Vec<&TransactionView> = vec![&tx];
    all.extend(cells.iter());
    let dao = genesis_dao_data(all).unwrap();
    let compact = difficulty_to_compact(U256::from(d0));
    let genesis = BlockBuilder::default()
        .dao(dao)
        .compact_target(compact)
        .epoch(EpochNumberWithFraction::new_unchecked(0, 0, 0))
        .transaction(tx)
        .transactions(cells)
        .build();
    let epoch_reward = capacity_bytes!(1_917_808);
    let epoch0 = build_genesis_epoch_ext(epoch_reward, compact, gl, t, (1, 40));
    ConsensusBuilder::new(genesis, epoch0)
        .initial_primary_epoch_reward(epoch_reward)
        .epoch_duration_target(t)
        .permanent_difficulty_in_dummy(false)
        .tx_proposal_window(ProposalWindow(window.0, window.1))
        .cellbase_maturity(EpochNumberWithFraction::new(0, 0, 1))
        .build()
}

/// One shape: the main chain A leaves epoch 0 through a SLOW last block (epoch 1 on A has a quarter of
/// the difficulty it has on a branch with a fast epoch 0) and grows `la` light blocks; branch B forks
/// `k` blocks below the epoch boundary, has a fast last epoch-0 block and needs only `lb < la` heavy
/// blocks to be the best chain: the tip number goes DOWN by a reorganisation (`reload_proposal_table`
/// with new_tip < old tip, `finalize` at a lower number, real blocks from the store). Then A grows
/// until it is heavier again (switch-back, verified blocks re-attached, tip number up), B once more
/// (down again). Restarts in between. Every view is compared as in the other families.
fn heavy_case(out: &mut Out, rng: &mut Rng, base: &Path, window: (u64, u64), k: u64, la: u64) {
    let (c, f) = window;
    let gl = f + 4 + k;
    let (t, d0) = (80u64, 1_000_000u64);
    let mut sim = Sim::new_on(base, &format!("heavy-{c}-{f}-{k}-{la}"), window, 2, false, Some((gl, t, d0)));
    sim.begin(out, "heavy");
    // epoch 0 up to the fork point (block gl-1-k), every block with a unique id
    let n0 = gl - 1 - k;
    let specs: Vec<Spec> = (0..n0).map(|i| fork_spec(&mut sim, rng, i >= 1)).collect();
    let g = sim.chain.clone();
    sim.deliver(out, g, &specs, "heavy base");
    let root = sim.chain.clone();
    let common = sim.tip();
    // A: k blocks to the end of epoch 0, the last one slow; then la blocks of epoch 1
    let mut specs: Vec<Spec> = (0..k + la).map(|i| fork_spec(&mut sim, rng, i >= 1)).collect();
    specs[k as usize - 1].slow = true;
    sim.deliver(out, root.clone(), &specs, "heavy A");
    let a = sim.chain.clone();
    if sim.dead {
        sim.finish();
        return;
    }
    let diff = |sim: &Sim, ch: &[Blk]| compact_to_difficulty(sim.builder.block(&ch.last().unwrap().hash).compact_target());
    let da = diff(&sim, &a);
    if rng.chance(1, 2) {
        sim.restart(out);
    }
    // B: k fast blocks to the end of epoch 0, then heavy blocks until B is the best chain
    let mut b = root.clone();
    let mut nb = 0u64;
    let mut moved_down = false;
    while !sim.dead && sim.chain.last().unwrap().hash == a.last().unwrap().hash && nb < k + la + 2 {
        let spec = fork_spec(&mut sim, rng, nb >= 1);
        let before_tip = sim.tip();
        let ch = sim.deliver(out, b.clone(), &[spec], "heavy B");
        nb += 1;
        if ch > 0 {
            b = sim.chain.clone();
            if sim.tip() < before_tip {
                moved_down = true;
                out.count("heavy-reorg-to-shorter-branch");
                out.count(&format!("heavy down by {} depth {}", before_tip - sim.tip(), before_tip - common));
            }
        } else {
            b = sim.old.last().cloned().unwrap_or(b);
        }
    }
    if sim.dead {
        sim.finish();
        return;
    }
    let db = diff(&sim, &b);
    if !moved_down {
        // the plan needs a difficulty ratio above la / lb between the branches
        out.count("heavy-plan-mismatch");
        eprintln!("heavy plan mismatch: w={window:?} k={k} la={la}: difficulty A {da:#x} B {db:#x}, B blocks {nb}, tip {} vs A {}", sim.tip(), a.len() - 1);
        sim.finish();
        return;
    }
    sim.restart(out);
    // A': extend A until it is heavier again (the blocks of A above the fork point were verified before)
    let mut a2 = a.clone();
    let mut n = 0;
    while !sim.dead && sim.chain.last().unwrap().hash == b.last().unwrap().hash && n < 40 {
        let spec = fork_spec(&mut sim, rng, true);
        let ch = sim.deliver(out, a2.clone(), &[spec], "heavy A'");
        n += 1;
        a2 = if ch > 0 { sim.chain.clone() } else { sim.old.last().cloned().unwrap_or(a2) };
    }
    if !sim.dead && sim.chain.last().unwrap().hash == a2.last().unwrap().hash {
        out.count("heavy-switch-back-to-longer");
    }
    if rng.chance(1, 2) && !sim.dead {
        sim.restart(out);
    }
    // B': one or two more heavy blocks: down again, re-attaching verified blocks
    let mut b2 = b.clone();
    let mut n = 0;
    while !sim.dead && sim.chain.last().unwrap().hash == a2.last().unwrap().hash && n < 6 {
        let spec = fork_spec(&mut sim, rng, true);
        let before_tip = sim.tip();
        let ch = sim.deliver(out, b2.clone(), &[spec], "heavy B'");
        n += 1;
        if ch > 0 {
            b2 = sim.chain.clone();
            if sim.tip() < before_tip {
                out.count("heavy-reorg-to-shorter-branch");
                out.count("heavy-switch-back-to-shorter");
            }
        } else {
            b2 = sim.old.last().cloned().unwrap_or(b2);
        }
    }
    if !sim.dead {
        if rng.chance(1, 2) {
            sim.restart(out);
        }
        out.nontrivial(format!("heavy w={window:?} k={k} la={la} len={}", sim.chain.len()));
    }
    sim.finish();
}

// ------------------------------------------------------------------------------------------------
// family `rst`: a restart at EVERY height, for window sizes of every kind relative to the chain
// ------------------------------------------------------------------------------------------------

/// The chain grows block by block from genesis to `top`; after every block the node is stopped and
/// started on the same directory (`init_proposal_table`), the view before = the view after = the
/// window of the stored chain. Then the chain is cut back into the region where the arithmetic
/// saturates (a truncation to a height ≤ w_close, to 1, to 0), restarted there, and grown again on a
/// new branch. Windows: w_far ≥ top (the window reaches genesis all the time), w_close ≥ top (nothing
/// ever committable), w_close = w_far, the default, small ones.
fn rst_case(out: &mut Out, rng: &mut Rng, base: &Path, window: (u64, u64), top: u64, no: usize) {
    let (c, f) = window;
    let mut sim = Sim::new(base, &format!("rst-{c}-{f}-{no}"), window, 2, false);
    sim.begin(out, "rst");
    sim.restart(out); // a restart on the genesis-only store
    let grow = |sim: &mut Sim, out: &mut Out, rng: &mut Rng, upto: u64, what: &str| {
        while !sim.dead && sim.tip() < upto {
            let spec = fork_spec(sim, rng, sim.tip() >= 1);
            let ch = sim.chain.clone();
            sim.deliver(out, ch, &[spec], what);
            if !sim.dead {
                sim.restart(out);
            }
        }
    };
    grow(&mut sim, out, rng, top, "rst grow");
    // down into the saturating region and up again
    let mut targets: Vec<u64> = vec![c.min(top - 1), c.saturating_sub(1).min(top - 1), 1, 0];
    targets.dedup();
    let target = *rng.pick(&targets);
    if !sim.dead && target < sim.tip() {
        sim.truncate(out, target);
        if !sim.dead {
            sim.restart(out);
        }
        let upto = (target + c + 1).min(top);
        grow(&mut sim, out, rng, upto, "rst regrow");
    }
    if !sim.dead {
        let kind = if c >= top + 1 { "close>=tip" } else if f >= top + 1 { "far>=tip" } else if c == f { "close=far" } else { "inside" };
        out.count(&format!("rst window {kind}"));
        out.nontrivial(format!("rst w={window:?} top={top} cut={target}"));
    }
    sim.finish();
}

// ------------------------------------------------------------------------------------------------

// ------------------------------------------------------------------------------------------------
// replay of a recorded case (violation replay files, shrinking): the op lines are executed literally
// on a fresh node. Blocks are rebuilt from the lines: `nswitch` carries the union ids per block (they
// become the block's own proposals; uncle placement is not recorded), a branch whose leading blocks
// repeat an abandoned chain (same ids above the same fork point) is delivered ON that chain, so that
// switch-backs re-attach previously verified blocks as in the recorded run. Transactions committed by
// blocks of the pool family are not recorded (only `verify` lines carry commitments).
// ------------------------------------------------------------------------------------------------

fn parse_ids(s: &str) -> Vec<u64> {
    if s == "-" { vec![] } else { s.split(',').map(|x| x.parse().expect("id")).collect() }
}

/// a block token `<own>` or `<own>+<uncle's>` (older recordings carry the union ids only)
fn parse_blk(s: &str) -> (Vec<u64>, Option<Vec<u64>>) {
    match s.split_once('+') {
        None => (parse_ids(s), None),
        Some((o, u)) => (parse_ids(o), Some(parse_ids(u))),
    }
}

impl Sim {
    /// base chain and remaining specs for a recorded `nswitch <common> <ids>*`
    fn replay_base(&self, common: usize, branch: &[(Vec<u64>, Option<Vec<u64>>)]) -> (Vec<Blk>, Vec<Spec>) {
        let mut best: (usize, Vec<Blk>) = (0, self.chain[..=common].to_vec());
        for o in &self.old {
            if o.len() <= common + 1 || o[common].hash != self.chain[common].hash {
                continue;
            }
            let k = o[common + 1..].iter().zip(branch.iter()).take_while(|(b, t)| b.own == t.0 && b.uncle == t.1).count();
            // the whole abandoned chain must be re-used (its tip is the parent of the first new block)
            if k > best.0 && k < branch.len() && common + 1 + k == o.len() {
                best = (k, o.clone());
            }
        }
        let specs = branch[best.0..].iter().map(|t| Spec { ids: t.0.clone(), uncle_ids: t.1.clone(), ..Default::default() }).collect();
        (best.1, specs)
    }
}

fn replay_case(out: &mut Out, base: &Path, lines: &[String], with_pool: bool) {
    let mut sim: Option<Sim> = None;
    let mut label = "replay".to_string();
    let mut pooled: BTreeSet<u64> = BTreeSet::new();
    let mut pending_commits: Vec<u64> = vec![];
    let mut next_slow = false;
    let mut i = 0;
    while i < lines.len() {
        let ts: Vec<&str> = lines[i].split(' ').collect();
        i += 1;
        match ts[0] {
            "case" => {
                if let Some(s) = sim.take() {
                    s.finish();
                }
                label = ts.get(2).unwrap_or(&"replay").to_string();
            }
            "cfg" => {
                let w: (u64, u64) = (ts[1].parse().expect("close"), ts[2].parse().expect("far"));
                if let Some(s) = sim.take() {
                    s.finish();
                }
                let uneven = lines.get(i).and_then(|l| {
                    let t: Vec<&str> = l.split(' ').collect();
                    if t[0] == "nuneven" && t.len() == 4 { Some((t[1].parse().ok()?, t[2].parse().ok()?, t[3].parse().ok()?)) } else { None }
                });
                if uneven.is_some() {
                    i += 1;
                }
                let mut s = Sim::new_on(base, &format!("replay-{i}"), w, 24, with_pool, uneven);
                s.begin(out, &label);
                sim = Some(s);
                pooled.clear();
            }
            "nboot" => {}
            _ => {
                let sim = sim.as_mut().expect("cfg first");
                if sim.dead {
                    continue;
                }
                match ts[0] {
                    "nswitch" => {
                        let common: usize = ts[1].parse().expect("common");
                        if common >= sim.chain.len() {
                            out.count("replay-out-of-step");
                            sim.dead = true;
                            continue;
                        }
                        let branch: Vec<(Vec<u64>, Option<Vec<u64>>)> = ts[2..].iter().map(|x| parse_blk(x)).collect();
                        if branch.is_empty() {
                            sim.truncate(out, common as u64);
                        } else {
                            let (b, mut specs) = sim.replay_base(common, &branch);
                            if let Some(first) = specs.first_mut() {
                                first.slow = std::mem::take(&mut next_slow);
                            }
                            sim.deliver(out, b, &specs, "replay");
                        }
                    }
                    "nrestart" => {
                        if !with_pool {
                            sim.restart(out);
                        }
                    }
                    "verify" => {
                        let commits = parse_ids(ts[1]);
                        // an accepted block is followed by its own `nswitch <tip> <ids>` line
                        let mut ids = vec![];
                        let mut uncle_ids = None;
                        // (in the recording a block is accepted iff all its commitments are in the
                        // stored window, or the case ends there)
                        let (sset, _, _) = sim.store_window();
                        let accepted = commits.iter().all(|c| sset.contains(c));
                        if let Some(next) = lines.get(i).filter(|_| accepted) {
                            let nt: Vec<&str> = next.split(' ').collect();
                            if nt[0] == "nswitch" && nt.len() == 3 && nt[1].parse::<u64>().ok() == Some(sim.tip()) {
                                (ids, uncle_ids) = parse_blk(nt[2]);
                                i += 1;
                            }
                        }
                        sim.verify(out, &Spec { ids, uncle_ids, commits, slow: false }, "replay");
                    }
                    "status" => {
                        let id: u64 = ts[1].parse().expect("id");
                        assert!(id >= 1 && id <= sim.n_tx, "status: not a transaction id");
                        sim.submit(out, id, &mut pooled);
                    }
                    "ncommit" => {
                        pending_commits = parse_ids(ts[1]);
                    }
                    "nswitchm" => {
                        let common: usize = ts[2].parse().expect("common");
                        if common >= sim.chain.len() {
                            out.count("replay-out-of-step");
                            sim.dead = true;
                            continue;
                        }
                        let mut specs: Vec<Spec> = ts[3..].iter().map(|x| { let t = parse_blk(x); Spec { ids: t.0, uncle_ids: t.1, ..Default::default() } }).collect();
                        assert!(!specs.is_empty(), "nswitchm: no block");
                        specs[0].commits = std::mem::take(&mut pending_commits);
                        let b = sim.chain[..=common].to_vec();
                        sim.deliver_pool(out, b, &specs, &mut pooled, "replay");
                        // deliver_pool prints the `pool` line that follows in the recording
                        if lines.get(i).map_or(false, |l| l.starts_with("pool ")) {
                            i += 1;
                        }
                    }
                    "pool" => {
                        sim.check_pool(out, &pooled.clone(), "replay");
                    }
                    // printed by check_pool / deliver_pool right after the `pool` line
                    "pstages" => {}
                    "nslow" => {
                        next_slow = true;
                    }
                    other => panic!("C20 node replay: unknown op {other}"),
                }
            }
        }
    }
    if let Some(s) = sim.take() {
        s.finish();
    }
}

pub fn run(opts: &Opts) {
    let mut out = Out::new(&opts.out);
    if let Some(rp) = &opts.replay {
        let family = opts.extra.first().map(|s| s.as_str()).unwrap_or("node").to_string();
        let text = std::fs::read_to_string(rp).expect("read replay");
        let lines = read_replay_ops(rp);
        let header_stream = text.lines().find_map(|l| l.strip_prefix("# property C20 stream ").map(|r| r.split(' ').next().unwrap_or("").to_string()));
        let table_level = lines.iter().any(|l| {
            let t = l.split(' ').next().unwrap_or("");
            matches!(t, "boot" | "switch" | "restart" | "insert" | "remove" | "finalize" | "view-reset") || l == "cfg default"
        });
        let pool_ops = lines.iter().any(|l| l.starts_with("status ") || l.starts_with("nswitchm ") || l.starts_with("pool "));
        let mine = match header_stream {
            Some(h) => h == family,
            None => !table_level && (if pool_ops { family == "pool" } else { family == "node" }),
        };
        if !mine || table_level {
            out.finish("replay (a case recorded for another stream)");
            return;
        }
        let base = scratch_dir(&opts.out, &format!("c20replay{family}"));
        replay_case(&mut out, &base, &lines, family.starts_with("pool"));
        let _ = std::fs::remove_dir_all(&base);
        out.finish("replayed case");
        if family.starts_with("pool") {
            std::process::exit(0);
        }
        return;
    }
    let family = opts.extra.first().map(|s| s.as_str()).unwrap_or("node").to_string();
    let mut rng = Rng::new(opts.seed ^ (family.bytes().map(|b| b as u64).sum::<u64>() << 40));
    let base = scratch_dir(&opts.out, &format!("c20{family}"));
    let k = opts.scale as usize * if opts.thorough() { 4 } else { 1 };
    match family.as_str() {
        "node" => {
            let cases = if opts.thorough() { 90 } else { 6 } * opts.scale as usize;
            for i in 0..cases {
                node_case(&mut out, &mut rng, &base, i, 45);
            }
            let _ = std::fs::remove_dir_all(&base);
            out.finish("node cases with at least one reorganisation, one restart, one accepted and one rejected commitment (distinct by window, counts and final length)");
        }
        "edge" => {
            for _ in 0..k {
                for w in [(2, 10), (1, 1), (1, 2), (2, 4)] {
                    edge_case(&mut out, &mut rng, &base, w);
                }
                if opts.thorough() {
                    for w in [(3, 5), (1, 10), (4, 4), (2, 3)] {
                        edge_case(&mut out, &mut rng, &base, w);
                    }
                }
            }
            let _ = std::fs::remove_dir_all(&base);
            out.finish("edge cases that ran to the end of the plan (distinct by window, accepted/rejected commitments, length)");
        }
        "fork" => {
            for _ in 0..k {
                for w in [(2, 10), (1, 1), (1, 2), (2, 4)] {
                    fork_case(&mut out, &mut rng, &base, w, (1, 3));
                }
                if opts.thorough() {
                    for w in [(3, 5), (2, 2), (1, 4)] {
                        fork_case(&mut out, &mut rng, &base, w, (1, 2));
                    }
                }
            }
            let _ = std::fs::remove_dir_all(&base);
            out.finish("completed fork shapes A / B / A' / B' / truncate / cut-off extension (distinct by window and depth)");
        }
        "pool" => {
            let mut no = 0;
            for _ in 0..k {
                for w in [(2, 4), (2, 10), (3, 5)] {
                    no += 1;
                    pool_case(&mut out, &mut rng, &base, w, no);
                }
            }
            out.finish("pool cases that ran to the end of the script (distinct by window and length)");
            let _ = std::fs::remove_dir_all(&base);
            // the tx-pool service keeps its runtime tasks alive
            std::process::exit(0);
        }
        "poolr" => {
            let cases = if opts.thorough() { 24 } else { 3 } * opts.scale as usize;
            for no in 0..cases {
                let w = *rng.pick(&[(2u64, 4u64), (1, 2), (2, 10), (3, 5), (1, 1), (2, 3)]);
                poolr_case(&mut out, &mut rng, &base, w, no, 36);
            }
            out.finish("poolr cases with a reorganisation, a commitment and more than two submissions (distinct by window and counts)");
            let _ = std::fs::remove_dir_all(&base);
            std::process::exit(0);
        }
        "heavy" => {
            // (window, blocks between the fork point and the epoch boundary, light blocks on A)
            let mut shapes: Vec<((u64, u64), u64, u64)> = vec![((2, 4), 1, 5), ((1, 2), 2, 4), ((2, 10), 3, 6), ((1, 1), 1, 7)];
            if opts.thorough() {
                shapes.push(((3, 5), 4, 5));
            }
            for _ in 1..k {
                let w = *rng.pick(&[(2, 4), (1, 2), (2, 10), (1, 1), (3, 5), (2, 3), (1, 6)]);
                shapes.push((w, rng.range(1, w.1 + 2), rng.range(3, 7)));
            }
            if opts.thorough() {
                for w in [(2u64, 4u64), (1, 2), (2, 10), (1, 1), (3, 5)] {
                    for kk in [1, w.0, w.0 + 1, w.1, w.1 + 1] {
                        shapes.push((w, kk, rng.range(3, 7)));
                    }
                }
            }
            for (w, kk, la) in shapes {
                heavy_case(&mut out, &mut rng, &base, w, kk, la);
            }
            let _ = std::fs::remove_dir_all(&base);
            out.finish("heavy cases in which a reorganisation moved the tip to a LOWER block number, that ran to the end (distinct by window, fork offset, light blocks, length)");
        }
        "rst" => {
            let mut no = 0;
            for _ in 0..k {
                // far >= tip, close >= tip, close = far, default, small, random
                let rc = rng.range(1, 4);
                let rw = (rc, rc + rng.range(0, 9));
                let mut plan: Vec<((u64, u64), u64)> = vec![((2, 30), 5), ((6, 9), 4), ((3, 3), 6), (rw, (rw.1 + 2).min(7))];
                if opts.thorough() {
                    plan.extend([((2, 10), 13), ((9, 12), 7), ((1, 1), 4), ((4, 4), 9), ((1, 12), 15), ((1, 2), 5)]);
                }
                for (w, top) in plan {
                    no += 1;
                    rst_case(&mut out, &mut rng, &base, w, top, no);
                }
            }
            let _ = std::fs::remove_dir_all(&base);
            out.finish("rst cases that ran to the end: a restart after every block (distinct by window, top height, cut height)");
        }
        other => panic!("C20: unknown family {other}"),
    }
}
