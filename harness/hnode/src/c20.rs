//! C20, node-level stream: a real node (SharedBuilder + chain service) is fed blocks carrying
//! proposal ids (own and in uncles); after every main-chain change, truncation and restart the
//! view in `Shared::snapshot().proposals()` is compared with the model and with a direct union over
//! the main chain kept by the harness; commitments of real transactions are offered at random
//! moments (around the window edges) and the block verdict is compared with the window.
//!
//! Protocol (model side: lean/CkbVerif/Driver/C20.lean):
//!   cfg <close> <far>              -> ok <close> <far>
//!   nboot                          -> set=<ids> gap=<ids>        (first start, genesis only)
//!   nswitch <common> <ids>*        -> set=.. gap=..              (what verify_block / truncate did)
//!   nrestart                       -> set=.. gap=..              (stop, start on the same directory)
//!   verify <id>                    -> ok | invalid               (block tip+1 committing tx <id>)
//! ids 1..=N_TX are the proposal short ids of real transactions spending genesis cells; ids >= 100
//! are arbitrary short ids.
use crate::common::*;
use crate::node::*;
use ckb_types::core::{BlockView, TransactionView};
use ckb_types::packed::{Byte32, ProposalShortId};
use std::collections::{BTreeSet, HashMap};

const N_TX: u64 = 12;

fn show_set(s: &BTreeSet<u64>) -> String {
    if s.is_empty() { "-".into() } else { s.iter().map(|x| x.to_string()).collect::<Vec<_>>().join(",") }
}

fn show_list(ids: &[u64]) -> String {
    if ids.is_empty() { "-".into() } else { ids.iter().map(|x| x.to_string()).collect::<Vec<_>>().join(",") }
}

struct Blk {
    hash: Byte32,
    /// union proposal ids (own + uncles')
    ids: Vec<u64>,
    /// committed tx ids
    committed: Vec<u64>,
}

struct Sim {
    cfg: NodeCfg,
    node: Option<Node>,
    builder: ChainBuilder,
    txs: Vec<TransactionView>,
    idmap: HashMap<ProposalShortId, u64>,
    chain: Vec<Blk>,
    salt: u64,
}

impl Sim {
    fn pid(&self, id: u64) -> ProposalShortId {
        if id >= 1 && id <= N_TX {
            self.txs[id as usize - 1].proposal_short_id()
        } else {
            let mut b = [0u8; 10];
            b[..8].copy_from_slice(&id.to_le_bytes());
            b[9] = 0xEE;
            ProposalShortId::new(b)
        }
    }
    fn window(&self) -> (BTreeSet<u64>, BTreeSet<u64>) {
        let (close, far) = self.cfg.window;
        let next = self.chain.len() as u64;
        let (mut set, mut gap) = (BTreeSet::new(), BTreeSet::new());
        for n in 1..next {
            let d = next - n;
            if d >= close && d <= far {
                set.extend(self.chain[n as usize].ids.iter().copied());
            } else if d < close {
                gap.extend(self.chain[n as usize].ids.iter().copied());
            }
        }
        (set, gap)
    }
    fn view_line(&self, out: &mut Out, what: &str) -> String {
        let node = self.node.as_ref().unwrap();
        let snap = node.shared.snapshot();
        let p = snap.proposals();
        let conv = |s: &std::collections::HashSet<ProposalShortId>| -> BTreeSet<u64> {
            s.iter().map(|x| self.idmap.get(x).copied().unwrap_or(u64::MAX)).collect()
        };
        let (set, gap) = (conv(p.set()), conv(p.gap()));
        let (wset, wgap) = self.window();
        if set != wset {
            out.oracle_fail("node-set-not-window", &format!("{what}: snapshot set={} window={} tip={}", show_set(&set), show_set(&wset), self.chain.len() - 1));
        }
        if gap != wgap {
            out.oracle_fail("node-gap-not-window", &format!("{what}: snapshot gap={} window={} tip={}", show_set(&gap), show_set(&wgap), self.chain.len() - 1));
        }
        if node.tip_hash() != self.chain.last().unwrap().hash {
            out.oracle_fail("node-tip-unexpected", what);
        }
        format!("set={} gap={}", show_set(&set), show_set(&gap))
    }
    fn committed_on_main(&self) -> BTreeSet<u64> {
        self.chain.iter().flat_map(|b| b.committed.iter().copied()).collect()
    }
    /// build one block on `parent` with the given own ids, optionally an uncle (a sibling of the
    /// parent) carrying `uncle_ids`, optionally committing tx `commit`
    fn build(&mut self, parent: &Byte32, ids: &[u64], uncle_ids: Option<&[u64]>, commit: Option<u64>) -> (BlockView, Vec<u64>) {
        self.salt += 1;
        let mut union: Vec<u64> = ids.to_vec();
        let mut uncles = vec![];
        if let Some(uids) = uncle_ids {
            let p = self.builder.block(parent).clone();
            if p.number() >= 1 {
                self.salt += 1;
                let spec = BlockSpec { proposals: uids.iter().map(|i| self.pid(*i)).collect(), salt: 1_000_000 + self.salt, ..Default::default() };
                let u = self.builder.build(&p.parent_hash(), &spec);
                uncles.push(u.as_uncle());
                union.extend(uids.iter().copied());
            }
        }
        let spec = BlockSpec {
            proposals: ids.iter().map(|i| self.pid(*i)).collect(),
            uncles,
            txs: commit.map(|i| vec![self.txs[i as usize - 1].clone()]).unwrap_or_default(),
            salt: self.salt,
            ..Default::default()
        };
        (self.builder.build(parent, &spec), union)
    }
}

fn gen_ids(rng: &mut Rng) -> Vec<u64> {
    let k = match rng.below(8) {
        0 | 1 => 0,
        2..=5 => 1,
        6 => 2,
        _ => 3,
    };
    let mut v: Vec<u64> = vec![];
    for _ in 0..k {
        let id = if rng.chance(3, 4) { rng.range(1, N_TX) } else { 100 + rng.below(6) };
        if !v.contains(&id) {
            v.push(id);
        }
    }
    v
}

fn node_case(out: &mut Out, rng: &mut Rng, base: &std::path::Path, case_no: usize, n_ops: usize) {
    let wins: [(u64, u64); 5] = [(2, 10), (1, 2), (2, 4), (1, 1), (3, 5)];
    let window = *rng.pick(&wins);
    let cfg = NodeCfg { epoch_len: 1000, window, genesis_cells: N_TX, with_pool: false, ..Default::default() };
    let consensus = make_consensus(&cfg);
    let dir = base.join(format!("case{case_no}"));
    let node = Node::start(&dir.join("node"), consensus.clone(), &cfg);
    let builder = ChainBuilder::new(consensus.clone(), &dir.join("builder"));
    let cells = genesis_cells(&consensus);
    let txs: Vec<TransactionView> = (0..N_TX as usize).map(|i| spend_tx(&cells[i..i + 1], 1, 1000, i as u64)).collect();
    let mut sim = Sim { cfg: cfg.clone(), node: Some(node), builder, txs, idmap: HashMap::new(), chain: vec![], salt: 0 };
    for i in (1..=N_TX).chain(100..106) {
        let p = sim.pid(i);
        sim.idmap.insert(p, i);
    }
    sim.chain.push(Blk { hash: consensus.genesis_hash(), ids: vec![], committed: vec![] });
    out.begin_case(&format!("node w={},{}", window.0, window.1));
    out.op(&format!("cfg {} {}", window.0, window.1), &format!("ok {} {}", window.0, window.1));
    let l = sim.view_line(out, "nboot");
    out.op("nboot", &l);
    let (mut reorgs, mut restarts, mut commits_ok, mut commits_bad, mut uncles) = (0, 0, 0, 0, 0);
    for _ in 0..n_ops {
        let tip = sim.chain.len() as u64 - 1;
        match rng.below(20) {
            0..=8 => {
                // extend, sometimes with an uncle
                let ids = gen_ids(rng);
                let uids = if rng.chance(1, 4) { Some(gen_ids(rng)) } else { None };
                let parent = sim.chain.last().unwrap().hash.clone();
                let (blk, union) = sim.build(&parent, &ids, uids.as_deref(), None);
                if blk.uncles().hashes().len() > 0 {
                    uncles += 1;
                }
                let r = sim.node.as_ref().unwrap().process(&blk);
                if r != Ok(true) {
                    out.oracle_fail("node-rejects-valid-block", &format!("extend at {}: {:?}", tip + 1, r));
                    break;
                }
                sim.chain.push(Blk { hash: blk.hash(), ids: union.clone(), committed: vec![] });
                let op = format!("nswitch {tip} {}", show_list(&union));
                let l = sim.view_line(out, &op);
                out.op(&op, &l);
                out.count("node-extend");
            }
            9..=12 => {
                // reorganisation to a longer branch from `common`
                if tip == 0 {
                    continue;
                }
                let (close, far) = window;
                let depth = match rng.below(5) {
                    0 => 1,
                    1 => rng.range(1, close + 1),
                    2 => rng.range(close, far + 1),
                    3 => far + rng.below(3),
                    _ => rng.range(1, tip),
                }
                .min(tip)
                .max(1);
                let common = tip - depth;
                let len = depth + rng.range(1, 2);
                let mut parent = sim.chain[common as usize].hash.clone();
                let mut branch: Vec<(Byte32, Vec<u64>)> = vec![];
                let mut switched = false;
                let mut failed = false;
                for k in 0..len {
                    let ids = gen_ids(rng);
                    // uncles only where the parent of the uncle is on the new branch or the common part
                    let uids = if k >= 1 && rng.chance(1, 5) { Some(gen_ids(rng)) } else { None };
                    let (blk, union) = sim.build(&parent, &ids, uids.as_deref(), None);
                    let r = sim.node.as_ref().unwrap().process(&blk);
                    if r != Ok(true) {
                        out.oracle_fail("node-rejects-valid-block", &format!("branch block {} from common {common}: {:?}", k + 1, r));
                        failed = true;
                        break;
                    }
                    parent = blk.hash();
                    branch.push((blk.hash(), union));
                    let is_tip = sim.node.as_ref().unwrap().tip_hash() == blk.hash();
                    if is_tip && !switched {
                        // the whole branch so far was attached in one step
                        switched = true;
                        sim.chain.truncate(common as usize + 1);
                        let mut op = format!("nswitch {common}");
                        for (hash, ids) in &branch {
                            sim.chain.push(Blk { hash: hash.clone(), ids: ids.clone(), committed: vec![] });
                            op.push(' ');
                            op.push_str(&show_list(ids));
                        }
                        let l = sim.view_line(out, &op);
                        out.op(&op, &l);
                    } else if is_tip {
                        let t = sim.chain.len() as u64 - 1;
                        let (hash, ids) = branch.last().unwrap().clone();
                        sim.chain.push(Blk { hash, ids: ids.clone(), committed: vec![] });
                        let op = format!("nswitch {t} {}", show_list(&ids));
                        let l = sim.view_line(out, &op);
                        out.op(&op, &l);
                    } else if switched {
                        out.oracle_fail("node-tip-unexpected", "branch block after the switch did not become tip");
                    }
                }
                if failed {
                    break;
                }
                if !switched {
                    out.oracle_fail("node-no-reorg-to-longer-branch", &format!("common {common} len {len} tip {tip}"));
                    break;
                }
                reorgs += 1;
                out.count("node-reorg");
                if depth > far {
                    out.count("node-reorg-deeper-than-window");
                }
            }
            13 | 14 => {
                // truncate
                if tip == 0 {
                    continue;
                }
                let target = if rng.chance(1, 5) { 0 } else { rng.range(0, tip - 1) };
                let hash = sim.chain[target as usize].hash.clone();
                if let Err(e) = sim.node.as_ref().unwrap().controller().truncate(hash) {
                    out.oracle_fail("node-truncate-fails", &format!("{e}"));
                    break;
                }
                sim.chain.truncate(target as usize + 1);
                let op = format!("nswitch {target}");
                let l = sim.view_line(out, &op);
                out.op(&op, &l);
                out.count("node-truncate");
            }
            15 | 16 => {
                // restart on the same directory
                let before = sim.view_line(out, "before restart");
                let node = sim.node.take().unwrap();
                node.stop();
                let node = Node::start(&dir.join("node"), consensus.clone(), &cfg);
                sim.node = Some(node);
                let l = sim.view_line(out, "nrestart");
                if l != before {
                    out.oracle_fail("node-restart-changes-view", &format!("before: {before} after: {l}"));
                }
                out.op("nrestart", &l);
                restarts += 1;
                out.count("node-restart");
            }
            _ => {
                // commitment of a real transaction in block tip+1: accepted iff proposed in the window
                let done = sim.committed_on_main();
                let (wset, wgap) = sim.window();
                let free: Vec<u64> = (1..=N_TX).filter(|i| !done.contains(i)).collect();
                if free.is_empty() {
                    continue;
                }
                // prefer ids at the edges: in the set, in the gap, or just left
                let cands: Vec<u64> = free.iter().copied().filter(|i| wset.contains(i) || wgap.contains(i)).collect();
                let id = if !cands.is_empty() && rng.chance(4, 5) { *rng.pick(&cands) } else { *rng.pick(&free) };
                let expect_ok = wset.contains(&id);
                let ids = gen_ids(rng);
                let parent = sim.chain.last().unwrap().hash.clone();
                let (blk, union) = sim.build(&parent, &ids, None, Some(id));
                let r = sim.node.as_ref().unwrap().process(&blk);
                let ok = r == Ok(true);
                if ok != expect_ok {
                    out.oracle_fail("node-commit-verdict-not-window", &format!("verify {id} at block {}: node says {:?}, window set={} gap={}", tip + 1, r, show_set(&wset), show_set(&wgap)));
                }
                if let Err(e) = &r {
                    if !e.contains("Commit") && !e.contains("commit") {
                        out.oracle_fail("node-commit-rejected-for-another-reason", &format!("verify {id}: {e}"));
                    }
                }
                out.op(&format!("verify {id}"), if ok { "ok" } else { "invalid" });
                if ok {
                    commits_ok += 1;
                    sim.chain.push(Blk { hash: blk.hash(), ids: union.clone(), committed: vec![id] });
                    let op = format!("nswitch {tip} {}", show_list(&union));
                    let l = sim.view_line(out, &op);
                    out.op(&op, &l);
                } else {
                    commits_bad += 1;
                }
                out.count(if ok { "node-commit-accepted" } else { "node-commit-rejected" });
            }
        }
    }
    if uncles > 0 {
        out.count("node-case-with-uncle-proposals");
    }
    if reorgs > 0 && restarts > 0 && commits_ok > 0 && commits_bad > 0 {
        out.nontrivial(format!("node w={window:?} reorgs={reorgs} restarts={restarts} ok={commits_ok} bad={commits_bad} len={}", sim.chain.len()));
    }
    if let Some(n) = sim.node.take() {
        n.stop();
    }
    drop(sim);
    let _ = std::fs::remove_dir_all(&dir);
}

pub fn run(opts: &Opts) {
    let mut out = Out::new(&opts.out);
    if opts.replay.is_some() {
        // node-level cases depend on freshly built blocks; recorded cases are replayed at table level
        out.finish("replay (not applicable to the node stream)");
        return;
    }
    let mut rng = Rng::new(opts.seed);
    let base = scratch_dir(&opts.out, "c20");
    let cases = if opts.thorough() { 90 } else { 8 } * opts.scale as usize;
    for i in 0..cases {
        node_case(&mut out, &mut rng, &base, i, 45);
    }
    let _ = std::fs::remove_dir_all(&base);
    out.finish("node cases with at least one reorganisation, one restart, one accepted and one rejected commitment (distinct by window, counts and final length)");
}
