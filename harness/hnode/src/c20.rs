//! C20, node-level streams: a real node (SharedBuilder + chain service, optionally the tx-pool
//! service) is fed blocks carrying proposal ids (own and in embedded uncles). After EVERY tip change,
//! truncation and restart every consumer of the proposal view is compared with a window oracle that
//! is computed from the node's STORED main chain (`union_proposal_ids()` of the blocks at distance
//! w_close..=w_far / 1..w_close from the next block), with the chain the harness delivered, and with
//! the Lean model (lean/CkbVerif/Driver/C20.lean):
//!
//!   (a) `Shared::snapshot().proposals()` set and gap;
//!   (b) the commit verifier as a black box: the next block committing real always-success
//!       transactions is submitted to the node: accepted <=> every committed id is in the oracle set;
//!   (c) the pool's staging (`get_tx_status` at submission / re-admission, the stage moves of
//!       `_update_tx_pool_for_reorg`, the ids moved back from Proposed on a reorg) and what
//!       `get_block_template` packages.
//!
//! Families (first extra argument; one stream each in checks/C20.json):
//!   (none) `node`  random histories: extensions, first-time forks, switch-backs to an abandoned
//!                  branch (re-attached blocks have ext.verified == Some(true)), truncations,
//!                  extensions of a cut-off verified branch, restarts, commitments near the edges;
//!   `edge`         per window a planned linear chain longer than w_far+2 (nothing clamped at genesis,
//!                  plus a short-chain prelude): every transaction is proposed in a main-chain block
//!                  or ONLY in an embedded uncle and its commitment is offered at distance
//!                  w_close-1, w_close, mid, w_far, w_far+1, w_far+2 from the proposal, and after
//!                  re-proposals inside / outside the window;
//!   `fork`         per window, for every depth class relative to the window (1 .. w_far+2):
//!                  A, first-time fork B, switch-back A', switch-back B', truncate to the fork point,
//!                  extension of the cut-off (verified) branch, truncate again; restarts interleaved;
//!   `pool`         node WITH the tx-pool service: ids in set only / gap only / both (re-proposal) /
//!                  neither / expired, submitted before and after their proposals; a reorganisation
//!                  that re-admits committed transactions and drops a Proposed one.
//!
//! Protocol (model side: lean/CkbVerif/Driver/C20.lean):
//!   cfg <close> <far>              -> ok <close> <far>
//!   nboot                          -> set=<ids> gap=<ids>        (first start, genesis only)
//!   nswitch <common> <ids>*        -> set=.. gap=..              (what verify_block / truncate did)
//!   nrestart                       -> set=.. gap=..              (stop, start on the same directory)
//!   verify <ids>                   -> ok | invalid               (block tip+1 committing txs <ids>)
//!   status <id>                    -> proposed | gap | fresh     (get_tx_status on the current view)
//!   nswitchm <watch> <common> <ids>* -> moved=<ids> set=.. gap=..  (moved = detached_proposal_id ∩ watch)
//!   pool <ids>                     -> proposed=<ids>             (of the pooled ids, those staged Proposed)
//!   ncommit <ids>                  -> ok                         (the next pool-family block commits these; replay only)
//! ids 1..=n_tx are the proposal short ids of real transactions spending genesis cells; ids >= 100
//! are arbitrary short ids.
use crate::common::*;
use crate::node::*;
use ckb_app_config::{BlockAssemblerConfig, NetworkConfig};
use ckb_chain::ChainServiceScope;
use ckb_chain_spec::consensus::Consensus;
use ckb_jsonrpc_types::ScriptHashType;
use ckb_network::{Flags, NetworkController, NetworkService, NetworkState, network::TransportType};
use ckb_shared::{Shared, SharedBuilder};
use ckb_store::ChainStore;
use ckb_tx_pool::verif::Status;
use ckb_types::core::{BlockView, TransactionView};
use ckb_types::h256;
use ckb_types::packed::{self, Byte32, ProposalShortId};
use ckb_types::prelude::*;
use std::collections::{BTreeMap, BTreeSet, HashMap};
use std::path::{Path, PathBuf};
use std::sync::Arc;
use std::time::{Duration, Instant};

fn show_set(s: &BTreeSet<u64>) -> String {
    if s.is_empty() { "-".into() } else { s.iter().map(|x| x.to_string()).collect::<Vec<_>>().join(",") }
}

fn show_list(ids: &[u64]) -> String {
    if ids.is_empty() { "-".into() } else { ids.iter().map(|x| x.to_string()).collect::<Vec<_>>().join(",") }
}

// ------------------------------------------------------------------------------------------------
// the node (own start function: block-assembler interval 0 so that the template follows the pool
// without a timer; everything else as node.rs::Node::start)
// ------------------------------------------------------------------------------------------------

struct N {
    shared: Shared,
    chain: Option<ChainServiceScope>,
    _network: Option<NetworkController>,
}

fn dummy_network(shared: &Shared, dir: &Path) -> NetworkController {
    let config = NetworkConfig {
        max_peers: 19,
        max_outbound_peers: 5,
        path: dir.join("network"),
        ping_interval_secs: 15,
        ping_timeout_secs: 20,
        connect_outbound_interval_secs: 1,
        discovery_local_address: true,
        bootnode_mode: true,
        reuse_port_on_linux: true,
        ..Default::default()
    };
    let network_state = Arc::new(NetworkState::from_config(config).expect("Init network state failed"));
    NetworkService::new(network_state, vec![], vec![], (shared.consensus().identify_name(), "test".to_string(), Flags::COMPATIBILITY), TransportType::Tcp)
        .start(shared.async_handle())
        .expect("Start network service failed")
}

impl N {
    fn start(dir: &Path, consensus: Consensus, with_pool: bool) -> N {
        std::fs::create_dir_all(dir.join("header_map")).unwrap();
        let db_config = ckb_app_config::DBConfig { path: dir.join("db"), ..Default::default() };
        let builder = SharedBuilder::new("verif", dir, &db_config, None, runtime_handle(), consensus)
            .unwrap_or_else(|e| panic!("SharedBuilder::new failed: {e:?}"))
            .header_map_tmp_dir(Some(dir.join("header_map")));
        let ba = BlockAssemblerConfig {
            code_hash: h256!("0x0"),
            args: Default::default(),
            hash_type: ScriptHashType::Data,
            message: Default::default(),
            use_binary_version_as_message_prefix: false,
            binary_version: "TEST".to_string(),
            update_interval_millis: 0,
            notify: vec![],
            notify_scripts: vec![],
            notify_timeout_millis: 800,
        };
        let (shared, mut pack) = builder.block_assembler_config(Some(ba)).build().unwrap_or_else(|e| panic!("SharedBuilder::build failed: {e:?}"));
        let network = if with_pool {
            let n = dummy_network(&shared, dir);
            pack.take_tx_pool_builder().start(n.clone());
            Some(n)
        } else {
            None
        };
        let chain = ChainServiceScope::new(pack.take_chain_services_builder());
        N { shared, chain: Some(chain), _network: network }
    }
    fn process(&self, block: &BlockView) -> Result<bool, String> {
        self.chain.as_ref().unwrap().chain_controller().blocking_process_block(Arc::new(block.clone())).map_err(|e| e.to_string())
    }
    fn truncate(&self, hash: Byte32) -> Result<(), String> {
        self.chain.as_ref().unwrap().chain_controller().truncate(hash).map_err(|e| e.to_string())
    }
    fn tip_hash(&self) -> Byte32 {
        self.shared.snapshot().tip_hash()
    }
    fn stop(mut self) {
        self.chain.take();
    }
}

// ------------------------------------------------------------------------------------------------
// the simulation shared by all families
// ------------------------------------------------------------------------------------------------

#[derive(Clone)]
struct Blk {
    hash: Byte32,
    /// union proposal ids (own + uncles')
    ids: Vec<u64>,
    /// committed tx ids
    committed: Vec<u64>,
}

/// what one new block shall carry
#[derive(Clone, Default)]
struct Spec {
    ids: Vec<u64>,
    uncle_ids: Option<Vec<u64>>,
    commits: Vec<u64>,
}

struct Sim {
    window: (u64, u64),
    n_tx: u64,
    dir: PathBuf,
    consensus: Consensus,
    with_pool: bool,
    node: Option<N>,
    builder: ChainBuilder,
    txs: Vec<TransactionView>,
    idmap: HashMap<ProposalShortId, u64>,
    /// the main chain as delivered (index = block number)
    chain: Vec<Blk>,
    /// abandoned main chains (full, from genesis) whose tip is not on the main chain
    old: Vec<Vec<Blk>>,
    salt: u64,
    uniq: u64,
    /// set after an oracle failure that leaves node and harness out of step
    dead: bool,
}

impl Sim {
    fn new(base: &Path, tag: &str, window: (u64, u64), n_tx: u64, with_pool: bool) -> Sim {
        let cfg = NodeCfg { epoch_len: 1000, window, genesis_cells: n_tx, with_pool: false, ..Default::default() };
        let consensus = make_consensus(&cfg);
        let dir = base.join(tag);
        let _ = std::fs::remove_dir_all(&dir);
        let node = N::start(&dir.join("node"), consensus.clone(), with_pool);
        let builder = ChainBuilder::new(consensus.clone(), &dir.join("builder"));
        let cells = genesis_cells(&consensus);
        let txs: Vec<TransactionView> = (0..n_tx as usize).map(|i| spend_tx(&cells[i..i + 1], 1, 1000, i as u64)).collect();
        let mut sim = Sim {
            window,
            n_tx,
            dir,
            consensus: consensus.clone(),
            with_pool,
            node: Some(node),
            builder,
            txs,
            idmap: HashMap::new(),
            chain: vec![],
            old: vec![],
            salt: 0,
            uniq: 0,
            dead: false,
        };
        for i in (1..=n_tx).chain(100..1200) {
            let p = sim.pid(i);
            sim.idmap.insert(p, i);
        }
        sim.chain.push(Blk { hash: consensus.genesis_hash(), ids: vec![], committed: vec![] });
        sim
    }

    fn begin(&mut self, out: &mut Out, label: &str) {
        let (c, f) = self.window;
        out.begin_case(&format!("{label} w={c},{f}"));
        out.op(&format!("cfg {c} {f}"), &format!("ok {c} {f}"));
        let l = self.view_line(out, "nboot");
        out.op("nboot", &l);
    }

    fn finish(mut self) {
        if let Some(n) = self.node.take() {
            n.stop();
        }
        let dir = self.dir.clone();
        drop(self);
        let _ = std::fs::remove_dir_all(&dir);
    }

    fn n(&self) -> &N {
        self.node.as_ref().unwrap()
    }

    fn tip(&self) -> u64 {
        self.chain.len() as u64 - 1
    }

    fn pid(&self, id: u64) -> ProposalShortId {
        if id >= 1 && id <= self.n_tx {
            self.txs[id as usize - 1].proposal_short_id()
        } else {
            let mut b = [0u8; 10];
            b[..8].copy_from_slice(&id.to_le_bytes());
            b[9] = 0xEE;
            ProposalShortId::new(b)
        }
    }

    fn small(&self, p: &ProposalShortId) -> u64 {
        self.idmap.get(p).copied().unwrap_or(u64::MAX)
    }

    /// a fresh arbitrary id (never a transaction's)
    fn unique_id(&mut self) -> u64 {
        self.uniq += 1;
        200 + (self.uniq % 1000)
    }

    /// the window over the chain the harness delivered
    fn window_of(&self, chain: &[Blk]) -> (BTreeSet<u64>, BTreeSet<u64>) {
        let (close, far) = self.window;
        let next = chain.len() as u64;
        let (mut set, mut gap) = (BTreeSet::new(), BTreeSet::new());
        for n in 1..next {
            let d = next - n;
            if d >= close && d <= far {
                set.extend(chain[n as usize].ids.iter().copied());
            } else if d < close {
                gap.extend(chain[n as usize].ids.iter().copied());
            }
        }
        (set, gap)
    }

    fn window(&self) -> (BTreeSet<u64>, BTreeSet<u64>) {
        self.window_of(&self.chain)
    }

    /// the window oracle over the node's STORED main chain: for every main-chain block at distance
    /// d from the next block, `union_proposal_ids()` (own proposals and the embedded uncles')
    fn store_window(&self) -> (BTreeSet<u64>, BTreeSet<u64>, u64) {
        let (close, far) = self.window;
        let snap = self.n().shared.snapshot();
        let store = self.n().shared.store();
        let tip = snap.tip_number();
        let next = tip + 1;
        let (mut set, mut gap) = (BTreeSet::new(), BTreeSet::new());
        for n in next.saturating_sub(far)..=tip {
            let d = next - n;
            let blk = store.get_block_hash(n).and_then(|h| store.get_block(&h));
            let Some(blk) = blk else { continue };
            let ids: Vec<u64> = blk.union_proposal_ids().iter().map(|p| self.small(p)).collect();
            if d >= close && d <= far {
                set.extend(ids);
            } else if d < close {
                gap.extend(ids);
            }
        }
        (set, gap, tip)
    }

    /// (a): the snapshot's view against both oracles; returns the model line
    fn view_line(&self, out: &mut Out, what: &str) -> String {
        let node = self.n();
        let snap = node.shared.snapshot();
        let p = snap.proposals();
        let conv = |s: &std::collections::HashSet<ProposalShortId>| -> BTreeSet<u64> { s.iter().map(|x| self.small(x)).collect() };
        let (set, gap) = (conv(p.set()), conv(p.gap()));
        let (wset, wgap) = self.window();
        let (sset, sgap, stip) = self.store_window();
        if set != wset {
            out.oracle_fail("node-set-not-window", &format!("{what}: snapshot set={} window={} tip={}", show_set(&set), show_set(&wset), self.tip()));
        }
        if gap != wgap {
            out.oracle_fail("node-gap-not-window", &format!("{what}: snapshot gap={} window={} tip={}", show_set(&gap), show_set(&wgap), self.tip()));
        }
        if set != sset {
            out.oracle_fail("node-set-not-stored-window", &format!("{what}: snapshot set={} stored window={} stored tip={stip}", show_set(&set), show_set(&sset)));
        }
        if gap != sgap {
            out.oracle_fail("node-gap-not-stored-window", &format!("{what}: snapshot gap={} stored window={} stored tip={stip}", show_set(&gap), show_set(&sgap)));
        }
        if node.tip_hash() != self.chain.last().unwrap().hash {
            out.oracle_fail("node-tip-unexpected", what);
        }
        out.count("view-checked");
        format!("set={} gap={}", show_set(&set), show_set(&gap))
    }

    fn committed_on_main(&self) -> BTreeSet<u64> {
        self.chain.iter().flat_map(|b| b.committed.iter().copied()).collect()
    }

    /// build one block on `parent`: own ids, optionally ONE embedded uncle (a sibling of the parent)
    /// carrying `uncle_ids`, committing the txs `commits`
    fn build(&mut self, parent: &Byte32, spec: &Spec) -> (BlockView, Vec<u64>) {
        self.salt += 1;
        let mut union: Vec<u64> = spec.ids.clone();
        let mut uncles = vec![];
        if let Some(uids) = &spec.uncle_ids {
            let p = self.builder.block(parent).clone();
            if p.number() >= 1 {
                self.salt += 1;
                let us = BlockSpec { proposals: uids.iter().map(|i| self.pid(*i)).collect(), salt: 1_000_000 + self.salt, ..Default::default() };
                let u = self.builder.build(&p.parent_hash(), &us);
                uncles.push(u.as_uncle());
                for i in uids {
                    if !union.contains(i) {
                        union.push(*i);
                    }
                }
            }
        }
        let bs = BlockSpec {
            proposals: spec.ids.iter().map(|i| self.pid(*i)).collect(),
            uncles,
            txs: spec.commits.iter().map(|i| self.txs[*i as usize - 1].clone()).collect(),
            salt: self.salt,
            ..Default::default()
        };
        (self.builder.build(parent, &bs), union)
    }

    /// Deliver new blocks on top of `base` (a full chain from genesis: the main chain itself for an
    /// extension, a prefix of it for a first-time fork, an abandoned chain for a switch-back or for
    /// the extension of a cut-off branch). Returns the number of tip changes.
    fn deliver(&mut self, out: &mut Out, base: Vec<Blk>, specs: &[Spec], what: &str) -> usize {
        let mut cand = base;
        let mut changes = 0;
        for spec in specs {
            if self.dead {
                break;
            }
            let parent = cand.last().unwrap().hash.clone();
            let (blk, union) = self.build(&parent, spec);
            let r = self.n().process(&blk);
            if r != Ok(true) {
                out.oracle_fail("node-rejects-valid-block", &format!("{what}: block {} on {}: {:?}", blk.number(), cand.len() - 1, r));
                self.dead = true;
                break;
            }
            cand.push(Blk { hash: blk.hash(), ids: union, committed: spec.commits.clone() });
            let is_tip = self.n().tip_hash() == blk.hash();
            let expect_tip = cand.len() > self.chain.len();
            if is_tip != expect_tip {
                out.oracle_fail("node-tip-unexpected", &format!("{what}: block {} is_tip={is_tip}, delivered chain length {} against main {}", blk.number(), cand.len(), self.chain.len()));
                self.dead = true;
                break;
            }
            if is_tip {
                let common = self.chain.iter().zip(cand.iter()).take_while(|(a, b)| a.hash == b.hash).count() - 1;
                if common + 1 < self.chain.len() {
                    let old = std::mem::take(&mut self.chain);
                    self.remember(old);
                    out.count("tip-change-with-detach");
                }
                let mut op = format!("nswitch {common}");
                for b in &cand[common + 1..] {
                    op.push(' ');
                    op.push_str(&show_list(&b.ids));
                }
                self.chain = cand.clone();
                let l = self.view_line(out, &format!("{what}: {op}"));
                out.op(&op, &l);
                changes += 1;
            } else {
                // a side block was stored: the view must not move
                let _ = self.view_line(out, &format!("{what}: side block {} stored", blk.number()));
            }
        }
        // the branch is remembered even if it never became the main chain
        if !self.dead && cand.last().unwrap().hash != self.chain.last().unwrap().hash {
            self.remember(cand);
        }
        changes
    }

    fn remember(&mut self, chain: Vec<Blk>) {
        self.old.retain(|c| c.last().unwrap().hash != chain.last().unwrap().hash);
        self.old.push(chain);
        if self.old.len() > 4 {
            self.old.remove(0);
        }
    }

    /// abandoned chains whose tip is not on the main chain (candidates for a switch-back)
    fn abandoned(&self) -> Vec<Vec<Blk>> {
        self.old
            .iter()
            .filter(|c| {
                let n = c.len() - 1;
                !(n < self.chain.len() && self.chain[n].hash == c[n].hash)
            })
            .cloned()
            .collect()
    }

    fn truncate(&mut self, out: &mut Out, target: u64) {
        let hash = self.chain[target as usize].hash.clone();
        if let Err(e) = self.n().truncate(hash) {
            out.oracle_fail("node-truncate-fails", &e);
            self.dead = true;
            return;
        }
        if (target as usize) + 1 < self.chain.len() {
            let old = self.chain.clone();
            self.remember(old);
        }
        self.chain.truncate(target as usize + 1);
        let op = format!("nswitch {target}");
        let l = self.view_line(out, &op);
        out.op(&op, &l);
        out.count("node-truncate");
    }

    fn restart(&mut self, out: &mut Out) {
        assert!(!self.with_pool, "in-process restart needs a node without the pool service");
        let before = self.view_line(out, "before restart");
        let node = self.node.take().unwrap();
        node.stop();
        let node = N::start(&self.dir.join("node"), self.consensus.clone(), false);
        self.node = Some(node);
        let l = self.view_line(out, "nrestart");
        if l != before {
            out.oracle_fail("node-restart-changes-view", &format!("before: {before} after: {l}"));
        }
        out.op("nrestart", &l);
        out.count("node-restart");
    }

    /// (b) the commit verifier as a black box: block tip+1 committing `ids` (no proposals of its own)
    /// is submitted to the node; accepted <=> every id is in the oracle set. An accepted block stays
    /// (it becomes the new tip), a rejected one leaves the node unchanged. Returns the verdict.
    fn verify(&mut self, out: &mut Out, spec: &Spec, what: &str) -> bool {
        let ids: &[u64] = &spec.commits;
        let (wset, wgap) = self.window();
        let (sset, _, _) = self.store_window();
        let expect_ok = ids.iter().all(|i| sset.contains(i));
        let tip = self.tip();
        let parent = self.chain.last().unwrap().hash.clone();
        let (blk, union) = self.build(&parent, spec);
        let r = self.n().process(&blk);
        let ok = r == Ok(true);
        if ok != expect_ok {
            out.oracle_fail(
                "node-commit-verdict-not-window",
                &format!("{what}: verify {} at block {}: node says {:?}, stored window set={}; delivered window set={} gap={}", show_list(ids), tip + 1, r, show_set(&sset), show_set(&wset), show_set(&wgap)),
            );
        }
        if let Err(e) = &r {
            if !e.contains("Commit") && !e.contains("commit") {
                out.oracle_fail("node-commit-rejected-for-another-reason", &format!("{what}: verify {}: {e}", show_list(ids)));
            }
        }
        out.op(&format!("verify {}", show_list(ids)), if ok { "ok" } else { "invalid" });
        out.count(if ok { "node-commit-accepted" } else { "node-commit-rejected" });
        if ok {
            self.chain.push(Blk { hash: blk.hash(), ids: union.clone(), committed: ids.to_vec() });
            let op = format!("nswitch {tip} {}", show_list(&union));
            let l = self.view_line(out, &op);
            out.op(&op, &l);
        } else if self.n().tip_hash() != parent {
            out.oracle_fail("node-tip-unexpected", &format!("{what}: a rejected block moved the tip"));
            self.dead = true;
        }
        ok
    }
}

fn gen_ids(rng: &mut Rng, n_tx: u64) -> Vec<u64> {
    let k = match rng.below(8) {
        0 | 1 => 0,
        2..=5 => 1,
        6 => 2,
        _ => 3,
    };
    let mut v: Vec<u64> = vec![];
    for _ in 0..k {
        let id = if rng.chance(3, 4) { rng.range(1, n_tx) } else { 100 + rng.below(6) };
        if !v.contains(&id) {
            v.push(id);
        }
    }
    v
}

fn gen_spec(rng: &mut Rng, n_tx: u64, uncle_chance: (u64, u64)) -> Spec {
    Spec { ids: gen_ids(rng, n_tx), uncle_ids: if rng.chance(uncle_chance.0, uncle_chance.1) { Some(gen_ids(rng, n_tx)) } else { None }, commits: vec![] }
}

// ------------------------------------------------------------------------------------------------
// family `node`: random histories
// ------------------------------------------------------------------------------------------------

const N_TX: u64 = 12;

fn node_case(out: &mut Out, rng: &mut Rng, base: &Path, case_no: usize, n_ops: usize) {
    let wins: [(u64, u64); 5] = [(2, 10), (1, 2), (2, 4), (1, 1), (3, 5)];
    let window = *rng.pick(&wins);
    let mut sim = Sim::new(base, &format!("case{case_no}"), window, N_TX, false);
    sim.begin(out, "node");
    let (close, far) = window;
    let (mut reorgs, mut restarts, mut commits_ok, mut commits_bad, mut backs) = (0, 0, 0, 0, 0);
    for _ in 0..n_ops {
        if sim.dead {
            break;
        }
        let tip = sim.tip();
        match rng.below(24) {
            0..=8 => {
                let spec = gen_spec(rng, N_TX, (1, 4));
                if spec.uncle_ids.is_some() && tip >= 1 {
                    out.count("node-block-with-uncle");
                }
                let base_chain = sim.chain.clone();
                sim.deliver(out, base_chain, &[spec], "extend");
                out.count("node-extend");
            }
            9..=12 => {
                // first-time fork to a longer branch from `common`
                if tip == 0 {
                    continue;
                }
                let depth = match rng.below(5) {
                    0 => 1,
                    1 => rng.range(1, close + 1),
                    2 => rng.range(close, far + 1),
                    3 => far + rng.below(3),
                    _ => rng.range(1, tip),
                }
                .min(tip)
                .max(1);
                let common = tip - depth;
                let len = depth + rng.range(1, 2);
                let specs: Vec<Spec> = (0..len).map(|k| if k >= 1 { gen_spec(rng, N_TX, (1, 5)) } else { gen_spec(rng, N_TX, (0, 1)) }).collect();
                let base_chain = sim.chain[..=common as usize].to_vec();
                let ch = sim.deliver(out, base_chain, &specs, "fork");
                if ch > 0 {
                    reorgs += 1;
                    out.count("node-reorg");
                    if depth > far {
                        out.count("node-reorg-deeper-than-window");
                    }
                }
            }
            13 | 14 => {
                if tip == 0 {
                    continue;
                }
                let target = if rng.chance(1, 5) { 0 } else { rng.range(0, tip - 1) };
                sim.truncate(out, target);
            }
            15 | 16 => {
                sim.restart(out);
                restarts += 1;
            }
            17..=19 => {
                // switch back to an abandoned chain (its blocks above the fork point were verified
                // before: ForkChanges::verified_len() > 0), or extend a cut-off verified branch
                let cands = sim.abandoned();
                if cands.is_empty() {
                    continue;
                }
                let b = rng.pick(&cands).clone();
                let need = (sim.chain.len() + 1).saturating_sub(b.len()).max(1) + rng.below(2) as usize;
                if need > 14 {
                    continue;
                }
                let specs: Vec<Spec> = (0..need).map(|_| gen_spec(rng, N_TX, (1, 6))).collect();
                let common = sim.chain.iter().zip(b.iter()).take_while(|(x, y)| x.hash == y.hash).count() - 1;
                let reattached = b.len() - 1 - common;
                let ch = sim.deliver(out, b, &specs, "switch-back");
                if ch > 0 && reattached > 0 {
                    backs += 1;
                    reorgs += 1;
                    out.count("node-switch-back");
                }
            }
            _ => {
                // commitment of a real transaction in block tip+1: accepted iff proposed in the window
                let done = sim.committed_on_main();
                let (wset, wgap) = sim.window();
                let free: Vec<u64> = (1..=N_TX).filter(|i| !done.contains(i)).collect();
                if free.is_empty() {
                    continue;
                }
                let cands: Vec<u64> = free.iter().copied().filter(|i| wset.contains(i) || wgap.contains(i)).collect();
                let id = if !cands.is_empty() && rng.chance(4, 5) { *rng.pick(&cands) } else { *rng.pick(&free) };
                let own = gen_ids(rng, N_TX);
                if sim.verify(out, &Spec { ids: own, uncle_ids: None, commits: vec![id] }, "random") {
                    commits_ok += 1;
                } else {
                    commits_bad += 1;
                }
            }
        }
    }
    if reorgs > 0 && restarts > 0 && commits_ok > 0 && commits_bad > 0 {
        out.nontrivial(format!("node w={window:?} reorgs={reorgs} backs={backs} restarts={restarts} ok={commits_ok} bad={commits_bad} len={}", sim.chain.len()));
    }
    sim.finish();
}

// ------------------------------------------------------------------------------------------------
// family `edge`: commitments at every distance class, proposals in main blocks / only in uncles
// ------------------------------------------------------------------------------------------------

#[derive(Clone, Copy, PartialEq, Debug)]
enum Place {
    Main,
    Uncle,
}

struct Item {
    tx: u64,
    props: Vec<(u64, Place)>,
    commit_at: u64,
    label: String,
}

fn edge_case(out: &mut Out, rng: &mut Rng, base: &Path, window: (u64, u64)) {
    let (c, f) = window;
    let n_tx = 24;
    let mut sim = Sim::new(base, &format!("edge-{c}-{f}"), window, n_tx, false);
    sim.begin(out, "edge");
    let mut txs: Vec<u64> = (1..=n_tx).collect();
    rng.shuffle(&mut txs);
    let mut next_tx = 0usize;
    let mut take = || {
        next_tx += 1;
        txs[next_tx - 1]
    };
    let mut items: Vec<Item> = vec![];
    // short-chain prelude (the window start is clamped at genesis)
    if c >= 2 {
        items.push(Item { tx: take(), props: vec![(1, Place::Main)], commit_at: 1 + c - 1, label: "low d=close-1".into() });
    }
    items.push(Item { tx: take(), props: vec![(1, Place::Main)], commit_at: 1 + c, label: "low d=close".into() });
    items.push(Item { tx: take(), props: vec![(2, Place::Uncle)], commit_at: 2 + f, label: "low uncle d=far".into() });
    // the planned part starts where nothing is clamped any more
    let pad = f + 3;
    let mut dists: Vec<u64> = vec![c, f, f + 1, f + 2];
    if c >= 2 {
        dists.push(c - 1);
    }
    if f > c + 1 {
        dists.push(rng.range(c + 1, f - 1));
    }
    rng.shuffle(&mut dists);
    let mut p = pad;
    for d in &dists {
        for place in [Place::Main, Place::Uncle] {
            items.push(Item { tx: take(), props: vec![(p, place)], commit_at: p + d, label: format!("{place:?} d={}", dist_label(*d, c, f)) });
        }
        p += 1;
    }
    // re-proposals
    // R1: expired by the first proposal (d = far+1), renewed by a second one at distance close
    items.push(Item { tx: take(), props: vec![(p, Place::Main), (p + f + 1 - c, Place::Uncle)], commit_at: p + f + 1, label: "re expired+close".into() });
    p += 1;
    if c >= 2 {
        // R2: in the set by the first proposal (d = far) AND in the gap by a second (d = close-1)
        items.push(Item { tx: take(), props: vec![(p, Place::Uncle), (p + f - (c - 1), Place::Main)], commit_at: p + f, label: "re set+gap".into() });
        p += 1;
        // R3: expired by the first (d = far+1) and only in the gap by the second (d = close-1)
        items.push(Item { tx: take(), props: vec![(p, Place::Main), (p + f + 1 - (c - 1), Place::Main)], commit_at: p + f + 1, label: "re expired+gap".into() });
        p += 1;
    }
    if f >= c + 1 {
        // R4: twice in the committable part
        items.push(Item { tx: take(), props: vec![(p, Place::Main), (p + 1, Place::Uncle)], commit_at: p + 1 + f, label: "re set+set".into() });
    }
    let last = items.iter().map(|i| i.commit_at).max().unwrap();
    let mut accepted = 0;
    let mut rejected = 0;
    for h in 1..=last {
        if sim.dead {
            break;
        }
        assert_eq!(sim.tip() + 1, h);
        // commitments due in this block: those the oracle forbids are offered one by one (each must
        // be rejected and leave the node unchanged), the others all together in the block that stays
        let due: Vec<usize> = (0..items.len()).filter(|i| items[*i].commit_at == h).collect();
        let (sset, _, _) = sim.store_window();
        let mut good: Vec<u64> = vec![];
        for i in &due {
            let it = &items[*i];
            // the plan's expectation, by arithmetic on the planned heights alone
            let planned = it.props.iter().any(|(ph, _)| h - ph >= c && h - ph <= f);
            if planned != sset.contains(&it.tx) {
                out.count("edge-plan-mismatch");
                eprintln!("edge plan mismatch: {} tx {} at {h}: planned {planned}, stored window {}", it.label, it.tx, show_set(&sset));
            }
            if sset.contains(&it.tx) {
                good.push(it.tx);
                out.count(&format!("edge accept {}", it.label));
            } else {
                out.count(&format!("edge reject {}", it.label));
                if sim.verify(out, &Spec { ids: vec![], uncle_ids: None, commits: vec![it.tx] }, &it.label.clone()) {
                    // a commitment outside the window was accepted: node and plan are out of step
                    sim.dead = true;
                    break;
                }
                rejected += 1;
            }
        }
        if sim.dead {
            break;
        }
        // the block of this height: planned proposals (+ an arbitrary unique id), planned uncle
        let mut own: Vec<u64> = items.iter().filter(|it| it.props.contains(&(h, Place::Main))).map(|it| it.tx).collect();
        let unc: Vec<u64> = items.iter().filter(|it| it.props.contains(&(h, Place::Uncle))).map(|it| it.tx).collect();
        if rng.chance(1, 2) {
            let u = sim.unique_id();
            own.push(u);
        }
        let spec = Spec { ids: own, uncle_ids: if unc.is_empty() { None } else { Some(unc) }, commits: good.clone() };
        if !good.is_empty() {
            // (b) for the accepted side: the block that stays commits them all
            accepted += good.len();
            if !sim.verify(out, &spec, "edge block with commitments") {
                // wrongly rejected (reported by `verify`): the plan cannot go on
                sim.dead = true;
            }
        } else {
            let base_chain = sim.chain.clone();
            sim.deliver(out, base_chain, &[spec], "edge block");
        }
    }
    if !sim.dead {
        out.nontrivial(format!("edge w={window:?} accepted={accepted} rejected={rejected} len={}", sim.chain.len()));
    }
    sim.finish();
}

fn dist_label(d: u64, c: u64, f: u64) -> &'static str {
    if d + 1 == c {
        "close-1"
    } else if d == c {
        "close"
    } else if d == f {
        "far"
    } else if d == f + 1 {
        "far+1"
    } else if d == f + 2 {
        "far+2"
    } else {
        "mid"
    }
}

// ------------------------------------------------------------------------------------------------
// family `fork`: reorganisation shapes of every depth relative to the window
// ------------------------------------------------------------------------------------------------

fn fork_spec(sim: &mut Sim, rng: &mut Rng, uncle: bool) -> Spec {
    // every block carries a unique id (so that a lost table row is visible), sometimes a shared one
    let mut ids = vec![sim.unique_id()];
    if rng.chance(1, 3) {
        ids.push(100 + rng.below(4));
    }
    let uncle_ids = if uncle && rng.chance(1, 4) { Some(vec![sim.unique_id(), 100 + rng.below(4)]) } else { None };
    Spec { ids, uncle_ids, commits: vec![] }
}

fn fork_case(out: &mut Out, rng: &mut Rng, base: &Path, window: (u64, u64), restart_chance: (u64, u64)) {
    let (c, f) = window;
    let mut sim = Sim::new(base, &format!("fork-{c}-{f}"), window, 2, false);
    sim.begin(out, "fork");
    // base chain longer than the window
    let l0 = f + 3;
    let specs: Vec<Spec> = (0..l0).map(|k| fork_spec(&mut sim, rng, k >= 1)).collect();
    let g = sim.chain.clone();
    sim.deliver(out, g, &specs, "base");
    let mut depths: Vec<u64> = vec![1, c, c + 1, f, f + 1, f + 2];
    if f >= 2 {
        depths.push(f - 1);
    }
    if c >= 2 {
        depths.push(c - 1);
    }
    depths.sort();
    depths.dedup();
    rng.shuffle(&mut depths);
    let mut shapes = 0;
    let maybe_restart = |sim: &mut Sim, out: &mut Out, rng: &mut Rng| {
        if !sim.dead && rng.chance(restart_chance.0, restart_chance.1) {
            sim.restart(out);
        }
    };
    for d in depths {
        if sim.dead {
            break;
        }
        let common = sim.tip();
        let root = sim.chain.clone();
        // A: d blocks
        let specs: Vec<Spec> = (0..d).map(|k| fork_spec(&mut sim, rng, k >= 1)).collect();
        sim.deliver(out, root.clone(), &specs, "A");
        let a = sim.chain.clone();
        maybe_restart(&mut sim, out, rng);
        // B: first-time fork of depth d (d+1 blocks from the fork point)
        let specs: Vec<Spec> = (0..d + 1).map(|k| fork_spec(&mut sim, rng, k >= 1)).collect();
        let ch = sim.deliver(out, root.clone(), &specs, "B first-time fork");
        if ch == 0 && !sim.dead {
            out.oracle_fail("node-no-reorg-to-longer-branch", &format!("B: common {common} depth {d}"));
            break;
        }
        let b = sim.chain.clone();
        out.count("fork-first-time");
        maybe_restart(&mut sim, out, rng);
        // A': switch back; the d blocks of A above the fork point were verified before
        let specs: Vec<Spec> = (0..2).map(|_| fork_spec(&mut sim, rng, true)).collect();
        let ch = sim.deliver(out, a, &specs, "A' switch-back");
        if ch == 0 && !sim.dead {
            out.oracle_fail("node-no-reorg-to-longer-branch", &format!("A': common {common} depth {d}"));
            break;
        }
        out.count("fork-switch-back");
        maybe_restart(&mut sim, out, rng);
        // B': and back again (d+1 verified blocks re-attached)
        let specs: Vec<Spec> = (0..2 + rng.below(2)).map(|_| fork_spec(&mut sim, rng, true)).collect();
        let ch = sim.deliver(out, b, &specs, "B' switch-back");
        if ch == 0 && !sim.dead {
            out.oracle_fail("node-no-reorg-to-longer-branch", &format!("B': common {common} depth {d}"));
            break;
        }
        out.count("fork-switch-back");
        maybe_restart(&mut sim, out, rng);
        if sim.dead {
            break;
        }
        // truncate to the fork point, then extend the cut-off (verified) branch by one block:
        // several attached blocks, none detached, verified_len > 0
        let cut = sim.chain.clone();
        sim.truncate(out, common);
        maybe_restart(&mut sim, out, rng);
        if rng.chance(1, 2) {
            // a partial truncation first: the cut-off branch is then re-attached from the middle
            let spec = fork_spec(&mut sim, rng, false);
            sim.deliver(out, cut, &[spec], "extend cut-off branch");
            out.count("fork-extend-cut-off-branch");
            maybe_restart(&mut sim, out, rng);
            if sim.dead {
                break;
            }
            let mid = rng.range(common, sim.tip());
            sim.truncate(out, mid);
            sim.truncate(out, common);
        }
        shapes += 1;
        out.nontrivial(format!("fork w={window:?} depth={d}"));
    }
    let _ = shapes;
    sim.finish();
}

// ------------------------------------------------------------------------------------------------
// family `pool`: the tx-pool's use of the view
// ------------------------------------------------------------------------------------------------

#[derive(Clone, Copy, PartialEq, Eq, Debug, PartialOrd, Ord)]
enum Stage {
    Pending,
    Gap,
    Proposed,
}

impl Sim {
    fn tpc(&self) -> &ckb_tx_pool::TxPoolController {
        self.n().shared.tx_pool_controller()
    }

    /// wait until the pool's snapshot is at the node's tip
    fn sync_pool(&self, out: &mut Out) {
        let t = Instant::now();
        loop {
            let tip = self.n().tip_hash();
            if let Ok(info) = self.tpc().get_tx_pool_info() {
                if info.tip_hash == tip {
                    return;
                }
            }
            if t.elapsed() > Duration::from_secs(30) {
                out.count("pool-sync-timeout");
                return;
            }
            std::thread::sleep(Duration::from_millis(2));
        }
    }

    fn stages(&self) -> BTreeMap<u64, Stage> {
        let d = self.tpc().verif_read(|pool| pool.verif_pool_map().verif_dump()).expect("verif_read");
        d.entries
            .iter()
            .map(|e| {
                (
                    self.small(&e.id),
                    match e.status {
                        Status::Pending => Stage::Pending,
                        Status::Gap => Stage::Gap,
                        Status::Proposed => Stage::Proposed,
                    },
                )
            })
            .collect()
    }

    /// what the stored window says about an id (`get_tx_status` as the property wants it)
    fn oracle_stage(&self, id: u64) -> Stage {
        let (sset, sgap, _) = self.store_window();
        if sset.contains(&id) {
            Stage::Proposed
        } else if sgap.contains(&id) {
            Stage::Gap
        } else {
            Stage::Pending
        }
    }

    /// staging of every pooled entry against the stored window. An entry staged Gap whose id is in
    /// no part of the window is C12's known finding `stage-gap-outside-window` (counted, not failed).
    fn staging_mismatch(&self, st: &BTreeMap<u64, Stage>, expect_pooled: &BTreeSet<u64>) -> Option<String> {
        let pooled: BTreeSet<u64> = st.keys().copied().collect();
        if &pooled != expect_pooled {
            return Some(format!("pooled ids {} expected {}", show_set(&pooled), show_set(expect_pooled)));
        }
        for (id, s) in st {
            let o = self.oracle_stage(*id);
            if *s != o && !(*s == Stage::Gap && o == Stage::Pending) {
                return Some(format!("tx {id} is staged {s:?}, the stored window says {o:?}"));
            }
        }
        None
    }

    /// (c) after a tip change (or a submission): poll until the pool's staging and the block
    /// template agree with the stored window; report what was last seen otherwise
    fn check_pool(&mut self, out: &mut Out, expect_pooled: &BTreeSet<u64>, what: &str) -> BTreeMap<u64, Stage> {
        let last = self.settle_pool(out, expect_pooled, what);
        self.pool_line(out, &last);
        last
    }

    fn pool_line(&self, out: &mut Out, last: &BTreeMap<u64, Stage>) {
        let proposed: Vec<u64> = last.iter().filter(|(_, s)| **s == Stage::Proposed).map(|(id, _)| *id).collect();
        let pooled: Vec<u64> = last.keys().copied().collect();
        out.op(&format!("pool {}", show_list(&pooled)), &format!("proposed={}", show_list(&proposed)));
        out.count("pool-checked");
    }

    fn settle_pool(&mut self, out: &mut Out, expect_pooled: &BTreeSet<u64>, what: &str) -> BTreeMap<u64, Stage> {
        self.sync_pool(out);
        let t = Instant::now();
        let patience = if self.dead { Duration::from_millis(200) } else { Duration::from_secs(12) };
        let mut last;
        loop {
            let st = self.stages();
            let mut problem = self.staging_mismatch(&st, expect_pooled).map(|p| ("pool-stage-not-window", p));
            if problem.is_none() {
                // the template packages exactly the pooled ids of the committable set
                let want: BTreeSet<u64> = st.iter().filter(|(id, _)| self.oracle_stage(**id) == Stage::Proposed).map(|(id, _)| *id).collect();
                match self.tpc().get_block_template(None, None, None) {
                    Ok(Ok(t)) => {
                        let block: packed::Block = t.into();
                        let block = block.into_view();
                        let got: BTreeSet<u64> = block.transactions().iter().skip(1).map(|tx| self.small(&tx.proposal_short_id())).collect();
                        if block.parent_hash() != self.n().tip_hash() {
                            problem = Some(("pool-template-not-window", format!("template parent is not the tip")));
                        } else if got != want {
                            problem = Some(("pool-template-not-window", format!("template commits {}, committable and pooled: {}", show_set(&got), show_set(&want))));
                        }
                    }
                    other => problem = Some(("pool-template-not-window", format!("no template: {:?}", other.map(|r| r.map(|_| ()).map_err(|e| e.to_string())).map_err(|e| e.to_string())))),
                }
            }
            last = st;
            match problem {
                None => break,
                Some((cls, p)) => {
                    if t.elapsed() > patience {
                        out.oracle_fail(cls, &format!("{what}: {p} (tip {})", self.tip()));
                        self.dead = true;
                        break;
                    }
                    std::thread::sleep(Duration::from_millis(5));
                }
            }
        }
        if last.iter().any(|(id, s)| *s == Stage::Gap && self.oracle_stage(*id) == Stage::Pending) {
            out.count("pool-gap-entry-outside-window (C12 known finding)");
        }
        last
    }

    /// submit a transaction at the current tip: its stage must be what the stored window says
    fn submit(&mut self, out: &mut Out, id: u64, pooled: &mut BTreeSet<u64>) {
        let tx = self.txs[id as usize - 1].clone();
        let want = self.oracle_stage(id);
        match self.tpc().submit_local_tx(tx) {
            Ok(Ok(())) => {}
            other => {
                out.oracle_fail("pool-rejects-valid-tx", &format!("submit {id}: {:?}", other.map(|r| r.map_err(|e| e.to_string())).map_err(|e| e.to_string())));
                self.dead = true;
                return;
            }
        }
        pooled.insert(id);
        // the entry appears with the stage chosen by get_tx_status
        let t = Instant::now();
        let got = loop {
            let st = self.stages();
            if let Some(s) = st.get(&id) {
                break Some(*s);
            }
            if t.elapsed() > Duration::from_secs(12) {
                break None;
            }
            std::thread::sleep(Duration::from_millis(2));
        };
        let name = |s: Stage| match s {
            Stage::Proposed => "proposed",
            Stage::Gap => "gap",
            Stage::Pending => "fresh",
        };
        match got {
            Some(s) => {
                if s != want {
                    out.oracle_fail("pool-status-not-window", &format!("tx {id} submitted at tip {} was staged {s:?}; the stored window says {want:?}", self.tip()));
                    self.dead = true;
                }
                out.op(&format!("status {id}"), name(s));
                out.count(&format!("pool-submit-{}", name(s)));
            }
            None => {
                out.oracle_fail("pool-rejects-valid-tx", &format!("submit {id}: accepted but never pooled"));
                self.dead = true;
            }
        }
    }

    /// a tip change with the pool attached: `nswitchm` line (ids moved out of Proposed = the
    /// detached_proposal_id handed to the pool, restricted to the entries that stay pooled)
    fn deliver_pool(&mut self, out: &mut Out, base: Vec<Blk>, specs: &[Spec], pooled: &mut BTreeSet<u64>, what: &str) {
        let before = self.stages();
        let (old_set, _, _) = self.store_window();
        if let Some(first) = specs.first().filter(|s| !s.commits.is_empty()) {
            // recorded for the replay only (the model answers ok)
            out.op(&format!("ncommit {}", show_list(&first.commits)), "ok");
        }
        // the blocks are delivered one by one; only the last one may change the tip
        let mut cand = base;
        for (k, spec) in specs.iter().enumerate() {
            let parent = cand.last().unwrap().hash.clone();
            let (blk, union) = self.build(&parent, spec);
            let r = self.n().process(&blk);
            if r != Ok(true) {
                out.oracle_fail("node-rejects-valid-block", &format!("{what}: block {}: {:?}", blk.number(), r));
                self.dead = true;
                return;
            }
            cand.push(Blk { hash: blk.hash(), ids: union, committed: spec.commits.clone() });
            let is_tip = self.n().tip_hash() == blk.hash();
            if is_tip != (k + 1 == specs.len()) {
                out.oracle_fail("node-tip-unexpected", &format!("{what}: block {} is_tip={is_tip}", blk.number()));
                self.dead = true;
                return;
            }
        }
        let common = self.chain.iter().zip(cand.iter()).take_while(|(a, b)| a.hash == b.hash).count() - 1;
        // transactions committed on the detached part and not on the attached part are re-admitted
        let detached: BTreeSet<u64> = self.chain[common + 1..].iter().flat_map(|b| b.committed.iter().copied()).collect();
        let attached: BTreeSet<u64> = cand[common + 1..].iter().flat_map(|b| b.committed.iter().copied()).collect();
        for i in &attached {
            pooled.remove(i);
        }
        for i in detached.difference(&attached) {
            pooled.insert(*i);
            out.count("pool-readmitted-after-detach");
        }
        self.chain = cand.clone();
        self.sync_pool(out);
        let after = self.settle_pool(out, pooled, what);
        // ids moved out of Proposed by this change, among the entries pooled before and after
        let watch: Vec<u64> = before.iter().filter(|(id, s)| **s == Stage::Proposed && after.contains_key(*id)).map(|(id, _)| *id).collect();
        let moved: Vec<u64> = watch.iter().copied().filter(|id| after[id] != Stage::Proposed).collect();
        let (new_set, _, _) = self.store_window();
        let left: Vec<u64> = watch.iter().copied().filter(|id| old_set.contains(id) && !new_set.contains(id)).collect();
        if moved != left {
            out.oracle_fail("pool-moved-not-left-window", &format!("{what}: entries moved out of Proposed: {}; ids that left the stored committable window: {}", show_list(&moved), show_list(&left)));
        }
        if !moved.is_empty() {
            out.count("pool-entry-moved-back");
        }
        let mut op = format!("nswitchm {} {common}", show_list(&watch));
        for b in &cand[common + 1..] {
            op.push(' ');
            op.push_str(&show_list(&b.ids));
        }
        let l = self.view_line(out, &format!("{what}: {op}"));
        out.op(&op, &format!("moved={} {l}", show_list(&moved)));
        self.pool_line(out, &after);
    }
}

fn pool_case(out: &mut Out, rng: &mut Rng, base: &Path, window: (u64, u64), no: usize) {
    let (c, f) = window;
    assert!(c >= 2 && f >= c + 1);
    let mut sim = Sim::new(base, &format!("pool-{c}-{f}-{no}"), window, 12, true);
    sim.begin(out, "pool");
    let mut ids: Vec<u64> = (1..=12).collect();
    rng.shuffle(&mut ids);
    let (a, b, ab, n, e, a2, b2, ab2, m) = (ids[0], ids[1], ids[2], ids[3], ids[4], ids[5], ids[6], ids[7], ids[8]);
    let mut pooled: BTreeSet<u64> = BTreeSet::new();
    // 1. pad: chain longer than the window
    let h0 = f + 2;
    for _ in 0..h0 {
        if sim.dead {
            break;
        }
        let u = sim.unique_id();
        let ch = sim.chain.clone();
        sim.deliver_pool(out, ch, &[Spec { ids: vec![u], ..Default::default() }], &mut pooled, "pad");
    }
    // 2. early submissions: nothing proposed yet
    for id in [a2, b2, ab2, m] {
        if !sim.dead {
            sim.submit(out, id, &mut pooled);
        }
    }
    if !sim.dead {
        sim.check_pool(out, &pooled.clone(), "early submissions");
    }
    // 3. proposals placed by their distance from block T+1
    let t = h0 + f + 1;
    let mut plan: BTreeMap<u64, (Vec<u64>, Vec<u64>)> = BTreeMap::new(); // height -> (own, uncle)
    let at = |d: u64| t + 1 - d;
    let ab2_first = if c + 1 <= f { c + 1 } else { c };
    let mut put = |h: u64, id: u64, uncle: bool| {
        let e = plan.entry(h).or_default();
        if uncle { e.1.push(id) } else { e.0.push(id) }
    };
    put(at(f + 1), e, false);
    put(at(f), a, rng.chance(1, 2));
    put(at(f), ab, true);
    put(at(c - 1), ab, false);
    put(at(c), a2, rng.chance(1, 2));
    put(at(ab2_first), ab2, false);
    put(at(1), ab2, false);
    put(at(c - 1), b, rng.chance(1, 2));
    put(at(1), b2, false);
    for h in h0 + 1..=t {
        if sim.dead {
            break;
        }
        let (mut own, unc) = plan.get(&h).cloned().unwrap_or_default();
        if rng.chance(1, 2) {
            own.push(sim.unique_id());
        }
        let ch = sim.chain.clone();
        sim.deliver_pool(out, ch, &[Spec { ids: own, uncle_ids: if unc.is_empty() { None } else { Some(unc) }, commits: vec![] }], &mut pooled, "planned proposals");
    }
    // 4. submissions at tip T: set only / gap only / both / neither / expired
    for (id, want) in [(a, Stage::Proposed), (b, Stage::Gap), (ab, Stage::Proposed), (n, Stage::Pending), (e, Stage::Pending)] {
        if sim.dead {
            break;
        }
        if sim.oracle_stage(id) != want {
            out.count("pool-plan-mismatch");
            eprintln!("pool plan mismatch: tx {id} planned {want:?}, stored window {:?}", sim.oracle_stage(id));
        }
        sim.submit(out, id, &mut pooled);
    }
    if !sim.dead {
        sim.check_pool(out, &pooled.clone(), "submissions at T");
    }
    // 5. A1 commits a and ab (both committable) and proposes m; A2..Ac
    let root = sim.chain.clone();
    if !sim.dead {
        let ch = sim.chain.clone();
        sim.deliver_pool(out, ch, &[Spec { ids: vec![m], uncle_ids: None, commits: vec![a, ab] }], &mut pooled, "A1 commits");
    }
    for _ in 1..c {
        if sim.dead {
            break;
        }
        let u = sim.unique_id();
        let ch = sim.chain.clone();
        sim.deliver_pool(out, ch, &[Spec { ids: vec![u], ..Default::default() }], &mut pooled, "A");
    }
    if !sim.dead && sim.stages().get(&m) != Some(&Stage::Proposed) {
        out.count("pool-plan-mismatch");
    }
    // 6. reorganisation to B (c+1 blocks from T): a and ab are re-admitted (ab proposed in B1 and
    // again in the last block: both parts of the view), m is not proposed on B: back from Proposed;
    // n (pending so far) is proposed in B1 and in the last block: the stage move must file it Proposed
    if !sim.dead {
        let mut specs: Vec<Spec> = vec![];
        for k in 0..=c {
            let mut own = vec![sim.unique_id()];
            if k == 0 {
                own.push(a);
                own.push(ab);
                own.push(n);
            }
            if k == c {
                own.push(ab);
                own.push(n);
            }
            specs.push(Spec { ids: own, ..Default::default() });
        }
        sim.deliver_pool(out, root, &specs, &mut pooled, "reorg to B");
        out.count("pool-reorg");
    }
    // 7. two more blocks: the re-proposed ids move on
    for _ in 0..2 {
        if sim.dead {
            break;
        }
        let u = sim.unique_id();
        let ch = sim.chain.clone();
        sim.deliver_pool(out, ch, &[Spec { ids: vec![u], ..Default::default() }], &mut pooled, "after reorg");
    }
    if !sim.dead {
        out.nontrivial(format!("pool w={window:?} len={}", sim.chain.len()));
    }
    // the pool service keeps `Shared` alive until the process exits: stop the chain service, keep going
    sim.finish();
}

// ------------------------------------------------------------------------------------------------

// ------------------------------------------------------------------------------------------------
// replay of a recorded case (violation replay files, shrinking): the op lines are executed literally
// on a fresh node. Blocks are rebuilt from the lines: `nswitch` carries the union ids per block (they
// become the block's own proposals; uncle placement is not recorded), a branch whose leading blocks
// repeat an abandoned chain (same ids above the same fork point) is delivered ON that chain, so that
// switch-backs re-attach previously verified blocks as in the recorded run. Transactions committed by
// blocks of the pool family are not recorded (only `verify` lines carry commitments).
// ------------------------------------------------------------------------------------------------

fn parse_ids(s: &str) -> Vec<u64> {
    if s == "-" { vec![] } else { s.split(',').map(|x| x.parse().expect("id")).collect() }
}

impl Sim {
    /// base chain and remaining specs for a recorded `nswitch <common> <ids>*`
    fn replay_base(&self, common: usize, branch: &[Vec<u64>]) -> (Vec<Blk>, Vec<Spec>) {
        let mut best: (usize, Vec<Blk>) = (0, self.chain[..=common].to_vec());
        for o in &self.old {
            if o.len() <= common + 1 || o[common].hash != self.chain[common].hash {
                continue;
            }
            let k = o[common + 1..].iter().zip(branch.iter()).take_while(|(b, ids)| &b.ids == *ids).count();
            // the whole abandoned chain must be re-used (its tip is the parent of the first new block)
            if k > best.0 && k < branch.len() && common + 1 + k == o.len() {
                best = (k, o.clone());
            }
        }
        let specs = branch[best.0..].iter().map(|ids| Spec { ids: ids.clone(), ..Default::default() }).collect();
        (best.1, specs)
    }
}

fn replay_case(out: &mut Out, base: &Path, lines: &[String], with_pool: bool) {
    let mut sim: Option<Sim> = None;
    let mut label = "replay".to_string();
    let mut pooled: BTreeSet<u64> = BTreeSet::new();
    let mut pending_commits: Vec<u64> = vec![];
    let mut i = 0;
    while i < lines.len() {
        let ts: Vec<&str> = lines[i].split(' ').collect();
        i += 1;
        match ts[0] {
            "case" => {
                if let Some(s) = sim.take() {
                    s.finish();
                }
                label = ts.get(2).unwrap_or(&"replay").to_string();
            }
            "cfg" => {
                let w: (u64, u64) = (ts[1].parse().expect("close"), ts[2].parse().expect("far"));
                if let Some(s) = sim.take() {
                    s.finish();
                }
                let mut s = Sim::new(base, &format!("replay-{i}"), w, 24, with_pool);
                s.begin(out, &label);
                sim = Some(s);
                pooled.clear();
            }
            "nboot" => {}
            _ => {
                let sim = sim.as_mut().expect("cfg first");
                if sim.dead {
                    continue;
                }
                match ts[0] {
                    "nswitch" => {
                        let common: usize = ts[1].parse().expect("common");
                        if common >= sim.chain.len() {
                            out.count("replay-out-of-step");
                            sim.dead = true;
                            continue;
                        }
                        let branch: Vec<Vec<u64>> = ts[2..].iter().map(|x| parse_ids(x)).collect();
                        if branch.is_empty() {
                            sim.truncate(out, common as u64);
                        } else {
                            let (b, specs) = sim.replay_base(common, &branch);
                            sim.deliver(out, b, &specs, "replay");
                        }
                    }
                    "nrestart" => {
                        if !with_pool {
                            sim.restart(out);
                        }
                    }
                    "verify" => {
                        let commits = parse_ids(ts[1]);
                        // an accepted block is followed by its own `nswitch <tip> <ids>` line
                        let mut ids = vec![];
                        // (in the recording a block is accepted iff all its commitments are in the
                        // stored window, or the case ends there)
                        let (sset, _, _) = sim.store_window();
                        let accepted = commits.iter().all(|c| sset.contains(c));
                        if let Some(next) = lines.get(i).filter(|_| accepted) {
                            let nt: Vec<&str> = next.split(' ').collect();
                            if nt[0] == "nswitch" && nt.len() == 3 && nt[1].parse::<u64>().ok() == Some(sim.tip()) {
                                ids = parse_ids(nt[2]);
                                i += 1;
                            }
                        }
                        sim.verify(out, &Spec { ids, uncle_ids: None, commits }, "replay");
                    }
                    "status" => {
                        let id: u64 = ts[1].parse().expect("id");
                        assert!(id >= 1 && id <= sim.n_tx, "status: not a transaction id");
                        sim.submit(out, id, &mut pooled);
                    }
                    "ncommit" => {
                        pending_commits = parse_ids(ts[1]);
                    }
                    "nswitchm" => {
                        let common: usize = ts[2].parse().expect("common");
                        if common >= sim.chain.len() {
                            out.count("replay-out-of-step");
                            sim.dead = true;
                            continue;
                        }
                        let mut specs: Vec<Spec> = ts[3..].iter().map(|x| Spec { ids: parse_ids(x), ..Default::default() }).collect();
                        assert!(!specs.is_empty(), "nswitchm: no block");
                        specs[0].commits = std::mem::take(&mut pending_commits);
                        let b = sim.chain[..=common].to_vec();
                        sim.deliver_pool(out, b, &specs, &mut pooled, "replay");
                        // deliver_pool prints the `pool` line that follows in the recording
                        if lines.get(i).map_or(false, |l| l.starts_with("pool ")) {
                            i += 1;
                        }
                    }
                    "pool" => {
                        sim.check_pool(out, &pooled.clone(), "replay");
                    }
                    other => panic!("C20 node replay: unknown op {other}"),
                }
            }
        }
    }
    if let Some(s) = sim.take() {
        s.finish();
    }
}

pub fn run(opts: &Opts) {
    let mut out = Out::new(&opts.out);
    if let Some(rp) = &opts.replay {
        let family = opts.extra.first().map(|s| s.as_str()).unwrap_or("node").to_string();
        let text = std::fs::read_to_string(rp).expect("read replay");
        let lines = read_replay_ops(rp);
        let header_stream = text.lines().find_map(|l| l.strip_prefix("# property C20 stream ").map(|r| r.split(' ').next().unwrap_or("").to_string()));
        let table_level = lines.iter().any(|l| {
            let t = l.split(' ').next().unwrap_or("");
            matches!(t, "boot" | "switch" | "restart" | "insert" | "remove" | "finalize" | "view-reset") || l == "cfg default"
        });
        let pool_ops = lines.iter().any(|l| l.starts_with("status ") || l.starts_with("nswitchm ") || l.starts_with("pool "));
        let mine = match header_stream {
            Some(h) => h == family,
            None => !table_level && (if pool_ops { family == "pool" } else { family == "node" }),
        };
        if !mine || table_level {
            out.finish("replay (a case recorded for another stream)");
            return;
        }
        let base = scratch_dir(&opts.out, &format!("c20replay{family}"));
        replay_case(&mut out, &base, &lines, family == "pool");
        let _ = std::fs::remove_dir_all(&base);
        out.finish("replayed case");
        if family == "pool" {
            std::process::exit(0);
        }
        return;
    }
    let family = opts.extra.first().map(|s| s.as_str()).unwrap_or("node").to_string();
    let mut rng = Rng::new(opts.seed ^ (family.bytes().map(|b| b as u64).sum::<u64>() << 40));
    let base = scratch_dir(&opts.out, &format!("c20{family}"));
    let k = opts.scale as usize * if opts.thorough() { 4 } else { 1 };
    match family.as_str() {
        "node" => {
            let cases = if opts.thorough() { 90 } else { 6 } * opts.scale as usize;
            for i in 0..cases {
                node_case(&mut out, &mut rng, &base, i, 45);
            }
            let _ = std::fs::remove_dir_all(&base);
            out.finish("node cases with at least one reorganisation, one restart, one accepted and one rejected commitment (distinct by window, counts and final length)");
        }
        "edge" => {
            for _ in 0..k {
                for w in [(2, 10), (1, 1), (1, 2), (2, 4)] {
                    edge_case(&mut out, &mut rng, &base, w);
                }
                if opts.thorough() {
                    for w in [(3, 5), (1, 10), (4, 4), (2, 3)] {
                        edge_case(&mut out, &mut rng, &base, w);
                    }
                }
            }
            let _ = std::fs::remove_dir_all(&base);
            out.finish("edge cases that ran to the end of the plan (distinct by window, accepted/rejected commitments, length)");
        }
        "fork" => {
            for _ in 0..k {
                for w in [(2, 10), (1, 1), (1, 2), (2, 4)] {
                    fork_case(&mut out, &mut rng, &base, w, (1, 3));
                }
                if opts.thorough() {
                    for w in [(3, 5), (2, 2), (1, 4)] {
                        fork_case(&mut out, &mut rng, &base, w, (1, 2));
                    }
                }
            }
            let _ = std::fs::remove_dir_all(&base);
            out.finish("completed fork shapes A / B / A' / B' / truncate / cut-off extension (distinct by window and depth)");
        }
        "pool" => {
            let mut no = 0;
            for _ in 0..k {
                for w in [(2, 4), (2, 10), (3, 5)] {
                    no += 1;
                    pool_case(&mut out, &mut rng, &base, w, no);
                }
            }
            out.finish("pool cases that ran to the end of the script (distinct by window and length)");
            let _ = std::fs::remove_dir_all(&base);
            // the tx-pool service keeps its runtime tasks alive
            std::process::exit(0);
        }
        other => panic!("C20: unknown family {other}"),
    }
}
