//! C06 — rewards, fee split, DAO field: correspondence harness.
//!
//! Two streams (`opts.extra[0]`): `arith` (default) and `chain`.
//!
//! ## `arith`: the real arithmetic, one call per op line, against `Model/Dao.lean` / `Model/Reward.lean`
//!
//! ```text
//! ratio <fee> <numer> <denom>            Capacity::safe_mul_ratio + safe_sub      -> p=<v|err> c=<v|err>
//! pack <ar> <c> <s> <u>                  ckb_dao_utils::pack_dao_data             -> <64 hex>
//! extract <64 hex>                       ckb_dao_utils::extract_dao_data (+repack)-> ar c s u <hex>
//! occupied <cell>                        CellMeta::occupied_capacity              -> ok <v> | err-overflow
//! withdraw <cell> <dn> <da> <wn> <wa>    DaoCalculator::calculate_maximum_withdraw-> ok <v> | err-* | panic
//! fee <tx>                               DaoCalculator::transaction_fee           -> ok <v> | err-* | panic
//! primary <start> <len> <base> <rem> <n> DaoCalculator::primary_block_reward      -> ok <v> | ...
//! secondary <ser> <start> <len> <base> <rem> <n> <parent_c> <parent_u>
//!                                        DaoCalculator::secondary_block_reward    -> ok <v> | ...
//! dao <ser> <start> <len> <base> <rem> <parent_number> <ar> <c> <s> <u> <txs>
//!                                        DaoCalculator::dao_field_with_current_epoch
//!                                                                -> ok <hex> ar c s u | err-* | panic
//! cell  = cap:lockArgsLen:typeArgsLen|n:dataBytes
//! input = <kind>:<cell>[:depNum:depAr:wdNum:wdAr]     kind p plain, d dao deposit cell (plain),
//!         s satoshi gift cell, g1/g2/g3 near misses of the satoshi rule (plain), w dao withdrawing cell
//! tx    = <input>,<input>…|<cell>,<cell>…   (empty list `-`);  txs = tx;tx;…
//! ```
//! rfee <hdrs> <rawtx>                    DaoCalculator::transaction_fee on a RAW transaction: the
//!                                        classification of every input (is_dao_type_script,
//!                                        is_withdrawing_input) and the error paths (header deps,
//!                                        witness format, header-dep index, unknown headers) are the
//!                                        calculator's / the model's own     -> ok <v> | err-* | panic
//! rdao <ser> <start> <len> <base> <rem> <parent_number> <ar> <c> <s> <u> <hdrs> <rawtxs>
//!                                        dao_field_with_current_epoch on raw transactions (also the
//!                                        satoshi rule of modified_occupied_capacity: is_genesis,
//!                                        is_cellbase, lock args)            -> ok <hex> ar c s u | …
//! rawin = <cell>:<ty>:<data>:<info>:<sat>   ty = n | 2 bits (hash_type is Type, code hash is the dao
//!         type hash); data = n (load_cell_data None) | <len>.<read_u64>; info = n |
//!         <header id>.<block number>.<tx index>; sat = 0|1 (lock args = satoshi_pubkey_hash)
//! rawtx = <rawin>,…|<cell>,…|<witness>,…|<header ids>   witness = m (not a WitnessArgs) | e (no
//!         input_type) | <len>.<read_u64> (input_type bytes);  hdrs = <id>.<number>.<ar>,… (the
//!         headers the data loader knows; other ids are hashes it does not know)
//! The calculator runs over a mock data loader (the three `ckb_traits` provider traits) holding
//! the synthetic headers / epoch exts of the op.
//!
//! ## `chain`: `RewardCalculator::block_reward_to_finalize` on a real `ChainDB` (RocksDB in tmpfs)
//!
//! ```text
//! cfg <close> <far> <numer> <denom> <ser>          new consensus, chain reset           -> ok
//! blk <n> <props> <uncle props> <commit ids> <fees> <start> <len> <base> <rem> <ar> <c> <s> <u>
//!                                                  insert+attach block n, ext, epoch    -> ok
//! reward <p>                                       block_reward_to_finalize(header p)
//!                  -> ok target=<t> total=… primary=… secondary=… txfee=… proposal=… | err-* | panic
//! ```
//! Oracles (independent of the model, u128 arithmetic): see `oracle_*` below.
use crate::common::*;
use ckb_chain_spec::consensus::{Consensus, ConsensusBuilder, ProposalWindow};
use ckb_dao::DaoCalculator;
use ckb_dao_utils::{DaoError, extract_dao_data, pack_dao_data};
use ckb_db::RocksDB;
use ckb_db_schema::COLUMNS;
use ckb_reward_calculator::RewardCalculator;
use ckb_store::ChainDB;
use ckb_traits::{CellDataProvider, EpochProvider, HeaderProvider};
use ckb_types::{
    bytes::Bytes,
    core::{
        BlockBuilder, BlockExt, BlockNumber, BlockView, Capacity, EpochExt, HeaderBuilder,
        HeaderView, Ratio, ScriptHashType, TransactionBuilder, TransactionInfo, TransactionView,
        EpochNumberWithFraction,
        cell::{CellMeta, CellMetaBuilder, ResolvedTransaction},
    },
    packed::{self, Byte32, CellInput, CellOutput, CellbaseWitness, OutPoint, Script, WitnessArgs},
    prelude::*,
};
use std::collections::{HashMap, HashSet};
use std::panic::{AssertUnwindSafe, catch_unwind};
use std::path::PathBuf;

const BS: u128 = 100_000_000; // shannons per byte (RFC 2 / RFC 19), used by the oracle only

// ------------------------------------------------------------------------------------------ specs

#[derive(Clone, Debug)]
struct CellS {
    cap: u64,
    lock_args: u64,
    type_args: Option<u64>,
    data_bytes: u64,
}

#[derive(Clone, Debug, PartialEq)]
enum Kind {
    Plain,
    Deposit,
    Sat,
    G1,
    G2,
    G3,
    W { dn: u64, da: u64, wn: u64, wa: u64 },
}

#[derive(Clone, Debug)]
struct InS {
    cell: CellS,
    kind: Kind,
}

#[derive(Clone, Debug)]
struct TxS {
    ins: Vec<InS>,
    outs: Vec<CellS>,
}

fn fmt_cell(c: &CellS) -> String {
    format!(
        "{}:{}:{}:{}",
        c.cap,
        c.lock_args,
        c.type_args.map(|a| a.to_string()).unwrap_or_else(|| "n".into()),
        c.data_bytes
    )
}

fn fmt_in(i: &InS) -> String {
    let k = match &i.kind {
        Kind::Plain => "p",
        Kind::Deposit => "d",
        Kind::Sat => "s",
        Kind::G1 => "g1",
        Kind::G2 => "g2",
        Kind::G3 => "g3",
        Kind::W { .. } => "w",
    };
    match &i.kind {
        Kind::W { dn, da, wn, wa } => format!("{}:{}:{}:{}:{}:{}", k, fmt_cell(&i.cell), dn, da, wn, wa),
        _ => format!("{}:{}", k, fmt_cell(&i.cell)),
    }
}

fn fmt_list<T>(xs: &[T], f: impl Fn(&T) -> String, sep: &str) -> String {
    if xs.is_empty() { "-".into() } else { xs.iter().map(f).collect::<Vec<_>>().join(sep) }
}

fn fmt_tx(t: &TxS) -> String {
    format!("{}|{}", fmt_list(&t.ins, fmt_in, ","), fmt_list(&t.outs, fmt_cell, ","))
}

fn fmt_txs(ts: &[TxS]) -> String {
    fmt_list(ts, fmt_tx, ";")
}

fn num(s: &str) -> u64 {
    if let Some(h) = s.strip_prefix("0x") { u64::from_str_radix(h, 16).expect("hex number") } else { s.parse().expect("number") }
}

fn parse_cell(fs: &[&str]) -> CellS {
    assert!(fs.len() == 4, "malformed cell");
    CellS {
        cap: num(fs[0]),
        lock_args: num(fs[1]),
        type_args: if fs[2] == "n" { None } else { Some(num(fs[2])) },
        data_bytes: num(fs[3]),
    }
}

fn parse_in(s: &str) -> InS {
    let fs: Vec<&str> = s.split(':').collect();
    assert!(fs.len() >= 5, "malformed input");
    let cell = parse_cell(&fs[1..5]);
    let kind = match (fs[0], fs.len()) {
        ("p", 5) => Kind::Plain,
        ("d", 5) => Kind::Deposit,
        ("s", 5) => Kind::Sat,
        ("g1", 5) => Kind::G1,
        ("g2", 5) => Kind::G2,
        ("g3", 5) => Kind::G3,
        ("w", 9) => Kind::W { dn: num(fs[5]), da: num(fs[6]), wn: num(fs[7]), wa: num(fs[8]) },
        _ => panic!("malformed input kind"),
    };
    InS { cell, kind }
}

fn parse_list<T>(s: &str, sep: char, f: impl Fn(&str) -> T) -> Vec<T> {
    if s == "-" { vec![] } else { s.split(sep).map(f).collect() }
}

fn parse_tx(s: &str) -> TxS {
    let parts: Vec<&str> = s.split('|').collect();
    assert!(parts.len() == 2, "malformed tx");
    TxS {
        ins: parse_list(parts[0], ',', parse_in),
        outs: parse_list(parts[1], ',', |c| parse_cell(&c.split(':').collect::<Vec<_>>())),
    }
}

fn parse_txs(s: &str) -> Vec<TxS> {
    parse_list(s, ';', parse_tx)
}

fn parse_nums(s: &str) -> Vec<u64> {
    parse_list(s, ',', num)
}

fn fmt_nums(xs: &[u64]) -> String {
    fmt_list(xs, |x| x.to_string(), ",")
}

// ------------------------------------------------------------------------------ mock data loader

#[derive(Default)]
struct MockDL {
    headers: HashMap<Byte32, HeaderView>,
    epochs: HashMap<Byte32, EpochExt>,
}

impl CellDataProvider for MockDL {
    fn get_cell_data(&self, _out_point: &OutPoint) -> Option<Bytes> {
        None
    }
    fn get_cell_data_hash(&self, _out_point: &OutPoint) -> Option<Byte32> {
        None
    }
}

impl HeaderProvider for MockDL {
    fn get_header(&self, hash: &Byte32) -> Option<HeaderView> {
        self.headers.get(hash).cloned()
    }
}

impl EpochProvider for MockDL {
    fn get_epoch_ext(&self, block_header: &HeaderView) -> Option<EpochExt> {
        self.epochs.get(&block_header.hash()).cloned()
    }
    fn get_block_hash(&self, _number: BlockNumber) -> Option<Byte32> {
        None
    }
    fn get_block_ext(&self, _block_hash: &Byte32) -> Option<BlockExt> {
        None
    }
    fn get_block_header(&self, hash: &Byte32) -> Option<HeaderView> {
        self.headers.get(hash).cloned()
    }
}

// --------------------------------------------------------------------------- building real values

fn script_with_args(len: u64, code: Byte32, ht: ScriptHashType, fill: u8) -> Script {
    Script::new_builder()
        .code_hash(code)
        .hash_type(ht)
        .args(Bytes::from(vec![fill; len as usize]).pack())
        .build()
}

fn other_code_hash() -> Byte32 {
    Byte32::from_slice(&[0x11u8; 32]).unwrap()
}

fn build_output(c: &CellS, dao_type: bool, satoshi_lock: bool, consensus: &Consensus) -> CellOutput {
    let lock = if satoshi_lock {
        Script::new_builder()
            .code_hash(other_code_hash())
            .hash_type(ScriptHashType::Data)
            .args(Bytes::from(consensus.satoshi_pubkey_hash.0.to_vec()).pack())
            .build()
    } else {
        script_with_args(c.lock_args, other_code_hash(), ScriptHashType::Data, 0xAA)
    };
    let type_ = c.type_args.map(|a| {
        if dao_type {
            script_with_args(a, consensus.dao_type_hash(), ScriptHashType::Type, 0xBB)
        } else {
            script_with_args(a, other_code_hash(), ScriptHashType::Data1, 0xBB)
        }
    });
    CellOutput::new_builder()
        .capacity(Capacity::shannons(c.cap))
        .lock(lock)
        .type_(type_.pack())
        .build()
}

fn dao_header(number: u64, ar: u64, salt: u64) -> HeaderView {
    hb()
        .number(number)
        .timestamp(salt)
        .dao(pack_dao_data(ar, Capacity::zero(), Capacity::zero(), Capacity::zero()))
        .build()
}

/// Build the resolved transaction of a spec; synthetic headers go into `dl`.
fn build_rtx(t: &TxS, consensus: &Consensus, dl: &mut MockDL) -> ResolvedTransaction {
    let mut header_deps: Vec<Byte32> = vec![];
    let mut witnesses: Vec<packed::Bytes> = vec![];
    let mut metas: Vec<CellMeta> = vec![];
    let mut inputs: Vec<CellInput> = vec![];
    let dep_index = |hd: &mut Vec<Byte32>, h: Byte32| -> u64 {
        if let Some(i) = hd.iter().position(|x| *x == h) {
            i as u64
        } else {
            hd.push(h);
            (hd.len() - 1) as u64
        }
    };
    for (i, ins) in t.ins.iter().enumerate() {
        let genesis_hash = Byte32::from_slice(&[0x77u8; 32]).unwrap();
        let other_hash = Byte32::from_slice(&[0x78u8; 32]).unwrap();
        let ep = EpochNumberWithFraction::new(0, 0, 1);
        let (dao_type, sat_lock, data, info, wit): (bool, bool, Bytes, Option<TransactionInfo>, packed::Bytes) = match &ins.kind {
            Kind::Plain => (false, false, Bytes::new(), Some(TransactionInfo::new(5, ep, other_hash, 1)), Bytes::new().pack()),
            Kind::Deposit => {
                assert!(ins.cell.type_args.is_some(), "malformed: dao cell without type script");
                (true, false, Bytes::from(vec![0u8; 8]), Some(TransactionInfo::new(5, ep, other_hash, 1)), Bytes::new().pack())
            }
            Kind::Sat => {
                assert!(ins.cell.lock_args == 20, "malformed: satoshi lock args are 20 bytes");
                (false, true, Bytes::new(), Some(TransactionInfo::new(0, ep, genesis_hash, 0)), Bytes::new().pack())
            }
            // genesis, satoshi lock, but not the cellbase
            Kind::G1 => {
                assert!(ins.cell.lock_args == 20, "malformed: satoshi lock args are 20 bytes");
                (false, true, Bytes::new(), Some(TransactionInfo::new(0, ep, genesis_hash, 1)), Bytes::new().pack())
            }
            // cellbase, satoshi lock, but not genesis
            Kind::G2 => {
                assert!(ins.cell.lock_args == 20, "malformed: satoshi lock args are 20 bytes");
                (false, true, Bytes::new(), Some(TransactionInfo::new(1, ep, other_hash, 0)), Bytes::new().pack())
            }
            // genesis cellbase, other lock
            Kind::G3 => (false, false, Bytes::new(), Some(TransactionInfo::new(0, ep, genesis_hash, 0)), Bytes::new().pack()),
            Kind::W { dn, da, wn, wa } => {
                assert!(ins.cell.type_args.is_some(), "malformed: dao cell without type script");
                let dep = dao_header(*dn, *da, 1);
                let wd = dao_header(*wn, *wa, 2);
                dl.headers.insert(dep.hash(), dep.clone());
                dl.headers.insert(wd.hash(), wd.clone());
                let _wi = dep_index(&mut header_deps, wd.hash());
                let di = dep_index(&mut header_deps, dep.hash());
                let wit = WitnessArgs::new_builder()
                    .input_type(Some(Bytes::from(di.to_le_bytes().to_vec())).pack())
                    .build();
                (
                    true,
                    false,
                    Bytes::from((*dn).max(1).to_le_bytes().to_vec()),
                    Some(TransactionInfo::new(*wn, ep, wd.hash(), 1)),
                    wit.as_bytes().pack(),
                )
            }
        };
        let output = build_output(&ins.cell, dao_type, sat_lock, consensus);
        let op = OutPoint::new(Byte32::from_slice(&[0x55u8; 32]).unwrap(), i as u32);
        let mut meta = CellMetaBuilder::from_cell_output(output, data).out_point(op.clone()).build();
        meta.data_bytes = ins.cell.data_bytes;
        meta.transaction_info = info;
        metas.push(meta);
        witnesses.push(wit);
        inputs.push(CellInput::new(op, 0));
    }
    let mut tb = TransactionBuilder::default().inputs(inputs).witnesses(witnesses).header_deps(header_deps);
    for o in &t.outs {
        tb = tb
            .output(build_output(o, false, false, consensus))
            .output_data(Bytes::from(vec![0u8; o.data_bytes as usize]).pack());
    }
    ResolvedTransaction {
        transaction: tb.build(),
        resolved_cell_deps: vec![],
        resolved_inputs: metas,
        resolved_dep_groups: vec![],
    }
}

// ------------------------------------------------------------------------------ raw transactions

#[derive(Clone, Debug)]
struct RawIn {
    cell: CellS,
    ty: Option<(bool, bool)>,
    data: Option<(u64, u64)>,
    info: Option<(u64, u64, u64)>,
    sat: bool,
}

#[derive(Clone, Debug, PartialEq)]
enum RawWit {
    Malformed,
    Empty,
    It(u64, u64),
}

#[derive(Clone, Debug)]
struct RawTx {
    ins: Vec<RawIn>,
    outs: Vec<CellS>,
    wits: Vec<RawWit>,
    deps: Vec<u64>,
}

type Hdrs = Vec<(u64, u64, u64)>;

fn fmt_dots(xs: &[u64]) -> String {
    xs.iter().map(|x| x.to_string()).collect::<Vec<_>>().join(".")
}

fn fmt_raw_in(i: &RawIn) -> String {
    format!(
        "{}:{}:{}:{}:{}",
        fmt_cell(&i.cell),
        match i.ty {
            None => "n".to_string(),
            Some((a, b)) => format!("{}{}", a as u8, b as u8),
        },
        i.data.map(|(l, v)| fmt_dots(&[l, v])).unwrap_or_else(|| "n".into()),
        i.info.map(|(h, n, x)| fmt_dots(&[h, n, x])).unwrap_or_else(|| "n".into()),
        i.sat as u8
    )
}

fn fmt_raw_wit(w: &RawWit) -> String {
    match w {
        RawWit::Malformed => "m".into(),
        RawWit::Empty => "e".into(),
        RawWit::It(l, v) => fmt_dots(&[*l, *v]),
    }
}

fn fmt_raw_tx(t: &RawTx) -> String {
    format!(
        "{}|{}|{}|{}",
        fmt_list(&t.ins, fmt_raw_in, ","),
        fmt_list(&t.outs, fmt_cell, ","),
        fmt_list(&t.wits, fmt_raw_wit, ","),
        fmt_nums(&t.deps)
    )
}

fn fmt_hdrs(h: &Hdrs) -> String {
    fmt_list(h, |(a, b, c)| fmt_dots(&[*a, *b, *c]), ",")
}

fn parse_dots(s: &str) -> Vec<u64> {
    s.split('.').map(num).collect()
}

fn parse_raw_in(s: &str) -> RawIn {
    let fs: Vec<&str> = s.split(':').collect();
    assert!(fs.len() == 8, "malformed raw input");
    let cell = parse_cell(&fs[0..4]);
    let ty = match fs[4] {
        "n" => None,
        "00" => Some((false, false)),
        "01" => Some((false, true)),
        "10" => Some((true, false)),
        "11" => Some((true, true)),
        _ => panic!("malformed raw input type"),
    };
    assert!(ty.is_some() == cell.type_args.is_some(), "malformed raw input: type script / type args");
    let two = |s: &str| -> (u64, u64) {
        let v = parse_dots(s);
        assert!(v.len() == 2, "malformed pair");
        (v[0], v[1])
    };
    let data = if fs[5] == "n" { None } else { Some(two(fs[5])) };
    if let Some((l, _)) = data {
        assert!(l <= 4096, "malformed raw input: data too long");
    }
    let info = if fs[6] == "n" {
        None
    } else {
        let v = parse_dots(fs[6]);
        assert!(v.len() == 3, "malformed tx info");
        Some((v[0], v[1], v[2]))
    };
    let sat = match fs[7] {
        "0" => false,
        "1" => true,
        _ => panic!("malformed sat flag"),
    };
    assert!(!sat || cell.lock_args == 20, "malformed: satoshi lock args are 20 bytes");
    RawIn { cell, ty, data, info, sat }
}

fn parse_raw_wit(s: &str) -> RawWit {
    match s {
        "m" => RawWit::Malformed,
        "e" => RawWit::Empty,
        _ => {
            let v = parse_dots(s);
            assert!(v.len() == 2 && v[0] <= 4096, "malformed witness");
            RawWit::It(v[0], v[1])
        }
    }
}

fn parse_raw_tx(s: &str) -> RawTx {
    let parts: Vec<&str> = s.split('|').collect();
    assert!(parts.len() == 4, "malformed raw tx");
    RawTx {
        ins: parse_list(parts[0], ',', parse_raw_in),
        outs: parse_list(parts[1], ',', |c| parse_cell(&c.split(':').collect::<Vec<_>>())),
        wits: parse_list(parts[2], ',', parse_raw_wit),
        deps: parse_nums(parts[3]),
    }
}

fn parse_hdrs(s: &str) -> Hdrs {
    parse_list(s, ',', |x| {
        let v = parse_dots(x);
        assert!(v.len() == 3, "malformed header entry");
        (v[0], v[1], v[2])
    })
}

/// the header standing for header id `h` (the first table entry with that id wins, as in the model)
fn raw_header(hdrs: &Hdrs, h: u64) -> (HeaderView, bool) {
    match hdrs.iter().find(|e| e.0 == h) {
        Some((_, n, ar)) => (dao_header(*n, *ar, 10_000 + h), true),
        None => (dao_header(0, 0, 20_000_000 + h), false),
    }
}

/// `len` bytes whose `LittleEndian::read_u64` is `v` when `len == 8`; otherwise the bytes of `v`
/// cut / padded with 0x01 (non-zero, so that a reader that forgets the length check sees a value)
fn raw_bytes(len: u64, v: u64) -> Bytes {
    let le = v.to_le_bytes();
    Bytes::from((0..len as usize).map(|k| if k < 8 { le[k] } else { 1u8 }).collect::<Vec<u8>>())
}

fn build_raw_rtx(t: &RawTx, hdrs: &Hdrs, consensus: &Consensus, dl: &mut MockDL) -> ResolvedTransaction {
    for (h, _, _) in hdrs {
        let (hv, _) = raw_header(hdrs, *h);
        dl.headers.insert(hv.hash(), hv);
    }
    let ep = EpochNumberWithFraction::new(0, 0, 1);
    let mut metas = vec![];
    let mut inputs = vec![];
    for (i, ins) in t.ins.iter().enumerate() {
        let lock = if ins.sat {
            Script::new_builder()
                .code_hash(other_code_hash())
                .hash_type(ScriptHashType::Data)
                .args(Bytes::from(consensus.satoshi_pubkey_hash.0.to_vec()).pack())
                .build()
        } else {
            script_with_args(ins.cell.lock_args, other_code_hash(), ScriptHashType::Data, 0xAA)
        };
        let type_ = ins.ty.map(|(ht, code)| {
            script_with_args(
                ins.cell.type_args.unwrap(),
                if code { consensus.dao_type_hash() } else { other_code_hash() },
                if ht { ScriptHashType::Type } else if i % 2 == 0 { ScriptHashType::Data1 } else { ScriptHashType::Data },
                0xBB,
            )
        });
        let output = CellOutput::new_builder()
            .capacity(Capacity::shannons(ins.cell.cap))
            .lock(lock)
            .type_(type_.pack())
            .build();
        let data = ins.data.map(|(l, v)| raw_bytes(l, v));
        let op = OutPoint::new(Byte32::from_slice(&[0x56u8; 32]).unwrap(), i as u32);
        let mut meta = CellMetaBuilder::from_cell_output(output, data.clone().unwrap_or_default()).out_point(op.clone()).build();
        meta.data_bytes = ins.cell.data_bytes;
        if data.is_none() {
            meta.mem_cell_data = None;
            meta.mem_cell_data_hash = None;
        }
        meta.transaction_info = ins.info.map(|(h, n, x)| TransactionInfo::new(n, ep, raw_header(hdrs, h).0.hash(), x as usize));
        metas.push(meta);
        inputs.push(CellInput::new(op, 0));
    }
    let witnesses: Vec<packed::Bytes> = t
        .wits
        .iter()
        .enumerate()
        .map(|(k, w)| match w {
            RawWit::Malformed => (if k % 2 == 0 { Bytes::new() } else { Bytes::from(vec![1u8, 2, 3]) }).pack(),
            RawWit::Empty => WitnessArgs::new_builder().build().as_bytes().pack(),
            RawWit::It(l, v) => WitnessArgs::new_builder().input_type(Some(raw_bytes(*l, *v)).pack()).build().as_bytes().pack(),
        })
        .collect();
    let header_deps: Vec<Byte32> = t.deps.iter().map(|h| raw_header(hdrs, *h).0.hash()).collect();
    let mut tb = TransactionBuilder::default().inputs(inputs).witnesses(witnesses).header_deps(header_deps);
    for o in &t.outs {
        tb = tb
            .output(build_output(o, false, false, consensus))
            .output_data(Bytes::from(vec![0u8; o.data_bytes as usize]).pack());
    }
    ResolvedTransaction {
        transaction: tb.build(),
        resolved_cell_deps: vec![],
        resolved_inputs: metas,
        resolved_dep_groups: vec![],
    }
}

/// Spec reading of raw transactions (independent of the model): a NervosDAO cell in the
/// withdrawing phase (dao type script, 8 data bytes with a non-zero block number) may only be
/// consumed with its withdrawing header among the header deps, a well-formed witness pointing at
/// the deposit header among the header deps, both headers known, deposit before withdrawal; it
/// then counts `occupied + floor(counted * AR_w / AR_d)`; every other cell counts its capacity.
/// `Err(())`: a withdrawing input that must not be accepted; `Ok(None)`: outside the arithmetic
/// domain; else ((Σ maximum withdraw, Σ input capacity), Σ freed occupied, Σ added occupied).
fn spec_raw_totals(txs: &[RawTx], hdrs: &Hdrs) -> Result<Option<((u128, u128), u128, u128)>, ()> {
    let known = |h: u64| hdrs.iter().find(|e| e.0 == h).map(|e| (e.1, e.2));
    let (mut maxw, mut incap, mut freed, mut added) = (0u128, 0u128, 0u128, 0u128);
    let mut outside = false;
    for t in txs {
        for (k, i) in t.ins.iter().enumerate() {
            let cap = i.cell.cap as u128;
            incap += cap;
            let sat = i.sat && matches!(i.info, Some((_, 0, 0)));
            freed += if sat { cap * 6 / 10 } else { occ128(&i.cell) };
            let dao_w = i.ty == Some((true, true)) && matches!(i.data, Some((8, v)) if v > 0);
            if !dao_w {
                maxw += cap;
                continue;
            }
            let Some((wh, _, _)) = i.info else { return Err(()) };
            if !t.deps.contains(&wh) {
                return Err(());
            }
            let Some(RawWit::It(8, idx)) = t.wits.get(k).cloned() else { return Err(()) };
            if idx >= t.deps.len() as u64 {
                return Err(());
            }
            let (Some((dn, da)), Some((wn, wa))) = (known(t.deps[idx as usize]), known(wh)) else { return Err(()) };
            if dn >= wn {
                return Err(());
            }
            let occ = occ128(&i.cell);
            if cap < occ || da == 0 {
                outside = true;
                continue;
            }
            let q = (cap - occ) * wa as u128 / da as u128;
            if q >= 1u128 << 64 {
                outside = true;
                continue;
            }
            maxw += q + occ;
        }
        for o in &t.outs {
            added += occ128(o);
        }
    }
    Ok(if outside { None } else { Some(((maxw, incap), freed, added)) })
}

fn epoch_ext(start: u64, len: u64, base: u64, rem: u64) -> EpochExt {
    EpochExt::new_builder()
        .number(1)
        .start_number(start)
        .length(len)
        .base_block_reward(Capacity::shannons(base))
        .remainder_reward(Capacity::shannons(rem))
        .build()
}

fn dao_err(e: &DaoError) -> &'static str {
    match e {
        DaoError::Overflow => "err-overflow",
        DaoError::InvalidOutPoint => "err-outpoint",
        DaoError::InvalidHeader => "err-header",
        DaoError::InvalidDaoFormat => "err-format",
        DaoError::ZeroC => "err-zero-c",
    }
}

/// Run a closure on the real code; a panic becomes the answer `panic`.
fn guarded<T>(f: impl FnOnce() -> Result<T, DaoError>) -> Result<T, &'static str> {
    match catch_unwind(AssertUnwindSafe(f)) {
        Ok(Ok(v)) => Ok(v),
        Ok(Err(e)) => Err(dao_err(&e)),
        Err(_) => Err("panic"),
    }
}

// ------------------------------------------------------------------------------------- oracle

fn occ128(c: &CellS) -> u128 {
    let t = c.type_args.map(|a| (a as u128 + 33) * BS).unwrap_or(0);
    (8 + c.data_bytes as u128) * BS + (c.lock_args as u128 + 33) * BS + t
}

/// spec reading of an epoch's per-block primary reward / secondary issuance
fn spec_g(start: u64, rem: u64, base: u64, n: u64) -> u128 {
    base as u128 + if (n as u128) >= start as u128 && (n as u128) < start as u128 + rem as u128 { 1 } else { 0 }
}
fn spec_g2(start: u64, len: u64, ser: u64, n: u64) -> Option<u128> {
    if len == 0 {
        return None;
    }
    let r = (ser % len) as u128;
    Some((ser / len) as u128 + if (n as u128) >= start as u128 && (n as u128) < start as u128 + r { 1 } else { 0 })
}

// ---------------------------------------------------------------------------------------- exec

struct BlkInfo {
    block: BlockView,
    props: HashSet<u64>,
    ids: Vec<u64>,
    fees: Vec<u64>,
    epoch: (u64, u64, u64, u64),
    dao: (u64, u64, u64, u64),
}

struct Exec {
    consensus: Consensus,
    // chain stream
    db_dir: Option<PathBuf>,
    store: Option<ChainDB>,
    cfg: (u64, u64, u64, u64, u64),
    blocks: Vec<BlkInfo>,
    salt: u64,
    rewards: HashMap<u64, (u128, u128)>, // target -> (txfee, proposal) as answered by the implementation
}

impl Exec {
    fn new() -> Exec {
        Exec {
            consensus: Consensus::default(),
            db_dir: None,
            store: None,
            cfg: (2, 10, 4, 10, 0),
            blocks: vec![],
            salt: 0,
            rewards: HashMap::new(),
        }
    }

    fn store(&mut self, out_dir: &std::path::Path) -> &ChainDB {
        if self.store.is_none() {
            let shm = std::path::Path::new("/dev/shm");
            let dir = if shm.is_dir() {
                shm.join(format!("verif-c06-{}", std::process::id()))
            } else {
                out_dir.join("scratch-c06")
            };
            let _ = std::fs::remove_dir_all(&dir);
            std::fs::create_dir_all(&dir).expect("create scratch dir");
            let db = RocksDB::open_in(&dir, COLUMNS);
            self.store = Some(ChainDB::new(db, Default::default()));
            self.db_dir = Some(dir);
        }
        self.store.as_ref().unwrap()
    }

    fn cleanup(&mut self) {
        self.store = None;
        if let Some(d) = self.db_dir.take() {
            let _ = std::fs::remove_dir_all(d);
        }
    }

    /// Execute one op line on the real code; returns the canonical answer.
    fn exec(&mut self, line: &str, out: &mut Out) -> String {
        let ts: Vec<&str> = line.split(' ').collect();
        match ts[0] {
            "ratio" => {
                let (fee, n, d) = (num(ts[1]), num(ts[2]), num(ts[3]));
                let fee_c = Capacity::shannons(fee);
                let p = fee_c.safe_mul_ratio(Ratio::new(n, d));
                let c = p.clone().and_then(|p| fee_c.safe_sub(p));
                // oracle: per fee, proposer and committer shares sum to the fee
                if let (Ok(p), Ok(c)) = (&p, &c) {
                    if p.as_u64() as u128 + c.as_u64() as u128 != fee as u128 {
                        out.oracle_fail("shares-sum", &format!("fee={} p={} c={}", fee, p, c));
                    }
                    if d != 0 && (p.as_u64() as u128) != (fee as u128 * n as u128) / d as u128 {
                        out.oracle_fail("proposer-share", &format!("fee={} ratio={}/{} p={}", fee, n, d, p));
                    }
                }
                let s = |r: &Result<Capacity, _>| r.as_ref().map(|v| v.as_u64().to_string()).unwrap_or_else(|_| "err".into());
                format!("p={} c={}", s(&p), s(&c))
            }
            "pack" => {
                let (ar, c, s, u) = (num(ts[1]), num(ts[2]), num(ts[3]), num(ts[4]));
                let b = pack_dao_data(ar, Capacity::shannons(c), Capacity::shannons(s), Capacity::shannons(u));
                let (ar2, c2, s2, u2) = extract_dao_data(b.clone());
                if (ar2, c2.as_u64(), s2.as_u64(), u2.as_u64()) != (ar, c, s, u) {
                    out.oracle_fail("pack-roundtrip", line);
                }
                hex(b.as_slice())
            }
            "extract" => {
                let bytes: Vec<u8> = (0..32).map(|i| u8::from_str_radix(&ts[1][2 * i..2 * i + 2], 16).expect("hex")).collect();
                let b = Byte32::from_slice(&bytes).expect("32 bytes");
                let (ar, c, s, u) = extract_dao_data(b.clone());
                let back = pack_dao_data(ar, c, s, u);
                if back != b {
                    out.oracle_fail("extract-roundtrip", line);
                }
                format!("{} {} {} {} {}", ar, c.as_u64(), s.as_u64(), u.as_u64(), hex(back.as_slice()))
            }
            "occupied" => {
                let cell = parse_cell(&ts[1].split(':').collect::<Vec<_>>());
                let output = build_output(&cell, false, false, &self.consensus);
                let mut meta = CellMetaBuilder::from_cell_output(output, Bytes::new()).build();
                meta.data_bytes = cell.data_bytes;
                match guarded(|| meta.occupied_capacity().map_err(Into::into)) {
                    Ok(v) => {
                        if v.as_u64() as u128 != occ128(&cell) {
                            out.oracle_fail("occupied", line);
                        }
                        format!("ok {}", v.as_u64())
                    }
                    Err(e) => e.into(),
                }
            }
            "withdraw" => {
                let cell = parse_cell(&ts[1].split(':').collect::<Vec<_>>());
                let (dn, da, wn, wa) = (num(ts[2]), num(ts[3]), num(ts[4]), num(ts[5]));
                let mut dl = MockDL::default();
                let dep = dao_header(dn, da, 1);
                let wd = dao_header(wn, wa, 2);
                dl.headers.insert(dep.hash(), dep.clone());
                dl.headers.insert(wd.hash(), wd.clone());
                let output = build_output(&cell, true, false, &self.consensus);
                let consensus = &self.consensus;
                let r = guarded(|| {
                    let calc = DaoCalculator::new(consensus, &dl);
                    let dc = Capacity::bytes(cell.data_bytes as usize)?;
                    calc.calculate_maximum_withdraw(&output, dc, &dep.hash(), &wd.hash())
                });
                match r {
                    Ok(v) => {
                        // oracle: occupied + floor(counted * AR_w / AR_d), within the u64 domain
                        let occ = occ128(&cell);
                        let cap = cell.cap as u128;
                        if cap < occ || da == 0 || dn >= wn {
                            out.oracle_fail("withdraw-domain", line);
                        } else {
                            let q = (cap - occ) * wa as u128 / da as u128;
                            if q < (1u128 << 64) {
                                if v.as_u64() as u128 != q + occ {
                                    out.oracle_fail("withdraw-formula", &format!("{} got={}", line, v));
                                }
                                if wa >= da && (v.as_u64() as u128) < cap {
                                    out.oracle_fail("withdraw-below-deposit", line);
                                }
                            } else {
                                out.count("withdraw-quotient-beyond-u64");
                            }
                        }
                        format!("ok {}", v.as_u64())
                    }
                    Err(e) => e.into(),
                }
            }
            "fee" => {
                let tx = parse_tx(ts[1]);
                let mut dl = MockDL::default();
                let rtx = build_rtx(&tx, &self.consensus, &mut dl);
                let consensus = &self.consensus;
                match guarded(|| DaoCalculator::new(consensus, &dl).transaction_fee(&rtx)) {
                    Ok(v) => {
                        if let Some((ins, _, _)) = spec_tx_totals(&[tx.clone()]) {
                            let outs: u128 = tx.outs.iter().map(|o| o.cap as u128).sum();
                            if ins.0 < outs || v.as_u64() as u128 != ins.0 - outs {
                                out.oracle_fail("tx-fee", line);
                            }
                        }
                        format!("ok {}", v.as_u64())
                    }
                    Err(e) => e.into(),
                }
            }
            "rfee" => {
                let hdrs = parse_hdrs(ts[1]);
                let tx = parse_raw_tx(ts[2]);
                let mut dl = MockDL::default();
                let rtx = build_raw_rtx(&tx, &hdrs, &self.consensus, &mut dl);
                let consensus = &self.consensus;
                match guarded(|| DaoCalculator::new(consensus, &dl).transaction_fee(&rtx)) {
                    Ok(v) => {
                        match spec_raw_totals(&[tx.clone()], &hdrs) {
                            Err(()) => out.oracle_fail("dao-withdraw-malformed-accepted", line),
                            Ok(None) => out.count("rfee-oracle-skipped-withdraw-domain"),
                            Ok(Some((ins, _, _))) => {
                                let outs: u128 = tx.outs.iter().map(|o| o.cap as u128).sum();
                                if ins.0 < outs || v.as_u64() as u128 != ins.0 - outs {
                                    out.oracle_fail("tx-fee", line);
                                }
                                if ins.0 > ins.1 {
                                    out.count("rfee-with-interest");
                                }
                            }
                        }
                        format!("ok {}", v.as_u64())
                    }
                    Err(e) => e.into(),
                }
            }
            "rdao" => {
                let v: Vec<u64> = ts[1..11].iter().map(|s| num(s)).collect();
                let (ser, st, len, base, rem, pn, ar, c, s, u) = (v[0], v[1], v[2], v[3], v[4], v[5], v[6], v[7], v[8], v[9]);
                let hdrs = parse_hdrs(ts[11]);
                let txs = parse_list(ts[12], ';', parse_raw_tx);
                let mut dl = MockDL::default();
                let mut consensus = self.consensus.clone();
                consensus.secondary_epoch_reward = Capacity::shannons(ser);
                let rtxs: Vec<ResolvedTransaction> = txs.iter().map(|t| build_raw_rtx(t, &hdrs, &consensus, &mut dl)).collect();
                let parent = hb()
                    .number(pn)
                    .dao(pack_dao_data(ar, Capacity::shannons(c), Capacity::shannons(s), Capacity::shannons(u)))
                    .build();
                let ep = epoch_ext(st, len, base, rem);
                let r = guarded(|| DaoCalculator::new(&consensus, &dl).dao_field_with_current_epoch(rtxs.iter(), &parent, &ep));
                match r {
                    Ok(b) => {
                        let (ar2, c2, s2, u2) = extract_dao_data(b.clone());
                        let (c2, s2, u2) = (c2.as_u64(), s2.as_u64(), u2.as_u64());
                        match spec_raw_totals(&txs, &hdrs) {
                            Err(()) => out.oracle_fail("dao-withdraw-malformed-accepted", line),
                            Ok(totals) => oracle_dao_with(out, line, (ser, st, len, base, rem, pn), (ar, c, s, u), totals, (ar2, c2, s2, u2)),
                        }
                        format!("ok {} {} {} {} {}", hex(b.as_slice()), ar2, c2, s2, u2)
                    }
                    Err(e) => e.into(),
                }
            }
            "primary" => {
                let (st, len, base, rem, n) = (num(ts[1]), num(ts[2]), num(ts[3]), num(ts[4]), num(ts[5]));
                let mut dl = MockDL::default();
                let target = hb().number(n).build();
                dl.epochs.insert(target.hash(), epoch_ext(st, len, base, rem));
                let consensus = &self.consensus;
                match guarded(|| DaoCalculator::new(consensus, &dl).primary_block_reward(&target)) {
                    Ok(v) => {
                        if v.as_u64() as u128 != spec_g(st, rem, base, n) {
                            out.oracle_fail("primary", line);
                        }
                        format!("ok {}", v.as_u64())
                    }
                    Err(e) => e.into(),
                }
            }
            "secondary" => {
                let (ser, st, len, base, rem, n, pc, pu) =
                    (num(ts[1]), num(ts[2]), num(ts[3]), num(ts[4]), num(ts[5]), num(ts[6]), num(ts[7]), num(ts[8]));
                let mut dl = MockDL::default();
                let parent = hb()
                    .number(n.saturating_sub(1))
                    .dao(pack_dao_data(0, Capacity::shannons(pc), Capacity::zero(), Capacity::shannons(pu)))
                    .build();
                let target = hb().number(n).parent_hash(parent.hash()).build();
                dl.headers.insert(parent.hash(), parent.clone());
                dl.epochs.insert(target.hash(), epoch_ext(st, len, base, rem));
                let mut consensus = self.consensus.clone();
                consensus.secondary_epoch_reward = Capacity::shannons(ser);
                match guarded(|| DaoCalculator::new(&consensus, &dl).secondary_block_reward(&target)) {
                    Ok(v) => {
                        let expect = if n == 0 {
                            Some(0)
                        } else if pc == 0 {
                            None
                        } else {
                            spec_g2(st, len, ser, n).map(|g2| g2 * pu as u128 / pc as u128)
                        };
                        if expect != Some(v.as_u64() as u128) {
                            out.oracle_fail("secondary", line);
                        }
                        format!("ok {}", v.as_u64())
                    }
                    Err(e) => e.into(),
                }
            }
            "dao" => {
                let v: Vec<u64> = ts[1..11].iter().map(|s| num(s)).collect();
                let (ser, st, len, base, rem, pn, ar, c, s, u) = (v[0], v[1], v[2], v[3], v[4], v[5], v[6], v[7], v[8], v[9]);
                let txs = parse_txs(ts[11]);
                let mut dl = MockDL::default();
                let mut consensus = self.consensus.clone();
                consensus.secondary_epoch_reward = Capacity::shannons(ser);
                let rtxs: Vec<ResolvedTransaction> = txs.iter().map(|t| build_rtx(t, &consensus, &mut dl)).collect();
                let parent = hb()
                    .number(pn)
                    .dao(pack_dao_data(ar, Capacity::shannons(c), Capacity::shannons(s), Capacity::shannons(u)))
                    .build();
                let ep = epoch_ext(st, len, base, rem);
                let r = guarded(|| DaoCalculator::new(&consensus, &dl).dao_field_with_current_epoch(rtxs.iter(), &parent, &ep));
                match r {
                    Ok(b) => {
                        let (ar2, c2, s2, u2) = extract_dao_data(b.clone());
                        let (c2, s2, u2) = (c2.as_u64(), s2.as_u64(), u2.as_u64());
                        oracle_dao(out, line, (ser, st, len, base, rem, pn), (ar, c, s, u), &txs, (ar2, c2, s2, u2));
                        format!("ok {} {} {} {} {}", hex(b.as_slice()), ar2, c2, s2, u2)
                    }
                    Err(e) => e.into(),
                }
            }
            "cfg" => {
                let (cl, far, n, d, ser) = (num(ts[1]), num(ts[2]), num(ts[3]), num(ts[4]), num(ts[5]));
                assert!(cl <= far, "malformed window");
                let mut consensus = ConsensusBuilder::default().tx_proposal_window(ProposalWindow(cl, far)).build();
                consensus.proposer_reward_ratio = Ratio::new(n, d);
                consensus.secondary_epoch_reward = Capacity::shannons(ser);
                self.consensus = consensus;
                self.cfg = (cl, far, n, d, ser);
                self.blocks.clear();
                self.rewards.clear();
                self.salt += 1;
                "ok".into()
            }
            "blk" => {
                let n = num(ts[1]);
                assert!(n as usize == self.blocks.len(), "malformed: block numbers must be consecutive");
                let props = parse_nums(ts[2]);
                let uprops = parse_nums(ts[3]);
                let ids = parse_nums(ts[4]);
                let fees = parse_nums(ts[5]);
                let v: Vec<u64> = ts[6..14].iter().map(|s| num(s)).collect();
                let salt = self.salt;
                let parent_hash = if n == 0 { Byte32::zero() } else { self.blocks[n as usize - 1].block.hash() };
                let header = hb()
                    .number(n)
                    .parent_hash(parent_hash)
                    .timestamp(salt * 1_000_000 + n)
                    .dao(pack_dao_data(v[4], Capacity::shannons(v[5]), Capacity::shannons(v[6]), Capacity::shannons(v[7])))
                    .build();
                let lock = Script::new_builder().args(Bytes::from(n.to_le_bytes().to_vec()).pack()).build();
                let witness = CellbaseWitness::new_builder().lock(lock).message(Bytes::from(vec![1u8, 2, 3]).pack()).build();
                let cellbase = TransactionBuilder::default()
                    .input(CellInput::new_cellbase_input(n))
                    .witness(witness.as_bytes().pack())
                    .build();
                let mut bb = BlockBuilder::default().header(header).transaction(cellbase);
                for id in &ids {
                    bb = bb.transaction(id_tx(*id));
                }
                bb = bb.proposals(props.iter().map(|i| id_tx(*i).proposal_short_id()).collect::<Vec<_>>());
                // the uncles' proposals: alternately into up to two uncles
                let mut us: Vec<Vec<packed::ProposalShortId>> = vec![vec![], vec![]];
                for (k, i) in uprops.iter().enumerate() {
                    us[k % 2].push(id_tx(*i).proposal_short_id());
                }
                for (k, u) in us.into_iter().enumerate() {
                    if !u.is_empty() {
                        let ub = BlockBuilder::default()
                            .header(hb().number(n).timestamp(salt * 1_000_000 + 500_000 + k as u64).build())
                            .proposals(u)
                            .build();
                        bb = bb.uncle(ub.as_uncle());
                    }
                }
                let block = bb.build();
                let ext = BlockExt {
                    received_at: 0,
                    total_difficulty: Default::default(),
                    total_uncles_count: 0,
                    verified: Some(true),
                    txs_fees: fees.iter().map(|f| Capacity::shannons(*f)).collect(),
                    cycles: None,
                    txs_sizes: None,
                };
                let dir = out.dir.clone();
                let store = self.store(&dir);
                let txn = store.begin_transaction();
                txn.insert_block(&block).unwrap();
                txn.attach_block(&block).unwrap();
                txn.insert_block_ext(&block.hash(), &ext).unwrap();
                txn.insert_block_epoch_index(&block.hash(), &block.hash()).unwrap();
                txn.insert_epoch_ext(&block.hash(), &epoch_ext(v[0], v[1], v[2], v[3])).unwrap();
                txn.commit().unwrap();
                let mut all: HashSet<u64> = props.iter().cloned().collect();
                all.extend(uprops.iter().cloned());
                self.blocks.push(BlkInfo { block, props: all, ids, fees, epoch: (v[0], v[1], v[2], v[3]), dao: (v[4], v[5], v[6], v[7]) });
                "ok".into()
            }
            "reward" => {
                let p = num(ts[1]);
                assert!((p as usize) < self.blocks.len(), "malformed: unknown parent");
                let parent = self.blocks[p as usize].block.header();
                let consensus = self.consensus.clone();
                let dir = out.dir.clone();
                let store = self.store(&dir);
                let r = guarded(|| RewardCalculator::new(&consensus, store).block_reward_to_finalize(&parent));
                match r {
                    Ok((lock, br)) => {
                        let args = lock.args().raw_data();
                        let target = if args.len() == 8 {
                            let mut b = [0u8; 8];
                            b.copy_from_slice(&args);
                            u64::from_le_bytes(b)
                        } else {
                            u64::MAX
                        };
                        self.oracle_reward(out, p, target, &br);
                        format!(
                            "ok target={} total={} primary={} secondary={} txfee={} proposal={}",
                            target,
                            br.total.as_u64(),
                            br.primary.as_u64(),
                            br.secondary.as_u64(),
                            br.tx_fee.as_u64(),
                            br.proposal_reward.as_u64()
                        )
                    }
                    Err(e) => e.into(),
                }
            }
            other => panic!("malformed op {other}"),
        }
    }

    /// The property evaluated on the implementation's answer for `block_reward_to_finalize(p)`.
    fn oracle_reward(&mut self, out: &mut Out, p: u64, target: u64, br: &ckb_types::core::BlockReward) {
        let (cl, far, n, d, ser) = self.cfg;
        let t = (p + 1).saturating_sub(far + 1);
        if target != t {
            out.oracle_fail("reward-target", &format!("p={} target={} expected={}", p, target, t));
            return;
        }
        let (total, primary, secondary, txfee, proposal) = (
            br.total.as_u64() as u128,
            br.primary.as_u64() as u128,
            br.secondary.as_u64() as u128,
            br.tx_fee.as_u64() as u128,
            br.proposal_reward.as_u64() as u128,
        );
        // nothing else mints: the total is exactly the four parts
        if total != primary + secondary + txfee + proposal {
            out.oracle_fail("reward-total", &format!("p={} total={} parts={}+{}+{}+{}", p, total, primary, secondary, txfee, proposal));
        }
        if d == 0 || n > d {
            return;
        }
        let share = |fee: u64| fee as u128 * n as u128 / d as u128;
        let tb = &self.blocks[t as usize];
        // committer share of the target's own fees
        let spec_txfee: u128 = tb.fees.iter().map(|f| *f as u128 - share(*f)).sum();
        if txfee != spec_txfee {
            out.oracle_fail("reward-txfee", &format!("p={} txfee={} spec={}", p, txfee, spec_txfee));
        }
        // primary / secondary issuance of the target
        let (st, len, base, rem) = tb.epoch;
        if primary != spec_g(st, rem, base, t) {
            out.oracle_fail("reward-primary", &format!("p={} primary={}", p, primary));
        }
        let spec_sec = if t == 0 {
            Some(0)
        } else {
            let (_, pc, _, pu) = self.blocks[t as usize - 1].dao;
            if pc == 0 { None } else { spec_g2(st, len, ser, t).map(|g2| g2 * pu as u128 / pc as u128) }
        };
        if spec_sec != Some(secondary) {
            out.oracle_fail("reward-secondary", &format!("p={} secondary={} spec={:?}", p, secondary, spec_sec));
        }
        // proposer share: only for blocks with a finalisation target, on chains that commit an id at most once
        let mut seen = HashSet::new();
        let unique = self.blocks.iter().all(|b| b.ids.iter().all(|i| seen.insert(*i)));
        let aligned = self.blocks.iter().all(|b| b.ids.len() == b.fees.len());
        if p + 1 > far + 1 && unique && aligned {
            let mut spec_prop: u128 = 0;
            for c in (t + cl)..=(t + far).min(p) {
                let cb = &self.blocks[c as usize];
                for (id, fee) in cb.ids.iter().zip(cb.fees.iter()) {
                    let lo = c.saturating_sub(far).max(1);
                    let hi = c.saturating_sub(cl);
                    let earliest = (lo..=hi).find(|q| self.blocks[*q as usize].props.contains(id));
                    if earliest == Some(t) {
                        spec_prop += share(*fee);
                    }
                }
            }
            if proposal != spec_prop {
                // target = block 1: `competing_proposal_start = max(index - far, 1)` clamps to the target
                // itself, so its own proposals count as "proposed earlier" (known finding, own class)
                let class = if t == 1 && proposal < spec_prop { "block1-proposer-share-unpaid" } else { "reward-proposal" };
                out.oracle_fail(class, &format!("p={} target={} proposal={} spec={}", p, t, proposal, spec_prop));
            }
            self.rewards.insert(t, (txfee, proposal));
            out.count("reward-with-finalisation-target");
            if proposal > 0 {
                out.count("reward-proposal-share-paid");
            }
            if spec_prop == 0 && proposal == 0 && self.blocks[t as usize].props.len() > 0 {
                out.count("reward-target-proposals-all-lost-or-uncommitted");
            }
            if txfee > 0 {
                out.count("reward-committer-share-paid");
            }
            if secondary > 0 {
                out.count("reward-secondary-paid");
            }
            // fees are never over-distributed: over the targets answered so far
            let paid: u128 = self.rewards.values().map(|(a, b)| a + b).sum();
            let all: u128 = self.blocks.iter().flat_map(|b| b.fees.iter()).map(|f| *f as u128).sum();
            if paid > all {
                out.oracle_fail("fees-over-distributed", &format!("paid={} fees={}", paid, all));
            }
        }
    }
}

/// the transaction standing for id `i` (its proposal short id is the model's id `i`)
fn id_tx(i: u64) -> TransactionView {
    TransactionBuilder::default()
        .version((i + 1000) as u32)
        .build()
}

/// (Σ maximum withdraw, Σ input capacity), Σ freed occupied, Σ added occupied — spec reading;
/// `None` outside the domain (capacity below occupied, zero deposit rate, quotient beyond u64).
fn spec_tx_totals(txs: &[TxS]) -> Option<((u128, u128), u128, u128)> {
    let (mut maxw, mut incap, mut freed, mut added) = (0u128, 0u128, 0u128, 0u128);
    for t in txs {
        for i in &t.ins {
            let cap = i.cell.cap as u128;
            incap += cap;
            freed += match i.kind {
                Kind::Sat => cap * 6 / 10, // RFC: the satoshi gift cell counts 60 % occupied
                _ => occ128(&i.cell),
            };
            maxw += match i.kind {
                Kind::W { dn, da, wn, wa } => {
                    let occ = occ128(&i.cell);
                    if cap < occ || da == 0 || dn >= wn {
                        return None;
                    }
                    let q = (cap - occ) * wa as u128 / da as u128;
                    if q >= 1u128 << 64 {
                        return None;
                    }
                    q + occ
                }
                _ => cap,
            };
        }
        for o in &t.outs {
            added += occ128(o);
        }
    }
    Some(((maxw, incap), freed, added))
}

/// `header.dao = rule(parent.dao)`: C' = C + g + g2, U' = U + added − freed,
/// S' = S + (g2 − ⌊g2·U/C⌋) − interests, AR' = AR + ⌊AR·g2/C⌋.
fn oracle_dao(
    out: &mut Out,
    line: &str,
    (ser, st, len, base, rem, pn): (u64, u64, u64, u64, u64, u64),
    (ar, c, s, u): (u64, u64, u64, u64),
    txs: &[TxS],
    res: (u64, u64, u64, u64),
) {
    oracle_dao_with(out, line, (ser, st, len, base, rem, pn), (ar, c, s, u), spec_tx_totals(txs), res)
}

/// the same with the per-block totals ((Σ maximum withdraw, Σ input capacity), Σ freed, Σ added)
/// computed by the caller (`None`: outside the withdraw domain)
fn oracle_dao_with(
    out: &mut Out,
    line: &str,
    (ser, st, len, base, rem, pn): (u64, u64, u64, u64, u64, u64),
    (ar, c, s, u): (u64, u64, u64, u64),
    totals: Option<((u128, u128), u128, u128)>,
    (ar2, c2, s2, u2): (u64, u64, u64, u64),
) {
    let n = pn as u128 + 1;
    if c == 0 || len == 0 || n >= 1u128 << 64 {
        out.oracle_fail("dao-domain", line);
        return;
    }
    let n = n as u64;
    let g = spec_g(st, rem, base, n);
    let g2 = spec_g2(st, len, ser, n).unwrap();
    let Some(((maxw, incap), freed, added)) = totals else {
        out.count("dao-oracle-skipped-withdraw-domain");
        return;
    };
    let miner = g2 * u as u128 / c as u128;
    let mut bad = vec![];
    if c2 as u128 != c as u128 + g + g2 {
        bad.push("C");
    }
    if u2 as u128 + freed != u as u128 + added {
        bad.push("U");
    }
    if miner > g2 || maxw < incap || s2 as u128 + (maxw - incap) != s as u128 + (g2 - miner) {
        bad.push("S");
    }
    if ar2 as u128 != ar as u128 + ar as u128 * g2 / c as u128 {
        bad.push("AR");
    }
    if ar2 < ar {
        bad.push("AR-monotone");
    }
    if !bad.is_empty() {
        out.oracle_fail("dao-rule", &format!("fields={} {}", bad.join(","), line));
    }
}

// ------------------------------------------------------------------------------------ generators

/// boundary-biased u64
fn bnum(rng: &mut Rng) -> u64 {
    match rng.below(12) {
        0 => 0,
        1 => 1,
        2 => rng.below(20),
        3 => u64::MAX - rng.below(3),
        4 => (1u64 << rng.range(1, 63)).wrapping_add(rng.below(3)).wrapping_sub(1),
        5 => rng.below(1000) * 100_000_000,
        6 => rng.next(),
        7 => rng.next() >> rng.below(64),
        _ => rng.below(1_000_000),
    }
}

fn fee_like(rng: &mut Rng) -> u64 {
    match rng.below(10) {
        0 => 0,
        1 => 1,
        2 => 9,
        3 => 10,
        4 => rng.range(2, 30),
        5 => u64::MAX / 4 + rng.below(3) - 1, // fee * 4 at the u64 edge
        6 => bnum(rng),
        _ => rng.below(100_000),
    }
}

fn gen_cell(rng: &mut Rng, for_output: bool) -> CellS {
    let lock_args = *rng.pick(&[0u64, 20, 20, 32, 1, 100]);
    let type_args = if rng.chance(1, 3) { Some(*rng.pick(&[0u64, 20, 32])) } else { None };
    let data_bytes = match rng.below(10) {
        0 => 0,
        1 => 8,
        2 if !for_output => *rng.pick(&[184_467_440_737u64, 184_467_440_738, u64::MAX, 1u64 << 40]),
        _ => rng.below(300),
    };
    let mut c = CellS { cap: 0, lock_args, type_args, data_bytes };
    let occ = occ128(&c);
    c.cap = match rng.below(10) {
        0 => occ.min(u64::MAX as u128) as u64,                       // occupied = capacity
        1 => (occ.min(u64::MAX as u128) as u64).saturating_sub(1),   // one below
        2 => bnum(rng),
        _ => (occ.min(1u128 << 62) as u64) + rng.below(2_000_000) * 100_000 + rng.below(10),
    };
    c
}

fn gen_ar(rng: &mut Rng) -> u64 {
    match rng.below(10) {
        0 => 0,
        1 => 1,
        2 => bnum(rng),
        _ => 10_000_000_000_000_000 + rng.below(1_000_000_000_000_000),
    }
}

fn gen_input(rng: &mut Rng) -> InS {
    let mut cell = gen_cell(rng, false);
    let kind = match rng.below(12) {
        0 | 1 | 2 | 3 => Kind::Plain,
        4 => Kind::Deposit,
        5 => Kind::Sat,
        6 => Kind::G1,
        7 => Kind::G2,
        8 => Kind::G3,
        _ => {
            let da = gen_ar(rng);
            let wa = match rng.below(6) {
                0 => da,
                1 => da.saturating_sub(rng.below(1000)),
                2 => gen_ar(rng),
                _ => da.saturating_add(rng.below(1_000_000_000_000)),
            };
            let dn = rng.below(1000);
            let wn = match rng.below(8) {
                0 => dn,
                1 => dn.saturating_sub(1),
                _ => dn + 1 + rng.below(1000),
            };
            Kind::W { dn, da, wn, wa }
        }
    };
    match kind {
        Kind::Sat | Kind::G1 | Kind::G2 => cell.lock_args = 20,
        Kind::Deposit | Kind::W { .. } => {
            if cell.type_args.is_none() {
                cell.type_args = Some(0);
            }
            if rng.chance(9, 10) {
                cell.data_bytes = 8;
            }
            if rng.chance(4, 5) {
                cell.cap = (occ128(&cell).min(1u128 << 62) as u64) + rng.below(1_000_000) * 100_000_000;
            }
        }
        _ => {}
    }
    InS { cell, kind }
}

fn gen_tx(rng: &mut Rng) -> TxS {
    let ni = rng.below(4);
    let no = rng.below(4);
    TxS {
        ins: (0..ni).map(|_| gen_input(rng)).collect(),
        outs: (0..no).map(|_| gen_cell(rng, true)).collect(),
    }
}

/// raw transactions over one header table: NervosDAO withdrawing inputs, well formed or with ONE
/// aspect off (type script hash type / code hash, data length / zero block number / unloadable data,
/// transaction info missing / not among the header deps, witness missing / not a WitnessArgs /
/// without input_type / of 7 or 9 bytes, index at or beyond the header deps / at the withdrawing
/// header, a header the loader does not know, deposit not before withdrawal), deposit cells,
/// satoshi cells and their near misses, plain cells
fn gen_raw_txs(rng: &mut Rng, nt: u64) -> (Hdrs, Vec<RawTx>) {
    // header ids 1..=nh are known to the loader; nh+1, nh+2 are not
    let nh = rng.range(2, 5);
    let base_ar = gen_ar(rng);
    let mut hdrs: Hdrs = vec![];
    let mut number = rng.below(1000);
    let mut ar = base_ar;
    for h in 1..=nh {
        hdrs.push((h, number, ar));
        number += match rng.below(6) {
            0 => 0,
            _ => 1 + rng.below(500),
        };
        ar = match rng.below(8) {
            0 => ar,
            1 => gen_ar(rng),
            _ => ar.saturating_add(rng.below(1_000_000_000_000)),
        };
    }
    if rng.chance(1, 12) {
        // a duplicate id (the first entry wins) — harmless nondeterminism must not show
        let dup = hdrs[0];
        hdrs.push((dup.0, dup.1 + 7, dup.2));
    }
    let mut txs = vec![];
    for _ in 0..nt {
        let mut deps: Vec<u64> = (1..=nh).collect();
        rng.shuffle(&mut deps);
        deps.truncate(rng.range(1, nh) as usize);
        if rng.chance(1, 5) {
            deps.push(nh + 1); // a header dep the loader does not know
        }
        if rng.chance(1, 8) {
            let d = deps[0];
            deps.push(d); // duplicate dep
        }
        let ni = rng.below(4);
        let mut ins = vec![];
        let mut wits: Vec<RawWit> = vec![];
        let mut cut: Option<usize> = None;
        for k in 0..ni as usize {
            let mut cell = gen_cell(rng, false);
            let plain_wit = match rng.below(4) {
                0 => RawWit::Malformed,
                1 => RawWit::Empty,
                _ => RawWit::It(rng.below(12), rng.below(5)),
            };
            match rng.below(10) {
                0 | 1 => {
                    // plain cell, sometimes with an (unrelated) type script
                    let ty = cell.type_args.map(|_| *rng.pick(&[(false, false), (true, false), (false, true)]));
                    let data = match rng.below(4) {
                        0 => None,
                        1 => Some((8, rng.below(3))),
                        _ => Some((rng.below(20), rng.below(3))),
                    };
                    let info = if rng.chance(1, 4) { None } else { Some((rng.range(1, nh + 2), rng.below(3), rng.below(3))) };
                    ins.push(RawIn { cell, ty, data, info, sat: false });
                    wits.push(plain_wit);
                }
                2 => {
                    // satoshi gift cell and its near misses
                    cell.lock_args = 20;
                    let (n, x, sat) = *rng.pick(&[(0u64, 0u64, true), (0, 0, true), (0, 1, true), (1, 0, true), (0, 0, false), (1, 1, true)]);
                    let ty = cell.type_args.map(|_| (false, false));
                    let info = if rng.chance(1, 8) { None } else { Some((rng.range(1, nh + 2), n, x)) };
                    ins.push(RawIn { cell, ty, data: Some((0, 0)), info, sat });
                    wits.push(plain_wit);
                }
                3 => {
                    // deposit cell: dao type script, 8 zero bytes -> counts at its capacity
                    if cell.type_args.is_none() {
                        cell.type_args = Some(0);
                    }
                    cell.data_bytes = 8;
                    cell.cap = (occ128(&cell).min(1u128 << 62) as u64) + rng.below(1_000_000) * 100_000_000;
                    let info = Some((deps[rng.below(deps.len() as u64) as usize], rng.range(1, 1000), rng.range(1, 3)));
                    ins.push(RawIn { cell, ty: Some((true, true)), data: Some((8, 0)), info, sat: false });
                    wits.push(if rng.chance(1, 2) { RawWit::It(8, rng.below(deps.len() as u64)) } else { plain_wit });
                }
                _ => {
                    // withdrawing cell: well formed, then at most one aspect off
                    if cell.type_args.is_none() {
                        cell.type_args = Some(0);
                    }
                    if rng.chance(9, 10) {
                        cell.data_bytes = 8;
                    }
                    if rng.chance(4, 5) {
                        cell.cap = (occ128(&cell).min(1u128 << 62) as u64) + rng.below(1_000_000) * 100_000_000;
                    }
                    // deposit / withdrawing headers: positions in deps, deposit earlier in the table when possible
                    let known: Vec<usize> = (0..deps.len()).filter(|p| deps[*p] <= nh).collect();
                    let (mut dpos, mut wpos) = if known.is_empty() {
                        (0usize, 0usize)
                    } else {
                        let a = known[rng.below(known.len() as u64) as usize];
                        let mut b = known[rng.below(known.len() as u64) as usize];
                        if deps[a] == deps[b] && rng.chance(9, 10) {
                            if let Some(p) = known.iter().find(|p| deps[**p] != deps[a]) {
                                b = *p;
                            }
                        }
                        if deps[a] <= deps[b] { (a, b) } else { (b, a) }
                    };
                    let mut ty = Some((true, true));
                    let wd_entry = hdrs.iter().find(|e| e.0 == deps[wpos]).cloned().unwrap_or((0, 0, 0));
                    let mut data = Some((8u64, wd_entry.1.max(1)));
                    let mut info = Some((deps[wpos], wd_entry.1, rng.range(1, 3)));
                    let mut sat = false;
                    let mut wit = Some(RawWit::It(8, dpos as u64));
                    match rng.below(72) {
                        0 => ty = Some((false, true)),
                        1 => ty = Some((true, false)),
                        2 => ty = Some((false, false)),
                        3 => data = None,
                        4 => data = Some((8, 0)),
                        5 => data = Some((7, 5)),
                        6 => data = Some((9, 5)),
                        7 => data = Some((0, 0)),
                        8 => info = None,
                        9 => info = Some((nh + 2, 5, 1)), // block hash not among the header deps
                        10 => {
                            // a known header that is not among the deps (if there is one)
                            if let Some(h) = (1..=nh).find(|h| !deps.contains(h)) {
                                info = Some((h, 5, 1));
                            }
                        }
                        11 => wit = Some(RawWit::Malformed),
                        12 => wit = Some(RawWit::Empty),
                        13 => wit = Some(RawWit::It(7, dpos as u64)),
                        14 => wit = Some(RawWit::It(9, dpos as u64)),
                        15 => wit = Some(RawWit::It(0, 0)),
                        16 => wit = None,
                        17 => wit = Some(RawWit::It(8, deps.len() as u64)),
                        18 => wit = Some(RawWit::It(8, deps.len() as u64 - 1)),
                        19 => wit = Some(RawWit::It(8, *rng.pick(&[u64::MAX, 1u64 << 32, (1u64 << 32) + dpos as u64, 1u64 << 63]))),
                        20 => {
                            dpos = wpos; // deposit header = withdrawing header
                            wit = Some(RawWit::It(8, dpos as u64));
                        }
                        21 => {
                            std::mem::swap(&mut dpos, &mut wpos); // deposit after withdrawal
                            wit = Some(RawWit::It(8, dpos as u64));
                            info = Some((deps[wpos], 5, 1));
                        }
                        22 | 25 | 26 => {
                            // deposit header unknown to the loader
                            if !deps.iter().any(|h| *h > nh) {
                                deps.push(nh + 1);
                            }
                            if let Some(p) = deps.iter().position(|h| *h > nh) {
                                wit = Some(RawWit::It(8, p as u64));
                            }
                        }
                        23 | 27 | 28 => {
                            // withdrawing header unknown to the loader
                            if !deps.iter().any(|h| *h > nh) {
                                deps.push(nh + 1);
                            }
                            if let Some(p) = deps.iter().position(|h| *h > nh) {
                                info = Some((deps[p], 5, 1));
                            }
                        }
                        24 => {
                            // also a satoshi cell
                            cell.lock_args = 20;
                            sat = true;
                            info = Some((deps[wpos], 0, 0));
                        }
                        _ => {}
                    }
                    ins.push(RawIn { cell, ty, data, info, sat });
                    match wit {
                        Some(w) => wits.push(w),
                        None => {
                            if cut.is_none() {
                                cut = Some(k);
                            }
                            wits.push(RawWit::Empty);
                        }
                    }
                }
            }
        }
        if let Some(k) = cut {
            wits.truncate(k);
        } else if rng.chance(1, 10) {
            wits.push(RawWit::It(8, 0)); // one witness more than inputs
        }
        let no = rng.below(3);
        let outs = (0..no).map(|_| gen_cell(rng, true)).collect();
        txs.push(RawTx { ins, outs, wits, deps });
    }
    (hdrs, txs)
}

/// epoch parameters + a block number at / next to the remainder boundaries
fn gen_epoch_and_number(rng: &mut Rng, ser: u64) -> (u64, u64, u64, u64, u64) {
    let start = match rng.below(8) {
        0 => 0,
        1 => u64::MAX - rng.below(2000),
        _ => rng.below(1_000_000),
    };
    let len = match rng.below(10) {
        0 => 0,
        1 => 1,
        _ => rng.range(1, 2000),
    };
    let base = match rng.below(10) {
        0 => u64::MAX,
        1 => 0,
        _ => rng.below(200_000_000_000),
    };
    let rem = match rng.below(8) {
        0 => 0,
        1 => bnum(rng),
        _ => rng.below(len.max(1)),
    };
    let r2 = if len == 0 { 0 } else { ser % len };
    let n = match rng.below(10) {
        0 => start,
        1 => start.saturating_sub(1),
        2 => start.saturating_add(rem),
        3 => start.saturating_add(rem).saturating_sub(1),
        4 => start.saturating_add(r2),
        5 => start.saturating_add(r2).saturating_sub(1),
        6 => start.saturating_add(len).saturating_sub(1),
        7 => 0,
        _ => start.saturating_add(rng.below(len.max(1))),
    };
    (start, len, base, rem, n)
}

fn gen_ser(rng: &mut Rng) -> u64 {
    match rng.below(8) {
        0 => 0,
        1 => bnum(rng),
        _ => 61_369_863_013_698 + rng.below(1000),
    }
}

/// parent (ar, c, s, u)
fn gen_dao(rng: &mut Rng) -> (u64, u64, u64, u64) {
    let c = match rng.below(12) {
        0 => 0,
        1 => 1,
        2 => bnum(rng),
        3 => u64::MAX - rng.below(100_000_000_000_000),
        _ => 3_360_000_000_000_000_000 + rng.below(1_000_000_000_000_000_000),
    };
    let u = match rng.below(10) {
        0 => 0,
        1 => c,
        2 => c.saturating_add(1),
        3 => bnum(rng),
        _ => rng.below(c.max(1)),
    };
    let s = match rng.below(8) {
        0 => 0,
        1 => bnum(rng),
        _ => rng.below(1_000_000_000_000_000_000),
    };
    (gen_ar(rng), c, s, u)
}

fn gen_arith_op(rng: &mut Rng) -> String {
    match rng.below(20) {
        0 | 1 | 2 => {
            let fee = fee_like(rng);
            let (n, d) = match rng.below(8) {
                0 => (rng.below(12), rng.below(12)),
                1 => (bnum(rng), bnum(rng)),
                2 => (1, 3),
                3 => (10, 10),
                _ => (4, 10),
            };
            format!("ratio {} {} {}", fee, n, d)
        }
        3 => format!("pack {} {} {} {}", bnum(rng), bnum(rng), bnum(rng), bnum(rng)),
        4 => {
            let bytes: Vec<u8> = (0..32).map(|_| if rng.chance(1, 4) { *rng.pick(&[0u8, 255, 1, 128]) } else { rng.below(256) as u8 }).collect();
            format!("extract {}", hex(&bytes))
        }
        5 => format!("occupied {}", fmt_cell(&gen_cell(rng, false))),
        6 | 7 | 8 => {
            let i = loop {
                let i = gen_input(rng);
                if matches!(i.kind, Kind::W { .. }) {
                    break i;
                }
            };
            if let Kind::W { dn, da, wn, wa } = i.kind { format!("withdraw {} {} {} {} {}", fmt_cell(&i.cell), dn, da, wn, wa) } else { unreachable!() }
        }
        9 => format!("fee {}", fmt_tx(&gen_tx(rng))),
        10 => {
            let (hdrs, txs) = gen_raw_txs(rng, 1);
            format!("rfee {} {}", fmt_hdrs(&hdrs), fmt_raw_tx(&txs[0]))
        }
        11 => {
            let (st, len, base, rem, n) = gen_epoch_and_number(rng, 0);
            format!("primary {} {} {} {} {}", st, len, base, rem, n)
        }
        12 | 13 => {
            let ser = gen_ser(rng);
            let (st, len, base, rem, n) = gen_epoch_and_number(rng, ser);
            let (_, c, _, u) = gen_dao(rng);
            format!("secondary {} {} {} {} {} {} {} {}", ser, st, len, base, rem, n, c, u)
        }
        14 | 15 => {
            let ser = gen_ser(rng);
            let (st, len, base, rem, n) = gen_epoch_and_number(rng, ser);
            let pn = if rng.chance(1, 40) { u64::MAX } else { n.saturating_sub(1) };
            let (ar, c, s, u) = gen_dao(rng);
            let nt = match rng.below(6) {
                0 => 0,
                1 | 2 => 1,
                _ => rng.range(2, 3),
            };
            let (hdrs, txs) = gen_raw_txs(rng, nt);
            format!(
                "rdao {} {} {} {} {} {} {} {} {} {} {} {}",
                ser, st, len, base, rem, pn, ar, c, s, u, fmt_hdrs(&hdrs), fmt_list(&txs, fmt_raw_tx, ";")
            )
        }
        _ => {
            let ser = gen_ser(rng);
            let (st, len, base, rem, n) = gen_epoch_and_number(rng, ser);
            let pn = if rng.chance(1, 40) { u64::MAX } else { n.saturating_sub(1) };
            let (ar, c, s, u) = gen_dao(rng);
            let nt = match rng.below(6) {
                0 => 0,
                1 | 2 => 1,
                _ => rng.range(2, 3),
            };
            let txs: Vec<TxS> = (0..nt).map(|_| gen_tx(rng)).collect();
            format!("dao {} {} {} {} {} {} {} {} {} {} {}", ser, st, len, base, rem, pn, ar, c, s, u, fmt_txs(&txs))
        }
    }
}

/// one chain case: cfg, blocks 0..len, then `reward p` for every p (every finalisation offset)
fn gen_chain_case(rng: &mut Rng) -> Vec<String> {
    let mut ops = vec![];
    let close = rng.range(1, 3);
    let far = close + rng.range(0, 4);
    let (n, d) = match rng.below(6) {
        0 => (1, 3),
        1 => (rng.below(8), rng.range(1, 8)),
        2 => (10, 10),
        _ => (4, 10),
    };
    let ser = gen_ser(rng);
    ops.push(format!("cfg {} {} {} {} {}", close, far, n, d, ser));
    let len = far + 2 + rng.below(2 * far + 6);
    let mut next_id = 0u64;
    // ids proposed recently and not yet committed: (id, first proposal block)
    let mut pending: Vec<(u64, u64)> = vec![];
    let ep_len = rng.range(1, 8);
    let ep_rem = rng.below(ep_len + 1);
    let base = if rng.chance(1, 20) { u64::MAX - rng.below(2) } else { rng.below(1_000_000) };
    let mut dao = gen_dao(rng);
    if rng.chance(9, 10) && dao.1 == 0 {
        dao.1 = 1_000_000;
    }
    for b in 0..len {
        let mut props = vec![];
        let mut uprops = vec![];
        let mut ids = vec![];
        let mut fees = vec![];
        if b > 0 {
            // new proposals
            for _ in 0..rng.below(4) {
                let id = next_id;
                next_id += 1;
                pending.push((id, b));
                if rng.chance(1, 3) { uprops.push(id) } else { props.push(id) }
            }
            // re-proposals of pending ids (inside or outside their window)
            for (id, _) in pending.clone() {
                if rng.chance(1, 4) {
                    if rng.chance(1, 2) { uprops.push(id) } else { props.push(id) }
                }
                if rng.chance(1, 12) {
                    // the same id in the block and in an uncle
                    props.push(id);
                    uprops.push(id);
                }
            }
            // commits: mostly inside the window of the first proposal, sometimes anywhere
            let mut keep = vec![];
            for (id, at) in pending.clone() {
                let in_window = b >= at + close && b <= at + far;
                let commit = if in_window { rng.chance(1, 3) } else { rng.chance(1, 25) };
                if commit {
                    ids.push(id);
                    fees.push(fee_like(rng));
                } else if b <= at + 2 * far + 2 {
                    keep.push((id, at));
                }
            }
            pending = keep;
            // an occasional never-proposed commit
            if rng.chance(1, 10) {
                ids.push(next_id);
                next_id += 1;
                fees.push(fee_like(rng));
            }
            if rng.chance(1, 2) {
                let mut z: Vec<(u64, u64)> = ids.iter().cloned().zip(fees.iter().cloned()).collect();
                rng.shuffle(&mut z);
                ids = z.iter().map(|x| x.0).collect();
                fees = z.iter().map(|x| x.1).collect();
            }
        } else if rng.chance(1, 6) {
            // proposals in the genesis block
            let id = next_id;
            next_id += 1;
            pending.push((id, 0));
            props.push(id);
        }
        let start = (b / ep_len) * ep_len;
        // dao of this header: vary u and c mildly so that secondary shares differ per block
        let (ar, c, s, u) = dao;
        let c2 = if rng.chance(1, 30) { 0 } else { c.saturating_add(rng.below(1000)) };
        let u2 = match rng.below(12) {
            0 => 0,
            1 => c2,
            2 => c2.saturating_add(1),
            _ => u,
        };
        ops.push(format!(
            "blk {} {} {} {} {} {} {} {} {} {} {} {} {}",
            b, fmt_nums(&props), fmt_nums(&uprops), fmt_nums(&ids), fmt_nums(&fees), start, ep_len, base, ep_rem, ar, c2, s, u2
        ));
    }
    let mut order: Vec<u64> = (0..len).collect();
    if rng.chance(1, 3) {
        rng.shuffle(&mut order);
    }
    for p in order {
        ops.push(format!("reward {}", p));
    }
    ops
}

fn fingerprint(answers: &[String]) -> String {
    let mut h: u64 = 0xcbf29ce484222325;
    for a in answers {
        for b in a.bytes() {
            h = (h ^ b as u64).wrapping_mul(0x100000001b3);
        }
        h = (h ^ 0xff).wrapping_mul(0x100000001b3);
    }
    format!("{:016x}", h)
}

pub fn run(opts: &Opts) {
    if std::env::var("VERIF_C06_DEBUG").is_err() { std::panic::set_hook(Box::new(|_| {})); }
    let stream = opts.extra.first().map(|s| s.as_str()).unwrap_or("arith").to_string();
    let mut out = Out::new(&opts.out);
    let mut ex = Exec::new();
    let run_case = |ex: &mut Exec, out: &mut Out, label: &str, ops: &[String]| {
        out.begin_case(label);
        let mut answers = vec![];
        for op in ops {
            let r = catch_unwind(AssertUnwindSafe(|| ex.exec(op, out)));
            let a = match r {
                Ok(a) => a,
                Err(_) => {
                    eprintln!("C06: malformed op or harness failure on: {}", op);
                    ex.cleanup();
                    std::process::exit(3);
                }
            };
            let kind = op.split(' ').next().unwrap_or("");
            let class = if a.starts_with("err-") || a == "panic" { a.as_str() } else { "ok" };
            out.count(&format!("{}:{}", kind, class));
            out.op(op, &a);
            answers.push(a);
        }
        if answers.iter().any(|a| a.starts_with("ok ")) {
            out.nontrivial(fingerprint(&answers));
        }
    };
    if let Some(path) = &opts.replay {
        let lines = read_replay_ops(path);
        let ops: Vec<String> = lines.into_iter().filter(|l| !l.starts_with("case ")).collect();
        run_case(&mut ex, &mut out, "replay", &ops);
    } else {
        let mut rng = Rng::new(opts.seed);
        let mult = opts.scale.max(1) * if opts.thorough() { 20 } else { 1 };
        if stream == "chain" {
            let cases = 1200 * mult;
            for _ in 0..cases {
                let ops = gen_chain_case(&mut rng);
                run_case(&mut ex, &mut out, "chain", &ops);
            }
        } else {
            let cases = 10000 * mult;
            for _ in 0..cases {
                let ops: Vec<String> = (0..12).map(|_| gen_arith_op(&mut rng)).collect();
                run_case(&mut ex, &mut out, "arith", &ops);
            }
        }
    }
    ex.cleanup();
    out.finish("a case is non-trivial when at least one op of it was answered `ok …` by the real code (a value was computed, not only errors); distinctness is by the hash of the case's answer sequence");
}

/// a header builder with a well-formed (non-genesis) epoch field, as `HeaderBuilder::build` demands
fn hb() -> HeaderBuilder {
    HeaderBuilder::default().epoch(EpochNumberWithFraction::new(1, 0, 1))
}
