//! C11, node-level stream (`vh-c11 C11 … node`): the SAME pool model is compared with the pool of a real
//! node (Shared + chain service + tx-pool service with its verify-queue workers), driven only through the
//! production entry points:
//!   * `TxPoolController::submit_local_tx`  (pre_check: resolve / fee, script verification, `submit_entry`:
//!     check_rbf | conflict test, process_rbf, `_submit_entry` -> add_pending/add_gap/add_proposed with the
//!     status taken from the proposal view, evictions inside add_entry, `limit_size(Some(id))`),
//!   * `TxPoolController::notify_txs`       (remote path: verify queue -> worker -> `_process_tx`),
//!   * blocks built by the harness and delivered through `ChainController::blocking_process_block`; the chain
//!     service notifies the pool: `update_tx_pool_for_reorg` -> `_update_tx_pool_for_reorg` (attached only):
//!     remove_committed_txs (also of transactions that never were in the pool: resolve_conflict), the ids
//!     that left the proposal window (`remove_by_detached_proposal`), gap_rtx / proposed_rtx promotion,
//!     `remove_expired` (faketime), `limit_size(None)`,
//!   * the asynchronous re-submission of conflict-cache transactions after a replacement (`process_rbf`'s
//!     `may_recovered_txs` -> verify queue), observed as additional pooled ids and replayed as model steps.
//! After every step the complete bookkeeping of the service's pool (`verif_read` + `verif_dump`) is compared
//! with the model's dump, and the model-independent oracle of the PoolMap-level stream runs on it.
//!
//! Protocol additions (ids: 0 = the always-success code transaction, 1..=G the genesis cells' transactions,
//! >= 100 harness transactions; header ids = block number + 1):
//!   nsubmit <id> <p|g|r> <ts>   -> ok | full | rbf | dead | rej-anc | other-*
//!   nnotify <id> <p|g|r> <ts>   -> ok | rej
//!   nblock <committed ids, block order> <detached proposal ids> <gap-now ids> <proposed-now ids> <now> <proposal ids of the block> -> ok
//! `<p|g|r>`, the detached / gap / proposed sets are read from the node's proposal view (C20's subject) and
//! are inputs of the model; in a replay they are recomputed.
use super::*;
use crate::node::{BlockSpec, ChainBuilder, Node, NodeCfg, genesis_cells, make_consensus, scratch_dir};
use ckb_test_chain_utils::always_success_cell;
use ckb_types::bytes::Bytes;
use std::time::{Duration, Instant};

const W_CLOSE: u64 = 2;
const W_FAR: u64 = 5;

struct NW {
    dir: PathBuf,
    node: Option<Node>,
    builder: Option<ChainBuilder>,
    guard: ckb_systemtime::FaketimeGuard,
    clock: u64,
    sim: Sim,
    gcells: Vec<(OutPoint, u64)>,
    cycles: u64,
    /// transactions committed on the chain (ids) and out-points consumed on the chain
    committed: BTreeSet<u64>,
    spent_chain: BTreeSet<(u64, u64)>,
    /// rejected with an RBF / dead class while conflicting: the service keeps them in its conflicts cache
    cached_conflicts: BTreeSet<u64>,
    salt: u64,
    last: View,
}

fn reject_class(r: &Reject) -> String {
    match r {
        Reject::Full(_) => "full".into(),
        Reject::RBFRejected(_) => "rbf".into(),
        Reject::Resolve(ckb_types::core::error::OutPointError::Dead(_)) => "dead".into(),
        Reject::ExceededMaximumAncestorsCount => "rej-anc".into(),
        Reject::Duplicated(_) => "add-dup".into(),
        Reject::LowFeeRate(..) => "other-low-fee".into(),
        Reject::Resolve(_) => "other-resolve".into(),
        Reject::Verification(_) => "other-verification".into(),
        _ => "other".into(),
    }
}

impl NW {
    fn tpc(&self) -> &ckb_tx_pool::TxPoolController {
        self.node.as_ref().unwrap().shared.tx_pool_controller()
    }
    fn node(&self) -> &Node {
        self.node.as_ref().unwrap()
    }

    fn start(base: &std::path::Path, world: &World, case: u64, cfg: Cfg, fixed: (bool, bool, bool), g: u64) -> NW {
        let dir = base.join(format!("case-{case}"));
        let _ = std::fs::remove_dir_all(&dir);
        std::fs::create_dir_all(&dir).unwrap();
        let mut tp = TxPoolConfig::default();
        tp.max_ancestors_count = cfg.max_anc as usize;
        tp.max_tx_pool_size = cfg.max_size as usize;
        tp.min_fee_rate = FeeRate::from_u64(cfg.min_fee_rate);
        tp.min_rbf_rate = FeeRate::from_u64(cfg.min_rbf_rate);
        tp.expiry_hours = 1;
        let ncfg = NodeCfg { epoch_len: 1000, window: (W_CLOSE, W_FAR), genesis_cells: g, maturity_epochs: 0, with_pool: true, tx_pool: Some(tp) };
        let consensus = make_consensus(&ncfg);
        let guard = ckb_systemtime::faketime();
        let clock = 1_700_000_000_000u64 + case * 10_000_000;
        guard.set_faketime(clock);
        let node = Node::start(&dir.join("main"), consensus.clone(), &ncfg);
        let builder = ChainBuilder::new(consensus.clone(), &dir.join("builder"));
        let gcells = genesis_cells(&consensus);
        let mut sim = Sim::new(world, cfg);
        sim.f2_fixed = fixed.0;
        sim.f3_fixed = fixed.1;
        sim.mid_fixed = fixed.2;
        sim.txs.clear();
        sim.by_hash.clear();
        sim.by_short.clear();
        sim.chain.clear();
        let genesis = consensus.genesis_block().clone();
        for (i, tx) in genesis.transactions().iter().enumerate() {
            let id = i as u64;
            sim.by_hash.insert(tx.hash(), id);
            sim.by_short.insert(tx.proposal_short_id(), id);
            sim.chain.insert(id);
            sim.txs.insert(id, TxDecl { id, inputs: vec![], deps: vec![], hdeps: vec![], nout: tx.outputs().len() as u64, size: 0, cycles: 0, fee: 0, view: tx.clone() });
        }
        sim.hdr_ids.insert(genesis.hash(), 1);
        NW { dir, node: Some(node), builder: Some(builder), guard, clock, sim, gcells, cycles: 0, committed: BTreeSet::new(), spent_chain: BTreeSet::new(), cached_conflicts: BTreeSet::new(), salt: 1, last: View::default() }
    }

    fn finish(mut self) {
        self.builder.take();
        if let Some(n) = self.node.take() {
            n.stop();
        }
        let _ = std::fs::remove_dir_all(&self.dir);
    }

    fn cap_of(&self, pt: (u64, u64)) -> u64 {
        let tx = &self.sim.txs[&pt.0].view;
        let c: Capacity = tx.outputs().get(pt.1 as usize).expect("output").capacity().unpack();
        c.as_u64()
    }

    /// an always-success transaction with exactly these inputs / cell deps / header deps (block numbers + 1 on
    /// the current main chain), `nout` equal outputs, paying `fee`
    fn build(&self, id: u64, inputs: &[(u64, u64)], deps: &[(u64, u64)], hdeps: &[u64], nout: u64, fee: u64) -> TransactionView {
        let (_, _, script) = always_success_cell();
        let total: u64 = inputs.iter().map(|p| self.cap_of(*p)).sum();
        let each = (total - fee) / nout;
        let snap = self.node().shared.snapshot();
        let mut b = TransactionBuilder::default();
        for (t, i) in inputs {
            b = b.input(CellInput::new(OutPoint::new(self.sim.hash_of(*t), *i as u32), 0));
        }
        for (t, i) in deps {
            b = b.cell_dep(CellDep::new_builder().out_point(OutPoint::new(self.sim.hash_of(*t), *i as u32)).build());
        }
        for h in hdeps {
            b = b.header_dep(snap.get_block_hash(*h - 1).expect("header dep on the main chain"));
        }
        for i in 0..nout {
            let cap = if i == 0 { total - fee - each * (nout - 1) } else { each };
            b = b.output(CellOutput::new_builder().capacity(Capacity::shannons(cap)).lock(script.clone()).build()).output_data(Bytes::from(id.to_le_bytes().to_vec()));
        }
        b.build()
    }

    fn view(&self) -> View {
        let d: PoolDump = self.tpc().verif_read(|pool| pool.verif_pool_map().verif_dump()).expect("verif_read");
        self.sim.view_of(&d)
    }

    /// wait until the pool has caught up with the chain tip and the verify queue is drained
    fn settle(&self, out: &mut Out, extra_ms: u64) {
        let t0 = Instant::now();
        let mut stable = 0;
        loop {
            let tip = self.node().tip_hash();
            let ok = matches!(self.tpc().get_tx_pool_info(), Ok(i) if i.tip_hash == tip && i.verify_queue_size == 0);
            if ok {
                stable += 1;
                if stable >= 2 && t0.elapsed() >= Duration::from_millis(extra_ms) {
                    break;
                }
            } else {
                stable = 0;
            }
            if t0.elapsed() > Duration::from_secs(20) {
                out.count("node-settle-timeout");
                break;
            }
            std::thread::sleep(Duration::from_millis(1));
        }
    }

    fn status_hint(&self, id: u64) -> &'static str {
        let snap = self.node().shared.snapshot();
        let s = self.sim.short(id);
        if snap.proposals().contains_proposed(&s) {
            "r"
        } else if snap.proposals().contains_gap(&s) {
            "g"
        } else {
            "p"
        }
    }

    fn dump_and_check(&mut self, out: &mut Out, after: &str) {
        let v = self.view();
        out.op("dump", &Sim::dump_line(&v));
        self.sim.max_pool = self.sim.max_pool.max(v.entries.len());
        self.sim.oracle(out, &v, after);
        // COUNTED, not failing (reported to the coordinator, corpus/C11/node-evicted-cell-ref-parent-is-input-parent.ops):
        // a pooled transaction one of whose inputs is neither a live chain cell nor an output of a pooled transaction
        for id in v.entries.keys() {
            for p in &self.sim.txs[id].inputs {
                let on_chain = self.sim.chain.contains(&p.0) && !self.spent_chain.contains(p);
                if !on_chain && !v.entries.contains_key(&p.0) {
                    out.count("node-pooled-input-missing");
                    if std::env::var("VERIF_DEBUG").is_ok() {
                        eprintln!("c11 node: pooled tx {id} spends {}:{} which is neither on the chain nor in the pool (after {after})", p.0, p.1);
                    }
                }
            }
        }
        self.last = v;
    }

    /// Execute one op line (generated or replayed) on the real node.
    fn exec(&mut self, out: &mut Out, line: &str) -> bool {
        let t: Vec<&str> = line.split_whitespace().collect();
        match t[0] {
            "tx" => {
                let id: u64 = t[1].parse().unwrap();
                let (inputs, deps, hd) = (parse_pts(t[2]), parse_pts(t[3]), parse_list(t[4]));
                let nout: u64 = t[5].parse().unwrap();
                let fee: u64 = t[8].parse().unwrap();
                let view = self.build(id, &inputs, &deps, &hd, nout, fee);
                let size = view.data().serialized_size_in_block() as u64;
                self.sim.by_hash.insert(view.hash(), id);
                self.sim.by_short.insert(view.proposal_short_id(), id);
                let cycles = self.cycles;
                out.op(&format!("tx {} {} {} {} {} {} {} {}", id, pts_str(&inputs), pts_str(&deps), list_str(&hd), nout, size, cycles, fee), "ok");
                self.sim.txs.insert(id, TxDecl { id, inputs, deps, hdeps: hd, nout, size, cycles, fee, view });
                true
            }
            "nsubmit" | "nnotify" => {
                let id: u64 = t[1].parse().unwrap();
                let ts: u64 = t[3].parse().unwrap();
                assert!(ts > self.clock, "malformed sequence: time goes forward");
                self.clock = ts;
                self.guard.set_faketime(ts);
                let st = self.status_hint(id);
                let before = self.last.clone();
                let view = self.sim.txs[&id].view.clone();
                let notify = t[0] == "nnotify";
                let ans = if notify {
                    self.tpc().notify_txs(vec![view]).expect("notify_txs");
                    // the worker pops the entry before it processes it: wait for the entry to show up
                    let t0 = Instant::now();
                    loop {
                        self.settle(out, 0);
                        let v = self.view();
                        if v.entries.contains_key(&id) {
                            break "ok".to_string();
                        }
                        if t0.elapsed() > Duration::from_millis(400) {
                            break "rej".to_string();
                        }
                        std::thread::sleep(Duration::from_millis(2));
                    }
                } else {
                    match self.tpc().submit_local_tx(view).expect("submit_local_tx") {
                        Ok(()) => "ok".to_string(),
                        Err(r) => reject_class(&r),
                    }
                };
                out.count(&format!("node-{}-{}", t[0], ans));
                if ans == "rbf" || ans == "dead" || (notify && ans == "rej") {
                    self.cached_conflicts.insert(id);
                    self.sim.kinds.insert("rbf-reject");
                }
                // a replacement may push conflict-cache transactions back into the verify queue (spawned task)
                let mut v = self.view();
                let replaced = before.entries.keys().any(|k| !v.entries.contains_key(k));
                self.settle(out, if replaced && !self.cached_conflicts.is_empty() { 40 } else { 0 });
                if replaced {
                    v = self.view();
                    self.sim.kinds.insert(if ans == "full" { "limit" } else { "rbf-replace" });
                }
                out.op(&format!("{} {id} {st} {ts}", t[0]), &ans);
                // statistic (not an oracle clause): an ADMITTED replacement after which the pool's total fee is lower
                let fee_of = |x: &View| -> u64 { x.entries.keys().map(|k| self.sim.txs[k].fee).sum() };
                if ans == "ok" && replaced && fee_of(&v) < fee_of(&before) {
                    out.count("node-admitted-replacement-lowers-total-fee");
                }
                // recovered transactions: pooled now, not pooled before, not the submitted one
                let mut rec: Vec<(u64, u64)> = v.entries.iter().filter(|(k, _)| **k != id && !before.entries.contains_key(k)).map(|(k, e)| (e.1, *k)).collect();
                rec.sort();
                for (rts, rid) in rec {
                    let rst = status_ch(v.entries[&rid].0);
                    out.op(&format!("nsubmit {rid} {rst} {rts}"), "ok");
                    out.count("node-recovered-after-replacement");
                    self.sim.kinds.insert("recovered");
                    self.cached_conflicts.remove(&rid);
                }
                if v.entries.len() + 1 < before.entries.len() + if v.entries.contains_key(&id) { 1 } else { 0 } {
                    out.count("node-submit-removed-several");
                }
                self.dump_and_check(out, line);
                true
            }
            "nblock" => {
                let commits = parse_list(t[1]);
                let now: u64 = t[5].parse().unwrap();
                let props = parse_list(t[6]);
                assert!(now > self.clock, "malformed sequence: time goes forward");
                self.clock = now;
                self.guard.set_faketime(now);
                let before = self.last.clone();
                let old_set: HashSet<ProposalShortId> = self.node().shared.snapshot().proposals().set().clone();
                let tip = self.node().tip_hash();
                self.salt += 1;
                let spec = BlockSpec {
                    txs: commits.iter().map(|c| self.sim.txs[c].view.clone()).collect(),
                    proposals: props.iter().map(|p| self.sim.short(*p)).collect(),
                    salt: self.salt,
                    ..Default::default()
                };
                // the builder panics on a block it cannot resolve (generator slip): treat like a refused block
                let built = std::panic::catch_unwind(std::panic::AssertUnwindSafe(|| self.builder.as_mut().unwrap().build(&tip, &spec)));
                let block = match built {
                    Ok(b) => b,
                    Err(_) => {
                        out.count("node-block-unbuildable");
                        if std::env::var("VERIF_DEBUG").is_ok() {
                            eprintln!("c11 node: unbuildable block ({line})");
                        }
                        return false;
                    }
                };
                match self.node().process(&block) {
                    Ok(true) => {}
                    other => {
                        // a block the node refuses does not reach the pool (generator slip, not a finding)
                        out.count("node-block-refused");
                        if std::env::var("VERIF_DEBUG").is_ok() {
                            eprintln!("c11 node: block refused: {other:?} ({line})");
                        }
                        return false;
                    }
                }
                self.settle(out, 0);
                self.sim.hdr_ids.insert(block.hash(), block.number() + 1);
                // remove-between through remove_committed_tx: a committed transaction that still has pooled
                // (cell-ref) parents and pooled children — the known finding; excuse exactly that
                let mut gone: BTreeSet<u64> = BTreeSet::new();
                for c in &commits {
                    if let Some((ps, cs)) = before.links.get(c) {
                        if ps.iter().any(|p| !gone.contains(p)) && !cs.is_empty() {
                            self.sim.set_taint(Taint::Mid);
                            out.count("node-commit-between");
                        }
                    }
                    gone.insert(*c);
                    self.committed.insert(*c);
                    self.sim.chain.insert(*c);
                    for i in self.sim.txs[c].inputs.clone() {
                        self.spent_chain.insert(i);
                    }
                    if !before.entries.contains_key(c) {
                        out.count("node-commit-of-unpooled-tx");
                    }
                }
                let snap = self.node().shared.snapshot();
                let known = |s: &HashSet<ProposalShortId>| -> Vec<u64> {
                    let mut v: Vec<u64> = s.iter().filter_map(|x| self.sim.by_short.get(x).copied()).collect();
                    v.sort();
                    v
                };
                let new_set = snap.proposals().set().clone();
                let det: HashSet<ProposalShortId> = old_set.difference(&new_set).cloned().collect();
                let (d, g, p) = (known(&det), known(snap.proposals().gap()), known(&new_set));
                out.op(&format!("nblock {} {} {} {} {} {}", list_str(&commits), list_str(&d), list_str(&g), list_str(&p), now, list_str(&props)), "ok");
                out.count("node-block");
                let v = self.view();
                if !commits.is_empty() {
                    self.sim.kinds.insert("commit");
                }
                if before.entries.iter().any(|(k, e)| e.0 != Status::Pending && d.contains(k) && v.entries.get(k).map(|x| x.0) == Some(Status::Pending)) {
                    out.count("node-detached-proposal-back-to-pending");
                    self.sim.kinds.insert("detach");
                }
                if before.entries.iter().any(|(k, e)| !commits.contains(k) && !v.entries.contains_key(k) && e.1 + HOUR_MS < now) {
                    out.count("node-expired");
                    self.sim.kinds.insert("expire");
                }
                if before.entries.keys().any(|k| !commits.contains(k) && !v.entries.contains_key(k)) {
                    out.count("node-block-removed-uncommitted");
                }
                if v.entries.iter().any(|(k, e)| before.entries.get(k).map(|b| b.0 != e.0).unwrap_or(false)) {
                    out.count("node-status-promoted");
                    self.sim.kinds.insert("promote");
                }
                self.dump_and_check(out, line);
                true
            }
            other => panic!("bad node op {other}"),
        }
    }

    /// the always-success script's cycles (one script group whatever the number of inputs): measured once on
    /// a probe node, then declared for every transaction and checked by the totals oracle
    fn probe_cycles(base: &std::path::Path, world: &World) -> u64 {
        let w = NW::start(base, world, 0, Cfg { max_anc: 25, max_size: 180_000_000, min_fee_rate: 1000, min_rbf_rate: 1500 }, (true, false, false), 2);
        let tx = w.build(100, &[(1, 0)], &[(0, 0)], &[], 1, 5000);
        w.tpc().submit_local_tx(tx).expect("submit").expect("probe accepted");
        let d: PoolDump = w.tpc().verif_read(|pool| pool.verif_pool_map().verif_dump()).expect("verif_read");
        let c = d.entries[0].entry.cycles;
        w.finish();
        c
    }
}

struct NGen<'a> {
    rng: &'a mut Rng,
    next_id: u64,
    g: u64,
    /// transactions built but never submitted (committed through a block only), with the block height at
    /// which they were proposed
    outside: Vec<u64>,
}

impl<'a> NGen<'a> {
    /// out-points a new transaction may consume: live chain cells and outputs of pooled transactions
    fn live_points(&self, w: &NW) -> (Vec<(u64, u64)>, Vec<(u64, u64)>) {
        let v = &w.last;
        let mut free = vec![];
        let mut taken = vec![];
        let mut push = |pt: (u64, u64)| {
            if v.inputs.contains_key(&pt) { taken.push(pt) } else { free.push(pt) }
        };
        for gid in 1..=self.g {
            if !w.spent_chain.contains(&(gid, 0)) {
                push((gid, 0));
            }
        }
        for c in &w.committed {
            for i in 0..w.sim.txs[c].nout {
                if !w.spent_chain.contains(&(*c, i)) {
                    push((*c, i));
                }
            }
        }
        for id in v.entries.keys() {
            for i in 0..w.sim.txs[id].nout {
                push((*id, i));
            }
        }
        (free, taken)
    }

    /// declares a new transaction; `conflict`: spend an out-point a pooled transaction already spends
    fn new_tx(&mut self, w: &mut NW, out: &mut Out, conflict: bool, celldep: bool) -> Option<u64> {
        let (free, taken) = self.live_points(w);
        let v = w.last.clone();
        let mut inputs: Vec<(u64, u64)> = vec![];
        if conflict {
            if taken.is_empty() {
                return None;
            }
            inputs.push(*self.rng.pick(&taken));
            if self.rng.chance(1, 4) && taken.len() > 1 {
                let x = *self.rng.pick(&taken);
                if !inputs.contains(&x) {
                    inputs.push(x);
                }
            }
        }
        let n_free = if conflict { self.rng.below(2) } else { 1 + self.rng.below(2) };
        for _ in 0..n_free {
            if free.is_empty() {
                break;
            }
            // prefer outputs of pooled transactions (chains / diamonds) half of the time
            let pooled: Vec<(u64, u64)> = free.iter().copied().filter(|p| v.entries.contains_key(&p.0)).collect();
            let x = if !pooled.is_empty() && self.rng.chance(3, 5) { *self.rng.pick(&pooled) } else { *self.rng.pick(&free) };
            if !inputs.contains(&x) {
                inputs.push(x);
            }
        }
        if inputs.is_empty() {
            return None;
        }
        // a replacement must not spend an unconfirmed output unless a conflict spends it too (rule 2): keep
        // most replacement attempts admissible by taking confirmed extra inputs only
        if conflict && self.rng.chance(4, 5) {
            let keep: Vec<(u64, u64)> = inputs.iter().copied().filter(|p| taken.contains(p) || !v.entries.contains_key(&p.0)).collect();
            inputs = keep;
        }
        let mut deps = vec![(0u64, 0u64)];
        if celldep || self.rng.chance(1, 6) {
            // a cell dep on a live cell nobody in the pool consumes (a later consumer becomes a cell-ref child)
            let cand: Vec<(u64, u64)> = free.iter().copied().filter(|p| !inputs.contains(p)).collect();
            if !cand.is_empty() {
                deps.push(*self.rng.pick(&cand));
            }
        }
        let hd = if self.rng.chance(1, 6) { vec![1 + self.rng.below(w.node().tip().number() + 1)] } else { vec![] };
        let nout = 1 + self.rng.below(3);
        let id = self.next_id;
        self.next_id += 1;
        let mut fee = *self.rng.pick(&[1000u64, 1000, 2000, 3000, 5000, 5000, 20_000]);
        if conflict && self.rng.chance(4, 5) {
            // aim at the replacement boundary: sum of the replaced fees (by id) + min_rbf_rate * size / 1000
            let probe = w.build(id, &inputs, &deps, &hd, nout, fee);
            let size = probe.data().serialized_size_in_block() as u64;
            let d = TxDecl { id, inputs: inputs.clone(), deps: deps.clone(), hdeps: hd.clone(), nout, size, cycles: 0, fee, view: probe };
            if let Some((_, need, _)) = w.sim.rbf_need(&v, &d) {
                fee = match self.rng.below(5) {
                    0 => need - 1,
                    1 | 2 => need,
                    3 => need + 1,
                    _ => need + self.rng.below(5000),
                };
            }
        }
        w.exec(out, &format!("tx {} {} {} {} {} 0 0 {}", id, pts_str(&inputs), pts_str(&deps), list_str(&hd), nout, fee));
        Some(id)
    }

    fn next_ts(&mut self, w: &NW) -> u64 {
        w.clock + 1 + self.rng.below(300_000)
    }

    fn block(&mut self, w: &mut NW, out: &mut Out, jump: bool, hold: bool) {
        let v = w.last.clone();
        let snap = w.node().shared.snapshot();
        // commits: pooled Proposed entries all of whose pooled parents are committed earlier in this block
        let mut order: Vec<(u64, u64)> = v.entries.iter().filter(|(_, e)| e.0 == Status::Proposed).map(|(k, e)| (e.2[0], *k)).collect();
        order.sort();
        let mut commits: Vec<u64> = vec![];
        let mut consumed: BTreeSet<(u64, u64)> = BTreeSet::new();
        for (_, id) in order {
            let ps = v.links.get(&id).map(|l| l.0.clone()).unwrap_or_default();
            // every input / cell dep must be a live chain cell or an output of an earlier commit of this block
            // (a pooled transaction can have lost an input parent: see `node-pooled-input-missing`)
            let d = &w.sim.txs[&id];
            let avail = d.inputs.iter().chain(d.deps.iter()).all(|p| !consumed.contains(p) && ((w.sim.chain.contains(&p.0) && !w.spent_chain.contains(p)) || commits.contains(&p.0)));
            if !hold && avail && ps.iter().all(|p| commits.contains(p)) && self.rng.chance(4, 5) {
                commits.push(id);
                consumed.extend(w.sim.txs[&id].inputs.iter().copied());
            }
        }
        // outside transactions whose proposal is mature and whose inputs / deps are still live on the chain
        let mut keep = vec![];
        for o in std::mem::take(&mut self.outside) {
            let d = w.sim.txs[&o].clone();
            let live = d.inputs.iter().chain(d.deps.iter()).all(|p| !w.spent_chain.contains(p) && !consumed.contains(p) && (w.sim.chain.contains(&p.0)));
            if !live {
                continue;
            }
            if !hold && snap.proposals().contains_proposed(&w.sim.short(o)) && self.rng.chance(3, 4) {
                // it conflicts with pooled spenders of its inputs: those must not be committed in this block
                let clash = d.inputs.iter().any(|i| v.inputs.get(i).map(|u| commits.contains(u)).unwrap_or(false))
                    || d.deps.iter().any(|i| consumed.contains(i));
                if !clash {
                    // commit it before the pooled transactions (it may consume a cell one of them only references)
                    commits.insert(0, o);
                    consumed.extend(d.inputs.iter().copied());
                    // pooled transactions that conflict with it, or descend from a conflict, can no longer be committed
                    let mut bad: BTreeSet<u64> = d.inputs.iter().filter_map(|i| v.inputs.get(i).copied()).collect();
                    for (dp, users) in &v.deps {
                        if d.inputs.contains(dp) {
                            bad.extend(users.iter().copied());
                        }
                    }
                    for b in bad.clone() {
                        bad.extend(Sim::closure(&v, b, false));
                    }
                    commits.retain(|c| !bad.contains(c));
                    continue;
                }
            }
            keep.push(o);
        }
        self.outside = keep;
        // proposals: pending entries, outside transactions, now and then a long list
        let mut props: Vec<u64> = v.entries.iter().filter(|(_, e)| e.0 == Status::Pending).map(|(k, _)| *k).filter(|_| self.rng.chance(3, 5)).collect();
        for o in &self.outside {
            if !snap.proposals().contains_proposed(&w.sim.short(*o)) && !snap.proposals().contains_gap(&w.sim.short(*o)) {
                props.push(*o);
            }
        }
        let now = w.clock + 1 + if jump { HOUR_MS / 2 + self.rng.below(HOUR_MS) } else { self.rng.below(600_000) };
        let ok = w.exec(out, &format!("nblock {} - - - {} {}", list_str(&commits), now, list_str(&props)));
        if !ok {
            // the refused block's outside commits are forgotten
            self.outside.retain(|o| !commits.contains(o));
        }
    }
}

fn run_node_case(out: &mut Out, rng: &mut Rng, world: &World, base: &std::path::Path, case: u64, fixed: (bool, bool, bool), cycles: u64) -> usize {
    let family = case % 4;
    let g = 14;
    let cfg = match family {
        // plain: RBF on, no limit reached
        0 => Cfg { max_anc: 25, max_size: 180_000_000, min_fee_rate: 1000, min_rbf_rate: *rng.pick(&[1500u64, 1500, 2000]) },
        // small ancestor limit: rej-anc and the cell-dep eviction path inside add_entry
        1 => Cfg { max_anc: *rng.pick(&[2u64, 3, 4]), max_size: 180_000_000, min_fee_rate: 1000, min_rbf_rate: 1500 },
        // small pool: limit_size after submissions and after blocks
        2 => Cfg { max_anc: 25, max_size: *rng.pick(&[900u64, 1300, 2000]), min_fee_rate: 1000, min_rbf_rate: 1500 },
        // RBF off: conflicts are dead
        _ => Cfg { max_anc: 25, max_size: 180_000_000, min_fee_rate: 1000, min_rbf_rate: 1000 },
    };
    out.begin_case(&format!("node family={family} anc={} size={} rbf={}", cfg.max_anc, cfg.max_size, cfg.min_rbf_rate));
    out.op(&format!("cfg {} {} 1000 {} {} {}", cfg.max_anc, cfg.max_size, cfg.min_rbf_rate, HOUR_MS, set_str(0..=g)), "ok");
    let mut w = NW::start(base, world, case, cfg, fixed, g);
    w.cycles = cycles;
    let mut gn = NGen { rng, next_id: 100, g, outside: vec![] };
    let n_ops = 25 + gn.rng.below(25);
    for _ in 0..n_ops {
        let r = gn.rng.below(100);
        if r < 58 {
            let celldep = family == 1 && gn.rng.chance(1, 2);
            if let Some(id) = gn.new_tx(&mut w, out, false, celldep) {
                let ts = gn.next_ts(&w);
                let op = if (family == 0 || family == 3) && gn.rng.chance(1, 4) { "nnotify" } else { "nsubmit" };
                w.exec(out, &format!("{op} {id} p {ts}"));
            }
        } else if r < 74 {
            if let Some(id) = gn.new_tx(&mut w, out, true, false) {
                if gn.rng.chance(1, 5) {
                    // never submitted: reaches the pool only as a committed transaction that conflicts with pooled ones
                    gn.outside.push(id);
                } else {
                    let ts = gn.next_ts(&w);
                    let op = if gn.rng.chance(1, 10) { "nnotify" } else { "nsubmit" };
                    w.exec(out, &format!("{op} {id} p {ts}"));
                }
            }
        } else if r < 88 {
            gn.block(&mut w, out, false, false);
        } else if r < 96 {
            // a block without commits (somebody else's template): pooled proposals age out of the window
            for _ in 0..1 + gn.rng.below(4) {
                gn.block(&mut w, out, false, true);
            }
        } else {
            let hold = gn.rng.chance(1, 2);
            gn.block(&mut w, out, true, hold);
        }
    }
    // two closing blocks: whatever is proposed gets committed or leaves the window
    gn.block(&mut w, out, false, false);
    gn.block(&mut w, out, false, false);
    let m = w.sim.max_pool;
    if w.sim.max_pool >= 4 && w.sim.kinds.len() >= 2 {
        out.nontrivial(format!("node family={family} {:?} max_pool={} taint={:?}", w.sim.kinds, w.sim.max_pool, w.sim.taint));
    }
    out.count(&format!("case-node-{family}"));
    out.count(&format!("case-node-taint-{:?}", w.sim.taint));
    w.finish();
    m
}

fn replay_node(out: &mut Out, world: &World, base: &std::path::Path, ops: &[String], fixed: (bool, bool, bool), cycles: u64) {
    let mut w: Option<NW> = None;
    let mut case = 0;
    for line in ops {
        let t: Vec<&str> = line.split_whitespace().collect();
        match t[0] {
            "case" => {
                out.begin_case(&t[2..].join(" "));
            }
            "cfg" => {
                if let Some(old) = w.take() {
                    old.finish();
                }
                case += 1;
                let cfg = Cfg { max_anc: t[1].parse().unwrap(), max_size: t[2].parse().unwrap(), min_fee_rate: t[3].parse().unwrap(), min_rbf_rate: t[4].parse().unwrap() };
                let g = parse_list(t[6]).len() as u64 - 1;
                out.op(line, "ok");
                let mut n = NW::start(base, world, case, cfg, fixed, g);
                n.cycles = cycles;
                w = Some(n);
            }
            "dump" => {}
            _ => {
                let n = w.as_mut().expect("cfg first");
                // recovered transactions are re-derived from the node, not replayed
                if t[0] == "nsubmit" && n.last.entries.contains_key(&t[1].parse::<u64>().unwrap()) {
                    continue;
                }
                if !n.exec(out, line) {
                    panic!("malformed sequence: the node refused a block");
                }
            }
        }
    }
    if let Some(old) = w.take() {
        old.finish();
    }
}

pub fn run_node(opts: &Opts, mut out: Out, world: &World, fixed: (bool, bool, bool)) {
    let base = scratch_dir(&opts.out, "c11node");
    let cycles = NW::probe_cycles(&base, world);
    if let Some(rp) = &opts.replay {
        let ops = read_replay_ops(rp);
        replay_node(&mut out, world, &base, &ops, fixed, cycles);
    } else {
        let mut rng = Rng::new(opts.seed ^ 0x11_0de);
        let cases = (if opts.thorough() { 400 } else { 24 }) * opts.scale;
        let mut max_pool_seen = 0usize;
        for c in 0..cases {
            let m = run_node_case(&mut out, &mut rng, world, &base, c + 1, fixed, cycles);
            max_pool_seen = max_pool_seen.max(m);
        }
        out.extra.insert("max_pool_seen".into(), (max_pool_seen as u64).into());
    }
    out.finish("node-level case: the service's pool held >= 4 transactions at some point and >= 2 distinct paths ran (commit, promote, detach, expire, limit, rbf-replace, rbf-reject, recovered)");
    let _ = std::fs::remove_dir_all(&base);
}
