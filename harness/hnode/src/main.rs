//! `vh-node <ID> --seed N --tier quick|thorough --out DIR [--replay FILE] [--scale K] [extra args]`
//! Heavy-dependency half (real store, chain service, tx-pool, sync ...).
//! One module per property (cNN.rs); a property may live in either crate or both.
#![allow(dead_code)]
#[path = "../../hcore/src/common.rs"]
mod common;
pub mod node;
mod selftest;
mod c01;
mod c02;
mod c03;
mod c04;
mod c05;
mod c06;
mod c07;
mod c08;
mod c09;
mod c10;
mod c11;
mod c12;
mod c13;
mod c14;
mod c15;
mod c16;
mod c17;
mod c18;
mod c19;
mod c20;

fn main() {
    let args: Vec<String> = std::env::args().skip(1).collect();
    if args.is_empty() {
        eprintln!("usage: vh-node <ID> --seed N --tier T --out DIR");
        std::process::exit(2);
    }
    let opts = common::Opts::parse(&args[1..]);
    match args[0].as_str() {
        "selftest" => if opts.extra.first().map(|s| s.as_str()) == Some("pool") { selftest::run_pool(&opts) } else { selftest::run(&opts) },
        "C01" => c01::run(&opts),
        "C02" => c02::run(&opts),
        "C03" => c03::run(&opts),
        "C04" => c04::run(&opts),
        "C05" => c05::run(&opts),
        "C06" => c06::run(&opts),
        "C07" => c07::run(&opts),
        "C08" => c08::run(&opts),
        "C09" => c09::run(&opts),
        "C10" => c10::run(&opts),
        "C11" => c11::run(&opts),
        "C12" => c12::run(&opts),
        "C13" => c13::run(&opts),
        "C14" => c14::run(&opts),
        "C15" => c15::run(&opts),
        "C16" => c16::run(&opts),
        "C17" => c17::run(&opts),
        "C18" => c18::run(&opts),
        "C19" => c19::run(&opts),
        "C20" => c20::run(&opts),
        other => {
            eprintln!("vh-node: unknown sub-command {other}");
            std::process::exit(2);
        }
    }
}
