//! C16, stream `proto` — the peer-facing decode paths that are neither sync nor relay, each through its
//! PRODUCTION entry point:
//!   filter   `<BlockFilter as CKBProtocolHandler>::received`            (sync/src/filter, compatible decode)
//!   light    `<LightClientProtocol as CKBProtocolHandler>::received`    (util/light-client-protocol-server, strict decode)
//!   time     `<NetTimeProtocol as CKBProtocolHandler>::received`        (sync/src/net_time_checker.rs, strict decode)
//!   disc     `protocols::discovery::protocol::decode`                   (what `DiscoveryProtocol::received` calls first)
//!   ident    `IdentifyMessage::decode`                                  (what `IdentifyProtocol::received` calls first)
//!   idv      `Identify::verify`                                         (the check of the `identify` bytes of that message)
//!   ping     `PingMessage::decode`                                      (what `PingHandler::received` calls first)
//! The first three run on a real node (Shared + chain service + SyncShared, a chain of a dozen blocks with
//! transactions, the chain-root MMR of rfc0044) with the recording `CKBProtocolContext` of stream `recv`; the last
//! four are private to ckb-network and are reached through the read-only `verif-hooks` pass-throughs
//! (`ckb_network::verif`): their handlers need a tentacle service context, the decode call is their first statement.
//! Feeler has no `received`; DisconnectMessage::received only does `String::from_utf8(data.to_vec())` (no
//! molecule decode, not driven).
//!
//! Model (`Driver/C16.lean` stream `proto`, `Model/Proto.lean`):
//!   px filter <hex> -> pass <item id> | malformed
//!   lchain <hashes> -> ok                                        (the main chain, told to the model after every `case` line)
//!   px light <hex>  -> pass <item id> | malformed; a GetLastStateProof: pass <id> <toomany|start-above-last|unsorted|boundary|last=<n>>
//!                      (the guard of GetLastStateProofProcess::execute that refused it, else the number of the last header of
//!                      the SendLastStateProof reply: the tip when last_hash is not on the main chain)
//!   px time <hex>   -> pass | malformed
//!   px disc <hex>   -> none | getnodes <version> <count> <port|-> <flags> | nodes <0|1> <flags,..|-> | nodes-addr
//!                      (`nodes-addr`: well-formed Nodes carrying at least one address — Multiaddr parsing is not modelled)
//!   px ident <hex>  -> none | ok            (the reader's verdict; decode may still refuse the observed address)
//!   px idv <hex>    -> none | some <flags>           (Identify::verify, its UTF-8 tests included)
//!   px ping <hex>   -> none | ping <nonce> | pong <nonce>
//!
//! Oracle (implementation alone):
//!   proto-panic          the entry point panics
//!   proto-decode-unverified   decode answered Some on bytes the (compatible) reader of that message type refuses
//!   proto-reply-oversize a single reply is longer than the protocol's max_frame_length
use crate::common::*;
use crate::node::*;
use super::recv::ctx::Ctx;
use ckb_network::bytes::Bytes as NBytes;
use ckb_network::{CKBProtocolHandler, PeerIndex, SupportProtocols};
use ckb_sync::{BlockFilter, NetTimeProtocol, SyncShared};
use ckb_types::core::TransactionView;
use ckb_types::packed::{self, Byte32};
use ckb_types::prelude::*;
use std::panic::{AssertUnwindSafe, catch_unwind};
use std::sync::Arc;

type Nc = Arc<dyn ckb_network::CKBProtocolContext + Sync>;

/// the network identifier `Identify::verify` is asked with
const NET_NAME: &str = "ckb_verif";

struct World {
    node: Node,
    filter: BlockFilter,
    light: ckb_light_client_protocol_server::LightClientProtocol,
    time: NetTimeProtocol,
    rt: tokio::runtime::Runtime,
    ctx: Arc<Ctx>,
    _time: ckb_systemtime::FaketimeGuard,
    base_dir: std::path::PathBuf,
    /// main-chain block hashes by number
    main: Vec<Byte32>,
    /// hashes of committed transactions
    tx_hashes: Vec<Byte32>,
    peer: PeerIndex,
    next_peer: usize,
}

impl World {
    fn new(out: &std::path::Path) -> World {
        let base = scratch_dir(out, "c16proto");
        let cfg = NodeCfg { with_pool: false, epoch_len: 1000, window: (2, 10), ..Default::default() };
        let consensus = make_consensus(&cfg);
        let node = Node::start(&base.join("node"), consensus.clone(), &cfg);
        let time = ckb_systemtime::faketime();
        time.set_faketime(50_000);
        let (_tx, rx) = ckb_channel::unbounded::<ckb_tx_pool::service::TxVerificationResult>();
        let shared = Arc::new(SyncShared::new(node.shared.clone(), Default::default(), rx));
        let mut builder = ChainBuilder::new(consensus.clone(), &base.join("builder"));
        let cells = genesis_cells(&consensus);
        let proposed: Vec<TransactionView> = (0..cells.len().min(6)).map(|i| spend_tx(&cells[i..i + 1], 1 + i % 2, 1000, i as u64)).collect();
        let mut main = vec![consensus.genesis_hash()];
        let mut tx_hashes = vec![];
        let mut tip = consensus.genesis_hash();
        for n in 1..=12u64 {
            let mut spec = BlockSpec { salt: n, ..Default::default() };
            if n == 1 {
                spec.proposals = proposed.iter().map(|t| t.proposal_short_id()).collect();
            }
            if (3..=8).contains(&n) && (n as usize - 3) < proposed.len() {
                spec.txs = vec![proposed[n as usize - 3].clone()];
            }
            let b = builder.build(&tip, &spec);
            node.process(&b).expect("setup block");
            for t in b.transactions() {
                tx_hashes.push(t.hash());
            }
            tip = b.hash();
            main.push(tip.clone());
        }
        builder.cleanup();
        let rt = tokio::runtime::Builder::new_multi_thread().worker_threads(2).enable_all().build().unwrap();
        World {
            filter: BlockFilter::new(Arc::clone(&shared)),
            light: ckb_light_client_protocol_server::LightClientProtocol::new(node.shared.clone()),
            time: NetTimeProtocol::default(),
            node,
            rt,
            ctx: Arc::new(Ctx::new(SupportProtocols::Filter.protocol_id())),
            _time: time,
            base_dir: base,
            main,
            tx_hashes,
            peer: 1.into(),
            next_peer: 2,
        }
    }

    /// tells the model the main chain (block hashes by number); after every `case` line
    fn lchain(&self, out: &mut Out) {
        let hs: Vec<String> = self.main.iter().map(|h| hex(h.as_slice())).collect();
        out.op(&format!("lchain {}", hs.join(",")), "ok");
    }

    fn cleanup(&self) {
        let _ = std::fs::remove_dir_all(&self.base_dir);
    }

    fn new_peer(&mut self) {
        self.peer = self.next_peer.into();
        self.next_peer += 1;
    }

    /// one message through the production entry point of `proto`; writes the op line
    fn px(&mut self, out: &mut Out, proto: &str, bytes: &[u8]) {
        let op = format!("px {} {}", proto, hex(bytes));
        let ans = match proto {
            "filter" | "light" | "time" => self.handler(out, proto, bytes),
            _ => self.decode(out, proto, bytes),
        };
        out.count(&format!("{}-{}", proto, ans.split(' ').next().unwrap()));
        out.op(&op, &ans);
    }

    fn panic_answer(&self, out: &mut Out, proto: &str, bytes: &[u8], e: Box<dyn std::any::Any + Send>) -> String {
        let msg = e.downcast_ref::<String>().cloned().or_else(|| e.downcast_ref::<&str>().map(|s| s.to_string())).unwrap_or_default();
        let at = super::recv::LAST_PANIC_AT.lock().map(|g| g.clone()).unwrap_or_default();
        out.oracle_fail("proto-panic", &format!("{} entry point panics ({}) at {} on {}", proto, msg, at, &hex(bytes)[..hex(bytes).len().min(600)]));
        "panic".to_string()
    }

    fn handler(&mut self, out: &mut Out, proto: &str, bytes: &[u8]) -> String {
        let c = self.ctx.clone();
        let (bans0, sent0) = {
            let r = c.rec.lock().unwrap_or_else(|e| e.into_inner());
            (r.bans.len(), r.sent.len())
        };
        let nc: Nc = c.clone();
        let peer = self.peer;
        let data = NBytes::from(bytes.to_vec());
        let (filter, light, time, rt) = (&mut self.filter, &mut self.light, &mut self.time, &self.rt);
        let r = catch_unwind(AssertUnwindSafe(|| {
            rt.block_on(async {
                match proto {
                    "filter" => CKBProtocolHandler::received(filter, nc, peer, data).await,
                    "light" => CKBProtocolHandler::received(light, nc, peer, data).await,
                    _ => CKBProtocolHandler::received(time, nc, peer, data).await,
                }
            })
        }));
        let max_frame = match proto {
            "filter" => SupportProtocols::Filter.max_frame_length(),
            "light" => SupportProtocols::LightClient.max_frame_length(),
            _ => SupportProtocols::Time.max_frame_length(),
        };
        // a GetLastStateProof: where `last_hash` is on the main chain (else the tip)
        let glsp_last: Option<u64> = if proto == "light" {
            packed::LightClientMessageReader::from_slice(bytes).ok().and_then(|m| match m.to_enum() {
                packed::LightClientMessageUnionReader::GetLastStateProof(r) => {
                    let h = r.last_hash().to_entity();
                    Some(self.main.iter().position(|x| *x == h).unwrap_or(self.main.len() - 1) as u64)
                }
                _ => None,
            })
        } else {
            None
        };
        let gate = {
            let rec = c.rec.lock().unwrap_or_else(|e| e.into_inner());
            let mut malformed = false;
            let mut too_many = false;
            let mut guard: Option<&str> = None;
            // the number of the last header of a SendLastStateProof reply
            let mut reply_last: Option<u64> = None;
            for (p, reason) in &rec.bans[bans0..] {
                if *p != peer {
                    continue;
                }
                if reason == "send us a malformed message" {
                    malformed = true;
                } else {
                    if proto == "light" && reason.contains("too many samples") {
                        too_many = true;
                    }
                    if proto == "light" {
                        if reason.contains("is greater than the last block number") {
                            guard = Some("start-above-last");
                        } else if reason.contains("should be monotonically increasing") {
                            guard = Some("unsorted");
                        } else if reason.contains("difficulty boundary should be greater than all difficulties") {
                            guard = Some("boundary");
                        }
                    }
                    let code: String = reason.chars().take_while(|ch| ch.is_ascii_alphanumeric()).collect();
                    out.count(&format!("ban-{}-{}", proto, code));
                }
            }
            for (_, _, d) in &rec.sent[sent0..] {
                out.count(&format!("reply-{}", proto));
                if proto == "light" {
                    if let Ok(m) = packed::LightClientMessageReader::from_slice(d) {
                        if let packed::LightClientMessageUnionReader::SendLastStateProof(r) = m.to_enum() {
                            reply_last = Some(r.last_header().header().raw().number().into());
                        }
                    }
                }
                if d.len() > max_frame {
                    out.oracle_fail("proto-reply-oversize", &format!("{proto}: a reply of {} bytes (max_frame_length {max_frame})", d.len()));
                }
            }
            let id = if bytes.len() >= 4 { u32::from_le_bytes([bytes[0], bytes[1], bytes[2], bytes[3]]) } else { 0 };
            if malformed {
                "malformed".to_string()
            } else if proto == "time" {
                "pass".to_string()
            } else if too_many {
                format!("pass {id} toomany")
            } else if let Some(glsp_last) = glsp_last {
                // a GetLastStateProof past "too many samples": the guard that refused it, else the number of the last
                // header of the reply (when a later stage refused it without a reply: the number of `last_hash` on the
                // main chain, or the tip for an unknown `last_hash`, by construction)
                match guard {
                    Some(g) => format!("pass {id} {g}"),
                    None => format!("pass {id} last={}", reply_last.unwrap_or(glsp_last)),
                }
            } else {
                format!("pass {id}")
            }
        };
        // keep the recording small
        {
            let mut rec = c.rec.lock().unwrap_or_else(|e| e.into_inner());
            rec.sent.clear();
            rec.bans.clear();
        }
        match r {
            Ok(()) => gate,
            Err(e) => self.panic_answer(out, proto, bytes, e),
        }
    }

    fn decode(&mut self, out: &mut Out, proto: &str, bytes: &[u8]) -> String {
        let data = NBytes::from(bytes.to_vec());
        match proto {
            "disc" => {
                let structural = packed::DiscoveryMessageReader::from_compatible_slice(bytes).ok();
                // addresses present anywhere in a well-formed Nodes message?
                let has_addr = structural
                    .map(|m| match m.payload().to_enum() {
                        packed::DiscoveryPayloadUnionReader::Nodes(n) => n.items().iter().any(|it| it.addresses().len() > 0),
                        _ => false,
                    })
                    .unwrap_or(false);
                match catch_unwind(AssertUnwindSafe(|| ckb_network::verif::discovery_decode(&data))) {
                    Err(e) => self.panic_answer(out, proto, bytes, e),
                    Ok(r) => {
                        if r.is_some() && structural.is_none() {
                            out.oracle_fail("proto-decode-unverified", &format!("discovery decode answered Some on {}", hex(bytes)));
                        }
                        if has_addr {
                            return "nodes-addr".into();
                        }
                        match r {
                            None => "none".into(),
                            Some(ckb_network::verif::VerifDiscovery::GetNodes(v, c, p, f)) => format!("getnodes {} {} {} {}", v, c, p.map(|x| x.to_string()).unwrap_or("-".into()), f),
                            Some(ckb_network::verif::VerifDiscovery::Nodes(a, items)) => {
                                format!("nodes {} {}", a as u8, if items.is_empty() { "-".to_string() } else { items.iter().map(|(_, f)| f.to_string()).collect::<Vec<_>>().join(",") })
                            }
                        }
                    }
                }
            }
            "ident" => {
                let structural = packed::IdentifyMessageReader::from_compatible_slice(bytes).is_ok();
                match catch_unwind(AssertUnwindSafe(|| ckb_network::verif::identify_decode(bytes))) {
                    Err(e) => self.panic_answer(out, proto, bytes, e),
                    Ok(r) => {
                        if r.is_some() && !structural {
                            out.oracle_fail("proto-decode-unverified", &format!("identify decode answered Some on {}", hex(bytes)));
                        }
                        if r.is_some() {
                            out.count("ident-decoded");
                        }
                        if structural { "ok".into() } else { "none".into() }
                    }
                }
            }
            "idv" => {
                let reader = packed::IdentifyReader::from_slice(bytes).ok();
                match catch_unwind(AssertUnwindSafe(|| ckb_network::verif::identify_verify(NET_NAME, bytes))) {
                    Err(e) => self.panic_answer(out, proto, bytes, e),
                    Ok(r) => {
                        if r.is_some() && reader.is_none() {
                            out.oracle_fail("proto-decode-unverified", &format!("Identify::verify answered Some on {}", hex(bytes)));
                        }
                        match r {
                            None => "none".into(),
                            Some((f, _)) => format!("some {f}"),
                        }
                    }
                }
            }
            _ => {
                let structural = packed::PingMessageReader::from_compatible_slice(bytes).is_ok();
                match catch_unwind(AssertUnwindSafe(|| ckb_network::verif::ping_decode(bytes))) {
                    Err(e) => self.panic_answer(out, proto, bytes, e),
                    Ok(r) => {
                        if r.is_some() != structural {
                            out.oracle_fail("proto-decode-unverified", &format!("ping decode {:?} but the reader says {} on {}", r, structural, hex(bytes)));
                        }
                        match r {
                            None => "none".into(),
                            Some((false, n)) => format!("ping {n}"),
                            Some((true, n)) => format!("pong {n}"),
                        }
                    }
                }
            }
        }
    }
}

// ------------------------------------------------------------------------------------------------
// byte-level builders (compatible-mode territory needs hand-made tables)

fn table(fields: &[&[u8]]) -> Vec<u8> {
    let header = 4 * (1 + fields.len());
    let total = header + fields.iter().map(|f| f.len()).sum::<usize>();
    let mut v = (total as u32).to_le_bytes().to_vec();
    let mut off = header;
    for f in fields {
        v.extend_from_slice(&(off as u32).to_le_bytes());
        off += f.len();
    }
    for f in fields {
        v.extend_from_slice(f);
    }
    v
}

fn union(id: u32, inner: &[u8]) -> Vec<u8> {
    let mut v = id.to_le_bytes().to_vec();
    v.extend_from_slice(inner);
    v
}

fn mbytes(b: &[u8]) -> Vec<u8> {
    let mut v = (b.len() as u32).to_le_bytes().to_vec();
    v.extend_from_slice(b);
    v
}

/// an extra field of `len` bytes
fn extra(rng: &mut Rng, len: usize) -> Vec<u8> {
    match rng.below(3) {
        0 => vec![0u8; len],
        1 => vec![0xffu8; len],
        _ => (0..len).map(|_| rng.next() as u8).collect(),
    }
}

fn extra_below(rng: &mut Rng, n: u64) -> Vec<u8> {
    let len = rng.below(n) as usize;
    extra(rng, len)
}

fn extra_range(rng: &mut Rng, lo: u64, hi: u64) -> Vec<u8> {
    let len = rng.range(lo, hi) as usize;
    extra(rng, len)
}

fn extra_pick(rng: &mut Rng, lens: &[usize]) -> Vec<u8> {
    let len = *rng.pick(lens);
    extra(rng, len)
}

fn mutate(rng: &mut Rng, m: &[u8]) -> Vec<u8> {
    let mut v = m.to_vec();
    match rng.below(8) {
        0 if v.len() > 1 => {
            let k = rng.range(0, v.len() as u64 - 1) as usize;
            v.truncate(k);
        }
        1 if !v.is_empty() => {
            let i = rng.below(v.len() as u64) as usize;
            v[i] ^= 1 << rng.below(8);
        }
        2 if v.len() >= 8 => {
            // a header number (total size, an offset, an item id, a count)
            let i = 4 * rng.below((v.len() / 4).min(8) as u64) as usize;
            let d = *rng.pick(&[1u8, 4, 0xff, 0x80]);
            v[i] = v[i].wrapping_add(d);
        }
        3 if !v.is_empty() => {
            let i = rng.below(v.len() as u64) as usize;
            v[i] = *rng.pick(&[0u8, 1, 0x7f, 0x80, 0xff]);
        }
        4 if v.len() >= 4 => {
            // total size says more / less than there is
            let t = u32::from_le_bytes([v[0], v[1], v[2], v[3]]);
            let t2 = *rng.pick(&[t.wrapping_add(1), t.wrapping_sub(1), t.wrapping_add(4), 0, u32::MAX]);
            v[..4].copy_from_slice(&t2.to_le_bytes());
        }
        5 => v.extend_from_slice(&{ let n = rng.range(1, 5) as usize; extra(rng, n) }),
        6 if v.len() > 8 => {
            // drop a byte in the middle
            let i = rng.range(4, v.len() as u64 - 1) as usize;
            v.remove(i);
        }
        _ => {
            let n = rng.range(0, 24) as usize;
            v = (0..n).map(|_| rng.next() as u8).collect();
        }
    }
    v
}

// ------------------------------------------------------------------------------------------------
// scenarios: each returns (proto, message) pairs

fn gen_discovery(rng: &mut Rng) -> Vec<Vec<u8>> {
    let mut v = vec![];
    let version = (*rng.pick(&[0u32, 1, u32::MAX])).to_le_bytes();
    let count = (*rng.pick(&[0u32, 3, 1000, 1001, u32::MAX])).to_le_bytes();
    let port_v = (*rng.pick(&[0u16, 8114, u16::MAX])).to_le_bytes();
    let port: &[u8] = if rng.chance(1, 2) { &[] } else { &port_v };
    let msg = |get_nodes: Vec<u8>| table(&[&union(0, &get_nodes)]);
    // GetNodes with 3 fields, and with an extra (compatible-mode) 4th field of every length 0..=16, and a 5th
    v.push(msg(table(&[&version, &count, port])));
    let l = rng.below(17) as usize;
    for len in [l, 8, *rng.pick(&[0usize, 3, 7, 9, 16])] {
        let e = extra(rng, len);
        v.push(msg(table(&[&version, &count, port, &e])));
        if rng.chance(1, 3) {
            let e2 = extra_below(rng, 6);
            v.push(msg(table(&[&version, &count, port, &e, &e2])));
        }
    }
    // a port slot that is not 0 / 2 bytes
    v.push(msg(table(&[&version, &count, &[1u8][..]])));
    // Nodes: announce byte, items with / without flags, extra fields of every length on Node and on Nodes
    let announce = [*rng.pick(&[0u8, 1, 2, 0xff])];
    let n_items = rng.below(4) as usize;
    let mut items: Vec<Vec<u8>> = vec![];
    for _ in 0..n_items {
        let addrs = if rng.chance(1, 4) {
            // one address: /ip4/1.2.3.4/tcp/8114 or garbage
            let a: Vec<u8> = if rng.chance(1, 2) { vec![4, 1, 2, 3, 4, 6, 0x1f, 0xb2] } else { extra_range(rng, 1, 9) };
            table(&[&mbytes(&a)])
        } else {
            4u32.to_le_bytes().to_vec()
        };
        let node = match rng.below(4) {
            0 => table(&[&addrs]),
            1 => table(&[&addrs, &(*rng.pick(&[0u64, 1, 0b111111, 0b1000000, u64::MAX])).to_le_bytes()]),
            2 => {
                let e = extra_below(rng, 17);
                table(&[&addrs, &e])
            }
            _ => {
                let e = extra(rng, 8);
                let e2 = extra_below(rng, 5);
                table(&[&addrs, &e, &e2])
            }
        };
        items.push(node);
    }
    let item_refs: Vec<&[u8]> = items.iter().map(|i| &i[..]).collect();
    let items_vec = if items.is_empty() { 4u32.to_le_bytes().to_vec() } else { table(&item_refs) };
    let nodes = if rng.chance(1, 4) {
        let e = extra_below(rng, 17);
        table(&[&announce, &items_vec, &e])
    } else {
        table(&[&announce, &items_vec])
    };
    v.push(table(&[&union(1, &nodes)]));
    // the outer message with an extra field, an unknown union id
    let inner = union(*rng.pick(&[0u32, 1, 2, u32::MAX]), &table(&[&version, &count, port]));
    let e = extra_below(rng, 17);
    v.push(table(&[&inner, &e]));
    v
}

fn gen_ping(rng: &mut Rng) -> Vec<Vec<u8>> {
    let mut v = vec![];
    let nonce = (*rng.pick(&[0u32, 1, 0x01020304, u32::MAX])).to_le_bytes();
    let id = *rng.pick(&[0u32, 0, 1, 1, 2, u32::MAX]);
    v.push(table(&[&union(id, &table(&[&nonce]))]));
    let e = extra_below(rng, 17);
    v.push(table(&[&union(id.min(1), &table(&[&nonce, &e]))]));
    v.push(table(&[&union(id.min(1), &table(&[&nonce])), &e]));
    v.push(table(&[&union(id.min(1), &table(&[&extra_pick(rng, &[0usize, 3, 5, 8])]))]));
    v
}

fn gen_identify(rng: &mut Rng) -> (Vec<Vec<u8>>, Vec<Vec<u8>>) {
    // IdentifyMessage { listen_addrs: AddressVec, observed_addr: Address, identify: Bytes }
    let good_addr: Vec<u8> = vec![4, 127, 0, 0, 1, 6, 0x1f, 0xb2];
    let addr = |a: &[u8]| table(&[&mbytes(a)]);
    let flag = (*rng.pick(&[0u64, 1, 0b101101, 0b1000000, u64::MAX])).to_le_bytes();
    let name: Vec<u8> = match rng.below(5) {
        0 => b"ckb_other".to_vec(),
        1 => vec![0xff, 0xfe],
        2 => vec![],
        _ => NET_NAME.as_bytes().to_vec(),
    };
    let version: Vec<u8> = match rng.below(5) {
        0 => vec![],
        1 => vec![0xc3, 0x28],
        2 => vec![0xe2, 0x82, 0xac],
        _ => b"0.200.0 (abc 2026)".to_vec(),
    };
    let mut idv = vec![];
    let identify = table(&[&flag, &mbytes(&name), &mbytes(&version)]);
    idv.push(identify.clone());
    let e = extra_below(rng, 17);
    idv.push(table(&[&flag, &mbytes(&name), &mbytes(&version), &e]));
    idv.push(table(&[&extra_pick(rng, &[0usize, 7, 9]), &mbytes(&name), &mbytes(&version)]));
    idv.push(table(&[&flag, &mbytes(&name)]));
    let mut ident = vec![];
    let n_listen = rng.below(4) as usize;
    let listen: Vec<Vec<u8>> = (0..n_listen).map(|_| if rng.chance(2, 3) { addr(&good_addr) } else { addr(&extra_below(rng, 10)) }).collect();
    let lrefs: Vec<&[u8]> = listen.iter().map(|i| &i[..]).collect();
    let listen_vec = if listen.is_empty() { 4u32.to_le_bytes().to_vec() } else { table(&lrefs) };
    let observed = if rng.chance(3, 4) { addr(&good_addr) } else { addr(&extra_below(rng, 10)) };
    ident.push(table(&[&listen_vec, &observed, &mbytes(&identify)]));
    ident.push(table(&[&listen_vec, &observed, &mbytes(&identify), &e]));
    // an Address with an extra field
    let observed2 = table(&[&mbytes(&good_addr), &e]);
    ident.push(table(&[&listen_vec, &observed2, &mbytes(&identify)]));
    ident.push(table(&[&listen_vec, &observed]));
    (ident, idv)
}

fn gen_time(rng: &mut Rng) -> Vec<Vec<u8>> {
    let ts = (*rng.pick(&[0u64, 1, 49_999, 50_000, 50_001, 1 << 63, u64::MAX])).to_le_bytes();
    let e = extra_below(rng, 17);
    vec![table(&[&ts]), table(&[&ts, &e]), table(&[&extra_pick(rng, &[0usize, 4, 7, 9])]), table(&[])]
}

fn gen_filter(w: &World, rng: &mut Rng) -> Vec<Vec<u8>> {
    let tip = w.main.len() as u64 - 1;
    let start = *rng.pick(&[0u64, 1, tip - 1, tip, tip + 1, tip + 2, 1 << 32, u64::MAX - 1, u64::MAX]);
    let msg = |u: packed::BlockFilterMessageUnion| packed::BlockFilterMessage::new_builder().set(u).build().as_slice().to_vec();
    let mut v = vec![
        msg(packed::GetBlockFilters::new_builder().start_number(start).build().into()),
        msg(packed::GetBlockFilterHashes::new_builder().start_number(start).build().into()),
        msg(packed::GetBlockFilterCheckPoints::new_builder().start_number(start).build().into()),
    ];
    // what a client receives, sent to the server
    let h = w.main[(rng.below(w.main.len() as u64)) as usize].clone();
    v.push(msg(packed::BlockFilters::new_builder().start_number(start).block_hashes(packed::Byte32Vec::new_builder().set(vec![h.clone()]).build()).filters(packed::BytesVec::new_builder().set(vec![packed::Bytes::default()]).build()).build().into()));
    v.push(msg(packed::BlockFilterHashes::new_builder().start_number(start).parent_block_filter_hash(h.clone()).block_filter_hashes(packed::Byte32Vec::new_builder().set(vec![h.clone(), h.clone()]).build()).build().into()));
    v.push(msg(packed::BlockFilterCheckPoints::new_builder().start_number(start).block_filter_hashes(packed::Byte32Vec::new_builder().set(vec![h]).build()).build().into()));
    // compatible mode: a request with an extra field of every length
    let e = extra_below(rng, 17);
    let id = *rng.pick(&[0u32, 2, 4, 6, u32::MAX]);
    v.push(union(id, &table(&[&start.to_le_bytes(), &e])));
    v
}

fn gen_light(w: &World, rng: &mut Rng) -> Vec<Vec<u8>> {
    use ckb_types::U256;
    let tip = w.main.len() as u64 - 1;
    let unknown = Byte32::from_slice(&[0x5au8; 32]).unwrap();
    let pick_hash = |rng: &mut Rng| -> Byte32 {
        match rng.below(6) {
            0 => unknown.clone(),
            1 => w.main[0].clone(),
            2 | 3 => w.main[tip as usize].clone(),
            _ => w.main[rng.below(w.main.len() as u64) as usize].clone(),
        }
    };
    let msg = |u: packed::LightClientMessageUnion| packed::LightClientMessage::new_builder().set(u).build().as_slice().to_vec();
    let mut v = vec![];
    v.push(msg(packed::GetLastState::new_builder().subscribe(packed::Bool::new_builder().set([(*rng.pick(&[0u8, 1, 2, 0xff])).into()]).build()).build().into()));
    // GetLastStateProof: boundaries of every numeric field
    for _ in 0..3 {
        // three messages in ten as before (every numeric field at its boundaries: mostly refused by the first two
        // guards); the others are aimed past them: last block on the main chain, start number not above it, few
        // samples - then difficulties unsorted (swapped / equal neighbours), a boundary at / just below / just above the
        // last difficulty, or a request that passes every guard
        let mode = rng.below(10);
        let (last_hash, start_hash, start_number, last_n, diffs, boundary) = if mode < 3 {
            let last_hash = pick_hash(rng);
            let start_hash = pick_hash(rng);
            let start_number = *rng.pick(&[0u64, 0, 1, 2, tip - 1, tip, tip + 1, tip + 2, 1 << 32, u64::MAX - 1, u64::MAX]);
            let last_n = *rng.pick(&[0u64, 1, 2, 5, tip, 499, 500, 501, 1 << 31, (1 << 63) - 1, 1 << 63, u64::MAX]);
            let nd = *rng.pick(&[0usize, 0, 1, 2, 3, 999, 1000, 1001]);
            let base = *rng.pick(&[0u64, 1, 2, 5, 1000]);
            let mut diffs: Vec<U256> = (0..nd).map(|i| U256::from(base + i as u64)).collect();
            if nd >= 2 && rng.chance(1, 4) {
                diffs.swap(0, 1);
            }
            if nd >= 1 && rng.chance(1, 6) {
                diffs[nd - 1] = U256::max_value();
            }
            let boundary = match rng.below(5) {
                0 => U256::zero(),
                1 => U256::max_value(),
                2 => U256::from(base),
                _ => U256::from(base + nd as u64 + rng.below(20)),
            };
            (last_hash, start_hash, start_number, last_n, diffs, boundary)
        } else {
            let li = if rng.chance(1, 3) { tip } else { rng.below(tip + 1) };
            let last_hash = w.main[li as usize].clone();
            let start_number = if rng.chance(1, 8) { li + 1 } else { rng.below(li + 1) };
            let start_hash = if rng.chance(1, 2) { w.main[(start_number.min(tip)) as usize].clone() } else { pick_hash(rng) };
            let last_n = *rng.pick(&[0u64, 1, 2, 5, tip]);
            let nd = if mode < 7 { rng.range(2, 5) as usize } else { rng.below(4) as usize };
            let base = *rng.pick(&[1u64, 2, 5, 1000, 1 << 40]);
            let step = *rng.pick(&[1u64, 1, 3, 1000]);
            let mut diffs: Vec<U256> = (0..nd).map(|i| U256::from(base + step * i as u64)).collect();
            let mut boundary = U256::from(base + step * nd as u64 + rng.below(3));
            match mode {
                3 | 4 => {
                    // not strictly increasing: equal neighbours (the `>=` of the code) or a swapped pair, anywhere
                    let i = rng.below(nd as u64 - 1) as usize;
                    if rng.chance(1, 2) {
                        diffs[i + 1] = diffs[i].clone();
                    } else {
                        diffs.swap(i, i + 1);
                    }
                }
                5 | 6 => {
                    // the boundary at the last difficulty (refused: `>=`), one below (refused), one above (passes)
                    let last = base + step * (nd as u64 - 1);
                    boundary = U256::from(*rng.pick(&[last, last, last - 1, last + 1]));
                }
                _ => {}
            }
            (last_hash, start_hash, start_number, last_n, diffs, boundary)
        };
        v.push(msg(
            packed::GetLastStateProof::new_builder()
                .last_hash(last_hash)
                .start_hash(start_hash)
                .start_number(start_number)
                .last_n_blocks(last_n)
                .difficulty_boundary(boundary)
                .difficulties(packed::Uint256Vec::new_builder().set(diffs.iter().map(|d| Pack::pack(d)).collect()).build())
                .build()
                .into(),
        ));
    }
    // GetBlocksProof / GetTransactionsProof: counts around the limits, duplicates, unknown, genesis, the last block itself
    let n = *rng.pick(&[0usize, 1, 2, 3, 999, 1000, 1001]);
    let mut hs: Vec<Byte32> = (0..n).map(|i| if n <= 3 { pick_hash(rng) } else { Byte32::from_slice(&[(i % 251) as u8; 32]).unwrap() }).collect();
    if n >= 2 && rng.chance(1, 2) {
        hs[1] = hs[0].clone();
    }
    v.push(msg(packed::GetBlocksProof::new_builder().last_hash(pick_hash(rng)).block_hashes(packed::Byte32Vec::new_builder().set(hs).build()).build().into()));
    let n = *rng.pick(&[0usize, 1, 2, 3, 999, 1000, 1001]);
    let mut ths: Vec<Byte32> = (0..n).map(|i| if n <= 3 && !w.tx_hashes.is_empty() && rng.chance(2, 3) { w.tx_hashes[rng.below(w.tx_hashes.len() as u64) as usize].clone() } else { Byte32::from_slice(&[(i % 251) as u8 + 1; 32]).unwrap() }).collect();
    if n >= 2 && rng.chance(1, 2) {
        ths[1] = ths[0].clone();
    }
    v.push(msg(packed::GetTransactionsProof::new_builder().last_hash(pick_hash(rng)).tx_hashes(packed::Byte32Vec::new_builder().set(ths).build()).build().into()));
    // server-to-client messages sent to the server
    v.push(msg(packed::SendLastState::default().into()));
    v.push(msg(packed::SendLastStateProof::default().into()));
    v.push(msg(packed::SendBlocksProof::default().into()));
    v.push(msg(packed::SendTransactionsProof::default().into()));
    // strict decode: one extra field must be refused
    let e = extra_below(rng, 17);
    v.push(union(0, &table(&[&[1u8][..], &e])));
    v
}

fn case(w: &mut World, out: &mut Out, rng: &mut Rng, kind: u64) {
    w.new_peer();
    let (label, msgs): (&str, Vec<(&str, Vec<u8>)>) = match kind {
        0 => ("disc", gen_discovery(rng).into_iter().map(|m| ("disc", m)).collect()),
        1 => ("ping", gen_ping(rng).into_iter().map(|m| ("ping", m)).collect()),
        2 => {
            let (a, b) = gen_identify(rng);
            ("identify", a.into_iter().map(|m| ("ident", m)).chain(b.into_iter().map(|m| ("idv", m))).collect())
        }
        3 => ("time", gen_time(rng).into_iter().map(|m| ("time", m)).collect()),
        4 => ("filter", gen_filter(w, rng).into_iter().map(|m| ("filter", m)).collect()),
        _ => ("light", gen_light(w, rng).into_iter().map(|m| ("light", m)).collect()),
    };
    out.begin_case(label);
    w.lchain(out);
    let tip0 = w.node.tip_hash();
    for (proto, m) in &msgs {
        w.px(out, proto, m);
        // and byte-level mutations of it (the big lists only rarely)
        if m.len() < 4000 || rng.chance(1, 10) {
            for _ in 0..2 {
                let mm = mutate(rng, m);
                w.px(out, proto, &mm);
            }
        }
    }
    if w.node.tip_hash() != tip0 {
        out.oracle_fail("tip-not-sent", "the tip moved while only filter / light-client / time / base-protocol messages were received");
    }
    out.nontrivial(format!("{label}-{}", rng.next() % 50));
}

pub fn run(opts: &Opts, mut out: Out) {
    super::recv::panic_hook();
    let mut w = std::mem::ManuallyDrop::new(World::new(&opts.out));
    if let Some(p) = &opts.replay {
        for l in read_replay_ops(p) {
            let ts: Vec<&str> = l.split(' ').collect();
            match ts[0] {
                "case" => {
                    out.begin_case(&ts[2..].join(" "));
                    w.lchain(&mut out);
                    w.new_peer();
                }
                // (already told after the `case` line; the chain is the same in every run)
                "lchain" => {}
                "px" => {
                    let bytes = if ts[2] == "-" { vec![] } else { (0..ts[2].len() / 2).map(|i| u8::from_str_radix(&ts[2][2 * i..2 * i + 2], 16).expect("hex")).collect() };
                    w.px(&mut out, ts[1], &bytes);
                }
                other => panic!("C16 proto replay: unknown op {other}"),
            }
        }
        out.finish("proto: replay");
        w.cleanup();
        std::process::exit(0);
    }
    if opts.extra.iter().any(|a| a == "only-findings") {
        // (for writing corpus files) one minimal message per reported finding
        use ckb_types::U256;
        let msg = |u: packed::LightClientMessageUnion| packed::LightClientMessage::new_builder().set(u).build().as_slice().to_vec();
        let tip = w.main.len() - 1;
        let glsp = |last: &Byte32, start_number: u64, last_n: u64| {
            msg(packed::GetLastStateProof::new_builder().last_hash(last.clone()).start_hash(Byte32::zero()).start_number(start_number).last_n_blocks(last_n).difficulty_boundary(Pack::pack(&U256::zero())).build().into())
        };
        let cases: Vec<(&str, Vec<u8>)> = vec![
            ("light-getlaststate-subscribe-byte", msg(packed::GetLastState::new_builder().subscribe(packed::Bool::new_builder().set([2u8.into()]).build()).build().into())),
            ("light-last-n-blocks-overflow", glsp(&w.main[tip], 0, 1 << 63)),
            ("light-start-number-above-last-block", glsp(&w.main[tip], tip as u64 + 1, 1)),
            ("light-last-hash-genesis", glsp(&w.main[0], 0, 1)),
            ("light-duplicate-tx-hash", msg(packed::GetTransactionsProof::new_builder().last_hash(w.main[tip].clone()).tx_hashes(packed::Byte32Vec::new_builder().set(vec![w.tx_hashes[1].clone(), w.tx_hashes[1].clone()]).build()).build().into())),
        ];
        for (class, m) in cases {
            out.begin_case(class);
            w.lchain(&mut out);
            w.new_peer();
            w.px(&mut out, "light", &m);
        }
        out.finish("proto: findings");
        w.cleanup();
        std::process::exit(0);
    }
    let mut rng = Rng::new(opts.seed ^ 0x9107016);
    let n = if opts.thorough() { 20000 } else { 1500 } * opts.scale;
    for i in 0..n {
        let kind = if i < 12 { i % 6 } else { *rng.pick(&[0u64, 0, 1, 2, 2, 3, 4, 4, 5, 5, 5]) };
        case(&mut w, &mut out, &mut rng, kind);
    }
    out.finish("proto: one generated family of messages (valid, boundary values, compatible-mode extra fields of length 0..=16, byte mutations) of one protocol through its production entry point; fingerprint = protocol and a draw");
    w.cleanup();
    std::process::exit(0);
}
