//! `vh-node selftest`: exercises node.rs — builds a tree with forks, proposals and committed
//! transactions and feeds it to a real fully-verifying node.
use crate::common::*;
use crate::node::*;
use ckb_store::ChainStore;

pub fn run(opts: &Opts) {
    let base = scratch_dir(&opts.out, "selftest");
    let cfg = NodeCfg { epoch_len: 5, window: (2, 4), with_pool: false, ..Default::default() };
    let consensus = make_consensus(&cfg);
    let node = Node::start(&base.join("node"), consensus.clone(), &cfg);
    let mut b = ChainBuilder::new(consensus.clone(), &base.join("builder"));
    let g = consensus.genesis_hash();
    let cells = genesis_cells(&consensus);
    let tx1 = spend_tx(&cells[0..1], 2, 1000, 1);
    let mut tip = g.clone();
    let mut chain = vec![];
    for n in 1..=14u64 {
        let mut spec = BlockSpec { salt: n, ..Default::default() };
        if n == 2 {
            spec.proposals = vec![tx1.proposal_short_id()];
        }
        if n == 5 {
            spec.txs = vec![tx1.clone()];
        }
        let blk = b.build(&tip, &spec);
        let r = node.process(&blk);
        println!("main {} epoch {} -> {:?}", blk.number(), blk.epoch(), r);
        assert_eq!(r, Ok(true));
        tip = blk.hash();
        chain.push(blk);
    }
    // fork from block 3, longer
    let mut ftip = chain[2].hash();
    for n in 4..=16u64 {
        let blk = b.build(&ftip, &BlockSpec { salt: 100 + n, ..Default::default() });
        let r = node.process(&blk);
        println!("fork {} -> {:?} tip={}", blk.number(), r, node.tip().number());
        assert_eq!(r, Ok(true));
        ftip = blk.hash();
    }
    assert_eq!(node.tip_hash(), ftip);
    // invalid: cellbase overpays by 1 shannon
    let bad = b.build(&ftip, &BlockSpec { salt: 999, tweak: Tweak::CellbaseCapacity(1), ..Default::default() });
    let r = node.process(&bad);
    println!("bad -> {:?}", r);
    assert!(r.is_err());
    assert_eq!(node.tip_hash(), ftip);
    println!("tx1 on main chain now? {:?}", node.store().get_transaction_info(&tx1.hash()).is_some());
    // restart
    let dir = node.dir.clone();
    node.stop();
    let node2 = Node::start(&dir, consensus.clone(), &cfg);
    assert_eq!(node2.tip_hash(), ftip);
    println!("restart ok, tip {}", node2.tip().number());
    node2.stop();
    drop(b);
    let _ = std::fs::remove_dir_all(&base);
    println!("selftest ok");
}

/// `vh-node selftest pool`: node with tx-pool service: submit, template, mine, commit.
pub fn run_pool(opts: &Opts) {
    use ckb_types::prelude::*;
    let base = scratch_dir(&opts.out, "selftest-pool");
    let cfg = NodeCfg { epoch_len: 6, window: (2, 4), with_pool: true, ..Default::default() };
    let consensus = make_consensus(&cfg);
    let node = Node::start(&base.join("node"), consensus.clone(), &cfg);
    let cells = genesis_cells(&consensus);
    let tpc = node.shared.tx_pool_controller().clone();
    let tx1 = spend_tx(&cells[0..1], 2, 1000, 1);
    let r = tpc.submit_local_tx(tx1.clone());
    println!("submit tx1 -> {:?}", r.map(|r| r.map_err(|e| e.to_string())));
    let tx2 = spend_tx(&[(ckb_types::packed::OutPoint::new(tx1.hash(), 0), { let c: ckb_types::core::Capacity = tx1.outputs().get(0).unwrap().capacity().unpack(); c.as_u64() })], 1, 500, 2);
    let r = tpc.submit_local_tx(tx2.clone());
    println!("submit tx2 -> {:?}", r.map(|r| r.map_err(|e| e.to_string())));
    for i in 0..8 {
        let tmpl = tpc.get_block_template(None, None, None).unwrap().unwrap();
        let block: ckb_types::packed::Block = tmpl.clone().into();
        let block = block.into_view();
        let r = node.process(&block);
        let info = tpc.get_tx_pool_info().unwrap();
        println!(
            "mine {} txs={} proposals={} -> {:?}; pool pending={} proposed={}",
            block.number(), block.transactions().len(), block.data().proposals().len(), r, info.pending_size, info.proposed_size
        );
        assert_eq!(r, Ok(true), "template {i} rejected");
        std::thread::sleep(std::time::Duration::from_millis(50));
    }
    println!("tx2 committed: {}", node.store().get_transaction_info(&tx2.hash()).is_some());
    let _ = std::fs::remove_dir_all(&base);
    println!("selftest pool ok");
    std::process::exit(0);
}
