//! `vh-node selftest`: exercises node.rs — builds a tree with forks, proposals and committed
//! transactions and feeds it to a real fully-verifying node.
use crate::common::*;
use crate::node::*;
use ckb_store::ChainStore;

pub fn run(opts: &Opts) {
    let base = scratch_dir(&opts.out, "selftest");
    let cfg = NodeCfg { epoch_len: 5, window: (2, 4), with_pool: false, ..Default::default() };
    let consensus = make_consensus(&cfg);
    let node = Node::start(&base.join("node"), consensus.clone(), &cfg);
    let mut b = ChainBuilder::new(consensus.clone(), &base.join("builder"));
    let g = consensus.genesis_hash();
    let cells = genesis_cells(&consensus);
    let tx1 = spend_tx(&cells[0..1], 2, 1000, 1);
    let mut tip = g.clone();
    let mut chain = vec![];
    for n in 1..=14u64 {
        let mut spec = BlockSpec { salt: n, ..Default::default() };
        if n == 2 {
            spec.proposals = vec![tx1.proposal_short_id()];
        }
        if n == 5 {
            spec.txs = vec![tx1.clone()];
        }
        let blk = b.build(&tip, &spec);
        let r = node.process(&blk);
        println!("main {} epoch {} -> {:?}", blk.number(), blk.epoch(), r);
        assert_eq!(r, Ok(true));
        tip = blk.hash();
        chain.push(blk);
    }
    // fork from block 3, longer
    let mut ftip = chain[2].hash();
    for n in 4..=16u64 {
        let blk = b.build(&ftip, &BlockSpec { salt: 100 + n, ..Default::default() });
        let r = node.process(&blk);
        println!("fork {} -> {:?} tip={}", blk.number(), r, node.tip().number());
        assert_eq!(r, Ok(true));
        ftip = blk.hash();
    }
    assert_eq!(node.tip_hash(), ftip);
    // invalid: cellbase overpays by 1 shannon
    let bad = b.build(&ftip, &BlockSpec { salt: 999, tweak: Tweak::CellbaseCapacity(1), ..Default::default() });
    let r = node.process(&bad);
    println!("bad -> {:?}", r);
    assert!(r.is_err());
    assert_eq!(node.tip_hash(), ftip);
    println!("tx1 on main chain now? {:?}", node.store().get_transaction_info(&tx1.hash()).is_some());
    // restart
    let dir = node.dir.clone();
    node.stop();
    let node2 = Node::start(&dir, consensus.clone(), &cfg);
    assert_eq!(node2.tip_hash(), ftip);
    println!("restart ok, tip {}", node2.tip().number());
    node2.stop();
    drop(b);
    let _ = std::fs::remove_dir_all(&base);
    println!("selftest ok");
}
