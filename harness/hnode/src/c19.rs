//! C19, node level — the chain service's own MMR handling on a real node with forks.
//!
//! A real node (`Shared` + chain service, RocksDB) is fed valid blocks built on arbitrary parents by
//! `node::ChainBuilder` (which computes each block's chain-root extension over a *fresh linear
//! store of that block's own ancestors*).  The node re-creates its MMR at the fork point over the
//! uncleaned COLUMN_CHAIN_ROOT_MMR on every reorg (chain/src/verify.rs); if a stale node were read,
//! `BlockExtensionVerifier` would reject a valid block or the served roots would differ.
//!
//! Protocol (model side: `ckbmodel_c19 C19 node`, lean/CkbVerif/Driver/C19.lean):
//!   blk <id> <parent>            -> ok          valid block on any known parent: must be accepted
//!   bad <id> <parent>            -> rejected    same, first byte of the committed root flipped
//!   main <id,id,..>              -> root <term> the node's main chain (block 1..tip; genesis = L0),
//!                                               root = Snapshot::chain_root_mmr(tip).get_root()
//!   rootat <n>                   -> root <term> Snapshot::chain_root_mmr(n).get_root()
//!   ext <n>                      -> ext <term>  main-chain block n commits the root over blocks 0..n-1
//!   proof <n> <idx,..>           -> proof <size> <term;..>   chain_root_mmr(n).gen_proof(..)
//!   bp <lastId> <id,id,..>       -> the reply of the real LightClientProtocol to a GetBlocksProof message
//!                                   (last_hash = block lastId, block_hashes = the ids; 7777xxxxx = unknown hash):
//!                                   proof <term;..> root <term> headers=<ids> missing=<k> | tip <id> root <term|-> | banned | err | panic
//!   extv <parentN> <len|none> <at:K|flip> <x|->
//!                                -> the real BlockExtensionVerifier (through ContextualBlockVerifier with every other
//!                                   check switched off) on a candidate child of main-chain block parentN whose extension
//!                                   has <len> bytes starting with the hash of the chain root over blocks 0..K (or that of
//!                                   0..parentN with one bit flipped); x = header extra_hash corrupted:
//!                                   ok | NoBlockExtension | EmptyBlockExtension | ExceededMaximumBlockExtensionBytes | InvalidBlockExtension | InvalidChainRoot | InvalidExtraHash
//!   lsp <lastId> <startId> <startNum> <lastN> <boundary> <d,d,..> <kind> <numbers>
//!                                -> GetLastStateProof through the real handler; <kind> and <numbers> are what the
//!                                   real reply was (the sampling logic is not modelled): proof <term;..> root <term> roots=<term;..> | <kind>
//!   nodes                        -> nodes <size> <term;..>   the raw COLUMN_CHAIN_ROOT_MMR rows (ChainStore::get_header_digest(pos)
//!                                   on the node's snapshot) for EVERY position below leaf_index_to_mmr_size(tip); each is compared
//!                                   with an independently computed node array over the main chain's digests (real merge) and,
//!                                   as a merge term, with the model's own store (`none` = row missing)
//!   xblk <id> <parent> <len|none> <at:K|of:ID|flip>
//!                                -> ok | rejected   a fully valid block on <parent> (any known block) whose extension is replaced:
//!                                   <len> bytes (none = no extension field) starting with the hash of the chain root over the
//!                                   first K+1 blocks of the parent's own ancestor path (at:K), over genesis..=block ID (of:ID),
//!                                   or over all ancestors with one bit flipped (flip), padded with 0xAB / truncated to <len>;
//!                                   the header's extra_hash is recomputed, the block is submitted through the chain service.
//!                                   A block that does not become the best chain is stored unverified (ok); a later block whose
//!                                   not yet verified ancestors include a non-conforming one is rejected when it would overtake.
//!                                   `blk` answers `rejected` in exactly that situation.
//! A block id encodes its number: id % 10000.
//!
//! Besides the random generator, three structured generators run in EVERY run (see `gen_aba_case`, `gen_xblk_case`):
//! A->B->A' reorgs (re-attaching already verified blocks), extension boundaries through real submission incl. a failed
//! reorg over a bad side-branch block, and light-client proofs spanning the fork point after each step.
//! VERIF_C19_SELFTEST=stale-row | abandoned-root | skip-filter (off by default) make the harness's ORACLE deliberately wrong in
//! one clause (compare rows against the previous main chain / treat the current root as the abandoned one / pretend one
//! main-chain filter is missing) to confirm that bin/check reports a VIOLATION; never set in normal runs.
use crate::common::*;
use crate::node::*;
#[path = "../../hcore/src/c19.rs"]
mod core19;
use ckb_merkle_mountain_range::{leaf_index_to_mmr_size, leaf_index_to_pos, Merge};
use ckb_store::ChainStore;
use ckb_types::core::BlockView;
use ckb_types::packed::{Byte32, HeaderDigest};
use ckb_types::prelude::*;
use ckb_types::utilities::merkle_mountain_range::MergeHeaderDigest;
use core19::{join, parse_list, record, term_of, RecMerge};
use std::collections::HashMap;


/// Recording mock of `CKBProtocolContext` (copied from util/light-client-protocol-server/src/tests/utils/network_context.rs,
/// which is `cfg(test)`-only in /repo).
#[allow(dead_code, clippy::all)]
mod lcctx {
    use std::cell::RefCell;
    use std::collections::HashSet;
    use std::future::Future;
    use std::pin::Pin;
    use std::sync::Arc;
    use std::time::Duration;

    use ckb_network::{
        Behaviour, CKBProtocolContext, Error, Peer, PeerIndex, ProtocolId, SupportProtocols,
        TargetSession, async_trait, bytes::Bytes as P2pBytes,
    };

    struct MockProtocolContext {
        protocol: SupportProtocols,
        sent_messages: RefCell<Vec<(ProtocolId, PeerIndex, P2pBytes)>>,
        banned_peers: RefCell<Vec<(PeerIndex, Duration, String)>>,
        connected_peers: RefCell<HashSet<PeerIndex>>,
    }

    pub struct MockNetworkContext {
        inner: Arc<MockProtocolContext>,
    }

    // test mock context with single thread
    unsafe impl Send for MockProtocolContext {}
    unsafe impl Sync for MockProtocolContext {}

    impl MockProtocolContext {
        fn new(protocol: SupportProtocols) -> Self {
            Self {
                protocol,
                sent_messages: Default::default(),
                banned_peers: Default::default(),
                connected_peers: Default::default(),
            }
        }
    }

    impl MockNetworkContext {
        pub fn new(protocol: SupportProtocols) -> Self {
            let context = MockProtocolContext::new(protocol);
            let inner = Arc::new(context);
            Self { inner }
        }

        pub fn sent_messages(&self) -> &RefCell<Vec<(ProtocolId, PeerIndex, P2pBytes)>> {
            &self.inner.sent_messages
        }

        pub fn banned_peers(&self) -> &RefCell<Vec<(PeerIndex, Duration, String)>> {
            &self.inner.banned_peers
        }

        pub fn has_banned(&self, target: PeerIndex) -> Option<(Duration, String)> {
            self.banned_peers()
                .borrow()
                .iter()
                .find(|(peer, _, _)| *peer == target)
                .map(|(_, duration, reason)| (*duration, reason.clone()))
        }

        pub fn not_banned(&self, target: PeerIndex) -> bool {
            self.has_banned(target)
                .map(|(_, reason)| {
                    eprintln!("Banned due to {reason}");
                    false
                })
                .unwrap_or(true)
        }

        pub fn context(&self) -> Arc<dyn CKBProtocolContext + Sync> {
            Arc::clone(&self.inner) as Arc<dyn CKBProtocolContext + Sync>
        }
    }

    #[async_trait]
    impl CKBProtocolContext for MockProtocolContext {
        async fn set_notify(&self, _interval: Duration, _token: u64) -> Result<(), Error> {
            // NOTE: no need to mock this function, just call protocol.notify(token) in
            // test code to test the functionality of the protocol.
            unimplemented!()
        }
        async fn remove_notify(&self, _token: u64) -> Result<(), Error> {
            unimplemented!()
        }
        async fn async_quick_send_message(
            &self,
            _proto_id: ProtocolId,
            _peer_index: PeerIndex,
            _data: P2pBytes,
        ) -> Result<(), Error> {
            unimplemented!();
        }
        async fn async_quick_send_message_to(
            &self,
            _peer_index: PeerIndex,
            _data: P2pBytes,
        ) -> Result<(), Error> {
            unimplemented!();
        }
        async fn async_quick_filter_broadcast(
            &self,
            _target: TargetSession,
            _data: P2pBytes,
        ) -> Result<(), Error> {
            unimplemented!();
        }
        async fn async_future_task(
            &self,
            _task: Pin<Box<dyn Future<Output = ()> + 'static + Send>>,
            _blocking: bool,
        ) -> Result<(), Error> {
            Ok(())
        }
        async fn async_send_message(
            &self,
            proto_id: ProtocolId,
            peer_index: PeerIndex,
            data: P2pBytes,
        ) -> Result<(), Error> {
            self.send_message(proto_id, peer_index, data)
        }
        async fn async_send_message_to(
            &self,
            peer_index: PeerIndex,
            data: P2pBytes,
        ) -> Result<(), Error> {
            let protocol_id = self.protocol_id();
            self.send_message(protocol_id, peer_index, data)
        }
        async fn async_filter_broadcast_with_proto(
            &self,
            proto_id: ProtocolId,
            target: TargetSession,
            data: P2pBytes,
        ) -> Result<(), Error> {
            self.quick_filter_broadcast_with_proto(proto_id, target, data)
        }
        async fn async_quick_filter_broadcast_with_proto(
            &self,
            proto_id: ProtocolId,
            target: TargetSession,
            data: P2pBytes,
        ) -> Result<(), Error> {
            self.quick_filter_broadcast_with_proto(proto_id, target, data)
        }
        fn quick_send_message(
            &self,
            proto_id: ProtocolId,
            peer_index: PeerIndex,
            data: P2pBytes,
        ) -> Result<(), Error> {
            self.send_message(proto_id, peer_index, data)
        }
        fn quick_send_message_to(&self, peer_index: PeerIndex, data: P2pBytes) -> Result<(), Error> {
            let protocol_id = self.protocol_id();
            self.send_message(protocol_id, peer_index, data)
        }
        fn quick_filter_broadcast_with_proto(
            &self,
            proto_id: ProtocolId,
            target: TargetSession,
            data: P2pBytes,
        ) -> Result<(), Error> {
            match target {
                TargetSession::Single(peer) => self.send_message(proto_id, peer, data)?,
                TargetSession::Filter(mut peers) => {
                    let all = self.connected_peers();
                    for peer in all {
                        if peers(&peer) {
                            self.send_message(proto_id, peer, data.clone())?;
                        }
                    }
                }
                TargetSession::Multi(iter) => {
                    for peer in iter {
                        self.send_message(proto_id, peer, data.clone())?;
                    }
                }
                TargetSession::All => {
                    unimplemented!();
                }
            }
            Ok(())
        }

        async fn async_filter_broadcast(
            &self,
            _target: TargetSession,
            _data: P2pBytes,
        ) -> Result<(), Error> {
            unimplemented!();
        }
        async fn async_disconnect(&self, _peer_index: PeerIndex, _message: &str) -> Result<(), Error> {
            unimplemented!();
        }
        fn quick_filter_broadcast(&self, _target: TargetSession, _data: P2pBytes) -> Result<(), Error> {
            unimplemented!();
        }
        fn future_task(
            &self,
            _task: Pin<Box<dyn Future<Output = ()> + 'static + Send>>,
            _blocking: bool,
        ) -> Result<(), Error> {
            Ok(())
        }
        fn send_message(
            &self,
            proto_id: ProtocolId,
            peer_index: PeerIndex,
            data: P2pBytes,
        ) -> Result<(), Error> {
            self.sent_messages
                .borrow_mut()
                .push((proto_id, peer_index, data));
            Ok(())
        }
        fn send_message_to(&self, peer_index: PeerIndex, data: P2pBytes) -> Result<(), Error> {
            let protocol_id = self.protocol_id();
            self.send_message(protocol_id, peer_index, data)
        }

        fn filter_broadcast(&self, _target: TargetSession, _data: P2pBytes) -> Result<(), Error> {
            unimplemented!();
        }
        fn disconnect(&self, peer_index: PeerIndex, _message: &str) -> Result<(), Error> {
            self.connected_peers.borrow_mut().remove(&peer_index);
            Ok(())
        }
        fn get_peer(&self, _peer_index: PeerIndex) -> Option<Peer> {
            unimplemented!();
        }
        fn with_peer_mut(&self, _peer_index: PeerIndex, _f: Box<dyn FnOnce(&mut Peer)>) {
            unimplemented!();
        }
        fn connected_peers(&self) -> Vec<PeerIndex> {
            self.connected_peers.borrow().iter().cloned().collect()
        }
        fn full_relay_connected_peers(&self) -> Vec<PeerIndex> {
            vec![]
        }
        fn report_peer(&self, _peer_index: PeerIndex, _behaviour: Behaviour) {
            unimplemented!();
        }
        fn ban_peer(&self, peer_index: PeerIndex, duration: Duration, reason: String) {
            self.banned_peers
                .borrow_mut()
                .push((peer_index, duration, reason));
        }
        fn protocol_id(&self) -> ProtocolId {
            self.protocol.protocol_id()
        }
    }
}

/// carry-style chain root with a merge function (real or recording); records every partial bag
fn spec_root<M: Merge<Item = HeaderDigest>>(ds: &[HeaderDigest]) -> Option<HeaderDigest> {
    let mut mountains: Vec<(u32, HeaderDigest)> = vec![];
    for d in ds {
        let mut cur = (0u32, d.clone());
        while let Some((h, _)) = mountains.last() {
            if *h != cur.0 {
                break;
            }
            let (_, left) = mountains.pop().unwrap();
            cur = (cur.0 + 1, M::merge(&left, &cur.1).ok()?);
        }
        mountains.push(cur);
    }
    let mut acc = mountains.pop()?.1;
    while let Some((_, left)) = mountains.pop() {
        acc = M::merge(&left, &acc).ok()?;
    }
    Some(acc)
}

struct NSim {
    node: Option<Node>,
    builder: ChainBuilder,
    /// id -> block
    blocks: HashMap<u64, BlockView>,
    by_hash: HashMap<Byte32, u64>,
    /// hash-of-root -> term (for extension commitments)
    hash_terms: HashMap<Vec<u8>, String>,
    main: Vec<u64>,
    reorgs: u64,
    /// id -> parent id (every delivered block)
    parent: HashMap<u64, u64>,
    /// stored blocks whose extension does not conform (absent / short / long / wrong root): must never be on the main chain
    badext: std::collections::HashSet<u64>,
    /// blocks the node rejected (deleted from its store)
    gone: std::collections::HashSet<u64>,
    /// earlier main chains that were (partly) abandoned by a reorg, most recent last
    abandoned: Vec<Vec<u64>>,
    /// re-attached (previously verified) blocks seen in reorgs
    reattached: u64,
    selftest: String,
    /// whether the `tdinfo` line of this case has been written
    td_emitted: bool,
}

/// the full MMR node array (post-order positions) over a digest list: the property's own definition of what
/// COLUMN_CHAIN_ROOT_MMR must hold below the size of the chain; independent of the crate's position arithmetic
fn spec_nodes<M: Merge<Item = HeaderDigest>>(ds: &[HeaderDigest]) -> Vec<HeaderDigest> {
    let mut nodes: Vec<HeaderDigest> = vec![];
    let mut stack: Vec<(u32, HeaderDigest)> = vec![];
    for d in ds {
        nodes.push(d.clone());
        stack.push((0, d.clone()));
        while stack.len() >= 2 && stack[stack.len() - 1].0 == stack[stack.len() - 2].0 {
            let (h, r) = stack.pop().unwrap();
            let (_, l) = stack.pop().unwrap();
            let m = M::merge(&l, &r).expect("merge of consecutive digests");
            nodes.push(m.clone());
            stack.push((h + 1, m));
        }
    }
    nodes
}

impl NSim {
    fn new(base: &std::path::Path, epoch_len: u64) -> NSim {
        let _ = std::fs::remove_dir_all(base);
        let cfg = NodeCfg { epoch_len, window: (2, 4), with_pool: false, ..Default::default() };
        let consensus = make_consensus(&cfg);
        let node = Node::start(&base.join("node"), consensus.clone(), &cfg);
        let builder = ChainBuilder::new(consensus.clone(), &base.join("builder"));
        let g = builder.genesis();
        let mut s = NSim {
            node: Some(node), builder, blocks: HashMap::new(), by_hash: HashMap::new(), hash_terms: HashMap::new(), main: vec![], reorgs: 0,
            parent: HashMap::new(), badext: Default::default(), gone: Default::default(), abandoned: vec![], reattached: 0,
            selftest: std::env::var("VERIF_C19_SELFTEST").unwrap_or_default(),
            td_emitted: false,
        };
        s.by_hash.insert(g.hash(), 0);
        record(&g.header().digest(), "L0".into());
        s.blocks.insert(0, g);
        s
    }

    fn node(&self) -> &Node {
        self.node.as_ref().unwrap()
    }

    /// ids of the node's main chain, blocks 1..=tip
    fn node_main(&self) -> Vec<u64> {
        let snap = self.node().shared.snapshot();
        let tip = snap.tip_header().number();
        (1..=tip).map(|n| *self.by_hash.get(&snap.get_block_hash(n).expect("index")).expect("main-chain block unknown to the harness")).collect()
    }

    fn digests(&self, upto: usize) -> Vec<HeaderDigest> {
        let mut v = vec![self.blocks[&0].header().digest()];
        for id in &self.main[..upto] {
            v.push(self.blocks[id].header().digest());
        }
        v
    }

    /// ids of the ancestor path genesis-exclusive ..= id (empty for genesis)
    fn path_ids(&self, id: u64) -> Vec<u64> {
        let mut v = vec![];
        let mut cur = id;
        while cur != 0 {
            v.push(cur);
            cur = *self.parent.get(&cur).expect("parent of a delivered block");
        }
        v.reverse();
        v
    }

    fn digests_of(&self, ids: &[u64]) -> Vec<HeaderDigest> {
        std::iter::once(0u64).chain(ids.iter().copied()).map(|i| self.blocks[&i].header().digest()).collect()
    }

    /// root (real merge; terms recorded) of the chain genesis + ids
    fn root_of_ids(&mut self, ids: &[u64]) -> HeaderDigest {
        let ds = self.digests_of(ids);
        let rec = spec_root::<RecMerge>(&ds).expect("spec root");
        let real = spec_root::<MergeHeaderDigest>(&ds).expect("spec root");
        assert_eq!(rec.as_slice(), real.as_slice());
        self.hash_terms.insert(real.calc_mmr_hash().as_slice().to_vec(), term_of(&real));
        real
    }

    /// the property "a block with a non-conforming extension is never on the main chain", on the node's own index
    fn check_main_clean(&self, out: &mut Out, line: &str) {
        let snap = self.node().shared.snapshot();
        let tip = snap.tip_header().number();
        for n in 1..=tip {
            match self.by_hash.get(&snap.get_block_hash(n).expect("index")) {
                None => out.oracle_fail("unknown-block-on-main-chain", &format!("{line}: height {n}")),
                Some(id) if self.badext.contains(id) || self.gone.contains(id) => out.oracle_fail("bad-extension-block-attached", &format!("{line}: block {id} at height {n}")),
                _ => {}
            }
        }
    }

    /// roots of the abandoned chains' first n+1 blocks (0..=n) that differ from `current` (real merge)
    fn abandoned_roots(&mut self, n: u64, current: &HeaderDigest) -> Vec<HeaderDigest> {
        let mut v = vec![];
        for ch in self.abandoned.clone() {
            if (ch.len() as u64) < n || ch[..n as usize] == self.main[..(n as usize).min(self.main.len())] {
                continue;
            }
            let r = self.root_of_ids(&ch[..n as usize]);
            if r.as_slice() != current.as_slice() {
                v.push(r);
            }
        }
        if self.selftest == "abandoned-root" {
            v.push(current.clone());
        }
        v
    }

    /// record the terms of all nodes / bags of the MMR over main-chain blocks 0..=n, return (real-merge root, its term)
    fn expected_root(&mut self, n: u64) -> HeaderDigest {
        let ds = self.digests(n as usize);
        let rec = spec_root::<RecMerge>(&ds).expect("spec root");
        let real = spec_root::<MergeHeaderDigest>(&ds).expect("spec root");
        assert_eq!(rec.as_slice(), real.as_slice());
        self.hash_terms.insert(real.calc_mmr_hash().as_slice().to_vec(), term_of(&real));
        real
    }

    fn exec(&mut self, out: &mut Out, line: &str) {
        let t: Vec<&str> = line.split_whitespace().collect();
        let ans = match t[0] {
            "blk" | "bad" => {
                let id: u64 = t[1].parse().unwrap();
                let parent: u64 = t[2].parse().unwrap();
                let ph = self.blocks.get(&parent).expect("unknown parent").hash();
                let spec = BlockSpec { salt: id, tweak: if t[0] == "bad" { Tweak::Extension } else { Tweak::None }, ..Default::default() };
                let blk = self.builder.build(&ph, &spec);
                assert_eq!(blk.number(), id % 10000, "id must encode the block number");
                out.count(t[0]);
                let r = self.node().process(&blk);
                if t[0] == "blk" {
                    record(&blk.header().digest(), format!("L{id}"));
                    self.by_hash.insert(blk.hash(), id);
                    self.blocks.insert(id, blk);
                    self.parent.insert(id, parent);
                    // a descendant of a stored, never verified block with a non-conforming extension is not a valid block
                    let bad_ancestor = self.path_ids(parent).iter().any(|a| self.badext.contains(a) || self.gone.contains(a));
                    let ans = match r {
                        Ok(_) => "ok".to_string(),
                        Err(e) => {
                            if !bad_ancestor {
                                out.oracle_fail("valid-block-rejected", &format!("{line}: {e}"));
                            } else {
                                out.count("blk-on-bad-branch-rejected");
                            }
                            self.gone.insert(id);
                            "rejected".into()
                        }
                    };
                    self.check_main_clean(out, line);
                    ans
                } else {
                    // the parent is the tip, so this block would become the best chain and is fully verified
                    assert_eq!(self.main.last().copied().unwrap_or(0), parent, "bad blocks are only offered on the tip");
                    let ans = match r {
                        Err(_) => "rejected".to_string(),
                        Ok(_) => {
                            out.oracle_fail("wrong-chain-root-accepted", line);
                            "ok".into()
                        }
                    };
                    self.check_main_clean(out, line);
                    ans
                }
            }
            "xblk" => {
                let id: u64 = t[1].parse().unwrap();
                let parent: u64 = t[2].parse().unwrap();
                let ph = self.blocks.get(&parent).expect("unknown parent").hash();
                // a fully valid block (the Extension tweak only keeps the builder from attaching it to its branch store)
                let base = self.builder.build(&ph, &BlockSpec { salt: id, tweak: Tweak::Extension, ..Default::default() });
                assert_eq!(base.number(), id % 10000, "id must encode the block number");
                let path = self.path_ids(parent);
                let full = self.root_of_ids(&path).calc_mmr_hash().as_slice().to_vec();
                let root_hash: Vec<u8> = if let Some(k) = t[4].strip_prefix("at:") {
                    let k: usize = k.parse().unwrap();
                    self.root_of_ids(&path[..k]).calc_mmr_hash().as_slice().to_vec()
                } else if let Some(o) = t[4].strip_prefix("of:") {
                    let p2 = self.path_ids(o.parse().unwrap());
                    self.root_of_ids(&p2).calc_mmr_hash().as_slice().to_vec()
                } else {
                    assert_eq!(t[4], "flip");
                    let mut h = full.clone();
                    h[0] ^= 1;
                    h
                };
                let ext: Option<ckb_types::packed::Bytes> = if t[3] == "none" {
                    None
                } else {
                    let len: usize = t[3].parse().unwrap();
                    let mut bytes = root_hash.clone();
                    bytes.resize(len.max(32), 0xAB);
                    bytes.truncate(len);
                    Some(ckb_types::bytes::Bytes::from(bytes).pack())
                };
                // the property's own notion of a conforming extension, on the bytes actually submitted
                let conforming = ext.as_ref().map(|e| { let raw = e.raw_data(); raw.len() >= 32 && raw.len() <= 96 && raw[..32] == full[..] }).unwrap_or(false);
                let blk = base.as_advanced_builder().extension(ext).build();
                assert_eq!(blk.data().count_extra_fields(), if t[3] == "none" { 0 } else { 1 });
                assert_eq!(blk.calc_extra_hash().extra_hash(), blk.extra_hash(), "extra_hash consistent");
                assert_eq!(blk.number(), base.number());
                let tip_before = self.node().tip().number();
                let would_be_best = blk.number() > tip_before;
                let bad_ancestor = path.iter().any(|a| self.badext.contains(a) || self.gone.contains(a));
                out.count("xblk");
                out.count(if conforming { "xblk-conforming" } else { "xblk-nonconforming" });
                if !would_be_best { out.count("xblk-side-branch"); }
                let r = self.node().process(&blk);
                record(&blk.header().digest(), format!("L{id}"));
                self.by_hash.insert(blk.hash(), id);
                self.builder.blocks.insert(blk.hash(), blk.clone());
                self.blocks.insert(id, blk);
                self.parent.insert(id, parent);
                if !conforming {
                    self.badext.insert(id);
                }
                let ans = match r {
                    Ok(_) => {
                        if !conforming && would_be_best {
                            out.oracle_fail("wrong-chain-root-accepted", &format!("{line}: non-conforming extension accepted as the best chain"));
                        }
                        "ok".to_string()
                    }
                    Err(e) => {
                        if conforming && !bad_ancestor {
                            out.oracle_fail("valid-block-rejected", &format!("{line}: {e}"));
                        }
                        self.gone.insert(id);
                        "rejected".into()
                    }
                };
                self.check_main_clean(out, line);
                ans
            }
            "nodes" => {
                use ckb_merkle_mountain_range::leaf_index_to_mmr_size as l2s;
                out.count("nodes");
                let snap = self.node().shared.snapshot();
                let tip = snap.tip_header().number();
                assert_eq!(tip as usize, self.main.len(), "`nodes` after a `main` line");
                let size = l2s(tip);
                // oracle: the node array over the main chain's digests (selftest: over the previous main chain)
                let ids: Vec<u64> = if self.selftest == "stale-row" && !self.abandoned.is_empty() { self.abandoned.last().unwrap().clone() } else { self.main.clone() };
                let ds = self.digests_of(&ids);
                let rec = spec_nodes::<RecMerge>(&ds);
                let want = spec_nodes::<MergeHeaderDigest>(&self.digests_of(&ids));
                assert_eq!(rec.len(), want.len());
                if self.selftest != "stale-row" {
                    assert_eq!(want.len() as u64, size, "node count of the spec array = leaf_index_to_mmr_size(tip)");
                }
                let mut terms = vec![];
                for pos in 0..size {
                    match snap.get_header_digest(pos) {
                        Some(d) => {
                            if want.get(pos as usize).map(|w| w.as_slice() != d.as_slice()).unwrap_or(true) {
                                out.oracle_fail("mmr-row-not-node-of-main-chain", &format!("{line}: position {pos} of {size}"));
                            }
                            terms.push(term_of(&d));
                        }
                        None => {
                            out.oracle_fail("mmr-row-missing", &format!("{line}: position {pos} of {size}"));
                            terms.push("none".to_string());
                        }
                    }
                }
                format!("nodes {size} {}", join(&terms, ";"))
            }
            "main" => {
                let ids = parse_list(t[1]);
                let actual = self.node_main();
                assert_eq!(ids, actual, "replayed main chain differs from the node's");
                let common = self.main.iter().zip(&ids).take_while(|(a, b)| a == b).count();
                if common < self.main.len() {
                    self.reorgs += 1;
                    out.count("reorg");
                    // blocks attached by this reorg that had been on the main chain before (verified_len > 0 in reconcile_main_chain)
                    let re = ids[common..].iter().filter(|i| self.abandoned.iter().any(|ch| ch.contains(i))).count() as u64;
                    if re > 0 {
                        self.reattached += re;
                        out.count("reorg-reattaching-verified-blocks");
                    }
                    let old = std::mem::take(&mut self.main);
                    self.abandoned.push(old);
                    if self.abandoned.len() > 4 {
                        self.abandoned.remove(0);
                    }
                }
                self.main = ids;
                out.count("main");
                self.check_main_clean(out, line);
                let n = self.main.len() as u64;
                self.root_line(out, line, n)
            }
            "rootat" => {
                out.count("rootat");
                self.root_line(out, line, t[1].parse().unwrap())
            }
            "ext" => {
                let n: u64 = t[1].parse().unwrap();
                out.count("ext");
                let want = self.expected_root(n - 1);
                let blk = &self.blocks[&self.main[n as usize - 1]];
                let ext = blk.extension().expect("extension").raw_data();
                if ext.len() < 32 || ext[..32] != want.calc_mmr_hash().as_slice()[..] {
                    out.oracle_fail("extension-not-root-of-ancestors", line);
                }
                format!("ext {}", self.hash_terms.get(&ext[..32.min(ext.len())].to_vec()).cloned().unwrap_or("?".into()))
            }
            "bp" => {
                use ckb_network::{CKBProtocolHandler, PeerIndex, SupportProtocols};
                use ckb_types::utilities::merkle_mountain_range::{MMRProof, VerifiableHeader};
                let last: u64 = t[1].parse().unwrap();
                let ids = parse_list(t[2]);
                out.count("bp");
                let hash_of = |s: &NSim, id: u64| -> Byte32 { s.blocks.get(&id).map(|b| b.hash()).unwrap_or_else(|| ckb_hash::blake2b_256(id.to_le_bytes()).into()) };
                let last_hash = hash_of(self, last);
                let hashes: Vec<Byte32> = ids.iter().map(|i| hash_of(self, *i)).collect();
                let content = ckb_types::packed::GetBlocksProof::new_builder().last_hash(last_hash).block_hashes(hashes.clone()).build();
                let msg = ckb_types::packed::LightClientMessage::new_builder().set(content).build();
                let nc = lcctx::MockNetworkContext::new(SupportProtocols::LightClient);
                let peer = PeerIndex::new(1);
                let shared = self.node().shared.clone();
                let ctx = nc.context();
                let data = msg.as_bytes();
                let res = std::panic::catch_unwind(std::panic::AssertUnwindSafe(|| {
                    let mut protocol = ckb_light_client_protocol_server::LightClientProtocol::new(shared);
                    runtime_handle().block_on(protocol.received(ctx, peer, data));
                }));
                let main_all: Vec<u64> = std::iter::once(0u64).chain(self.main.iter().copied()).collect();
                let last_on_main = main_all.contains(&last);
                if res.is_err() {
                    out.count("bp-panic");
                    "panic".to_string()
                } else if nc.has_banned(peer).is_some() {
                    "banned".to_string()
                } else if nc.sent_messages().borrow().is_empty() {
                    if last_on_main && last % 10000 > 0 && ids.iter().all(|i| !main_all.contains(i) || i % 10000 < last % 10000) {
                        out.oracle_fail("blocks-proof-not-served", line);
                    }
                    "err".to_string()
                } else {
                    let (_, _, bytes) = nc.sent_messages().borrow()[0].clone();
                    // (the V1 reply travels as the `SendBlocksProof` union item with extra table fields)
                    let reply = ckb_types::packed::LightClientMessage::from_compatible_slice(&bytes).expect("reply").to_enum();
                    let term_of_hash = |s: &mut NSim, n: u64| -> HeaderDigest { s.expected_root(n) };
                    match reply {
                        ckb_types::packed::LightClientMessageUnion::SendBlocksProof(r) if r.last_header().header().into_view().hash() != hash_of(self, last) => {
                            // the "your last block is not on my main chain, here is my tip" answer
                            let vh = r.last_header();
                            let id = *self.by_hash.get(&vh.header().into_view().hash()).expect("tip known");
                            if last_on_main || Some(&id) != main_all.last() {
                                out.oracle_fail("tip-state-reply-wrong", line);
                            }
                            let n = id % 10000;
                            let root = if n == 0 { "-".to_string() } else {
                                let want = term_of_hash(self, n - 1);
                                if want.as_slice() != vh.parent_chain_root().as_slice() {
                                    out.oracle_fail("root-not-mmr-root-of-ancestors", &format!("{line}: tip parent chain root"));
                                }
                                term_of(&vh.parent_chain_root())
                            };
                            format!("tip {id} root {root}")
                        }
                        ckb_types::packed::LightClientMessageUnion::SendBlocksProof(r) if last % 10000 == 0 => {
                            // the genesis block as the last block: there is no chain root before it, nothing can be proved
                            // (lib.rs reply_proof): an empty proof, the default root, every requested hash missing
                            out.count("bp-last-genesis-reply");
                            let vh = r.last_header();
                            if vh.parent_chain_root().as_slice() != HeaderDigest::default().as_slice() || !r.proof().is_empty() || !r.headers().is_empty() {
                                out.oracle_fail("genesis-reply-proves-something", line);
                            }
                            if r.missing_block_hashes().len() != ids.len() {
                                out.oracle_fail("blocks-proof-partition-wrong", &format!("{line}: missing {} of {}", r.missing_block_hashes().len(), ids.len()));
                            }
                            format!("proof - root - headers=- missing={}", r.missing_block_hashes().len())
                        }
                        ckb_types::packed::LightClientMessageUnion::SendBlocksProof(r) => {
                            let vh = r.last_header();
                            let n = last % 10000;
                            let want = term_of_hash(self, n - 1);
                            if want.as_slice() != vh.parent_chain_root().as_slice() {
                                out.oracle_fail("root-not-mmr-root-of-ancestors", &format!("{line}: parent chain root of the last block"));
                            }
                            if !VerifiableHeader::from(vh.clone()).is_valid(0) {
                                out.oracle_fail("last-header-does-not-commit-root", line);
                            }
                            let headers: Vec<ckb_types::core::HeaderView> = r.headers().into_iter().map(|h| h.into_view()).collect();
                            let mut hids = vec![];
                            let mut leaves = vec![];
                            for h in &headers {
                                let id = *self.by_hash.get(&h.hash()).expect("served header known");
                                if !main_all.contains(&id) {
                                    out.oracle_fail("served-header-not-on-main-chain", line);
                                }
                                hids.push(id);
                                leaves.push((leaf_index_to_pos(h.number()), h.digest()));
                            }
                            let items: Vec<HeaderDigest> = r.proof().into_iter().collect();
                            // the partition of the request (property side, on the harness's own view of the main chain):
                            // headers = the requested main-chain blocks in request order, missing = the other hashes in request order
                            let want_found: Vec<u64> = ids.iter().copied().filter(|i| main_all.contains(i)).collect();
                            let want_missing: Vec<Byte32> = ids.iter().filter(|i| !main_all.contains(i)).map(|i| hash_of(self, *i)).collect();
                            let got_missing: Vec<Byte32> = r.missing_block_hashes().into_iter().collect();
                            if hids != want_found || got_missing != want_missing {
                                out.oracle_fail("blocks-proof-partition-wrong", &format!("{line}: headers {hids:?} want {want_found:?}, missing {} want {}", got_missing.len(), want_missing.len()));
                            }
                            if hids.iter().any(|i| i % 10000 >= n) {
                                out.oracle_fail("served-header-not-below-last", line);
                            }
                            // what a light client does: verify the served headers against the committed root
                            if !leaves.is_empty() {
                                let proof = MMRProof::new(leaf_index_to_mmr_size(n - 1), items.clone());
                                if !matches!(proof.verify(vh.parent_chain_root(), leaves.clone()), Ok(true)) {
                                    out.oracle_fail("served-proof-does-not-verify", line);
                                }
                                if n > 1 {
                                    // ... and not against the chain one block shorter
                                    let other = term_of_hash(self, n - 2);
                                    if matches!(MMRProof::new(leaf_index_to_mmr_size(n - 1), items.clone()).verify(other, leaves.clone()), Ok(true)) {
                                        out.oracle_fail("proof-accepted-for-wrong-chain", line);
                                    }
                                }
                                // ... and not against the root an abandoned branch had at the same height
                                for other in self.abandoned_roots(n - 1, &vh.parent_chain_root()) {
                                    out.count("bp-checked-against-abandoned-root");
                                    if matches!(MMRProof::new(leaf_index_to_mmr_size(n - 1), items.clone()).verify(other, leaves.clone()), Ok(true)) {
                                        out.oracle_fail("proof-accepted-for-abandoned-chain", line);
                                    }
                                }
                            }
                            format!("proof {} root {} headers={} missing={}", join(&items.iter().map(term_of).collect::<Vec<_>>(), ";"), term_of(&vh.parent_chain_root()), join(&hids, ","), r.missing_block_hashes().len())
                        }
                        _ => "unexpected-reply".to_string(),
                    }
                }
            }
            "tp" => {
                // GetTransactionsProof through the real handler. A transaction code: k < 1000 = transaction k of the genesis block;
                // 1000 + n = the cellbase of height n (the same transaction on every branch: its hash does not cover the witness,
                // which is all that differs between siblings — asserted below); >= 1_000_000 = a hash nobody knows
                use ckb_network::{CKBProtocolHandler, PeerIndex, SupportProtocols};
                use ckb_types::utilities::merkle_mountain_range::{MMRProof, VerifiableHeader};
                let last: u64 = t[1].parse().unwrap();
                let codes = parse_list(t[2]);
                out.count("tp");
                let hash_of = |s: &NSim, id: u64| -> Byte32 { s.blocks.get(&id).map(|b| b.hash()).unwrap_or_else(|| ckb_hash::blake2b_256(id.to_le_bytes()).into()) };
                let tx_hash = |s: &NSim, c: u64| -> Byte32 {
                    if c < 1000 {
                        s.blocks[&0].transactions().get(c as usize).map(|t| t.hash()).unwrap_or_else(|| ckb_hash::blake2b_256(c.to_le_bytes()).into())
                    } else if c < 1_000_000 {
                        let hs: Vec<Byte32> = s.blocks.iter().filter(|(id, _)| **id % 10000 == c - 1000 && **id != 0).map(|(_, b)| b.transactions()[0].hash()).collect();
                        assert!(hs.windows(2).all(|w| w[0] == w[1]), "harness assumption: one cellbase transaction per height");
                        hs.first().cloned().unwrap_or_else(|| ckb_hash::blake2b_256(c.to_le_bytes()).into())
                    } else {
                        ckb_hash::blake2b_256(c.to_le_bytes()).into()
                    }
                };
                let hashes: Vec<Byte32> = codes.iter().map(|c| tx_hash(self, *c)).collect();
                let content = ckb_types::packed::GetTransactionsProof::new_builder().last_hash(hash_of(self, last)).tx_hashes(hashes.clone()).build();
                let msg = ckb_types::packed::LightClientMessage::new_builder().set(content).build();
                let nc = lcctx::MockNetworkContext::new(SupportProtocols::LightClient);
                let peer = PeerIndex::new(1);
                let shared = self.node().shared.clone();
                let ctx = nc.context();
                let data = msg.as_bytes();
                let res = std::panic::catch_unwind(std::panic::AssertUnwindSafe(|| {
                    let mut protocol = ckb_light_client_protocol_server::LightClientProtocol::new(shared);
                    runtime_handle().block_on(protocol.received(ctx, peer, data));
                }));
                let main_all: Vec<u64> = std::iter::once(0u64).chain(self.main.iter().copied()).collect();
                if res.is_err() {
                    out.oracle_fail("light-client-handler-panic", line);
                    "panic".to_string()
                } else if nc.has_banned(peer).is_some() {
                    "banned".to_string()
                } else if nc.sent_messages().borrow().is_empty() {
                    "err".to_string()
                } else {
                    let (_, _, bytes) = nc.sent_messages().borrow()[0].clone();
                    let reply = ckb_types::packed::LightClientMessage::from_compatible_slice(&bytes).expect("reply").to_enum();
                    match reply {
                        ckb_types::packed::LightClientMessageUnion::SendTransactionsProof(r) if r.last_header().header().into_view().hash() != hash_of(self, last) => {
                            let id = *self.by_hash.get(&r.last_header().header().into_view().hash()).expect("tip known");
                            if main_all.contains(&last) || Some(&id) != main_all.last() {
                                out.oracle_fail("tip-state-reply-wrong", line);
                            }
                            "tip".to_string()
                        }
                        ckb_types::packed::LightClientMessageUnion::SendTransactionsProof(r) => {
                            let vh = r.last_header();
                            let n = last % 10000;
                            let mut blocks: Vec<(u64, u64, Vec<u64>)> = vec![]; // (number, id, tx positions in reply order)
                            let mut leaves = vec![];
                            let mut served: Vec<Byte32> = vec![];
                            for fb in r.filtered_blocks().into_iter() {
                                let header = fb.header().into_view();
                                let id = *self.by_hash.get(&header.hash()).expect("served block known");
                                if main_all.get(header.number() as usize) != Some(&id) {
                                    out.oracle_fail("served-header-not-on-main-chain", line);
                                }
                                let blk = &self.blocks[&id];
                                let all: Vec<Byte32> = blk.transactions().iter().map(|t| t.hash()).collect();
                                let txs: Vec<Byte32> = fb.transactions().into_iter().map(|t| t.calc_tx_hash()).collect();
                                let pos: Vec<u64> = txs.iter().map(|h| all.iter().position(|x| x == h).map(|p| p as u64).unwrap_or(u64::MAX)).collect();
                                if pos.contains(&u64::MAX) {
                                    out.oracle_fail("served-transaction-not-in-block", line);
                                }
                                // what a light client does with a filtered block: the CBMT proof binds the transactions to the
                                // header's transactions_root (= merkle_root([raw transactions root, witnesses root]))
                                let indices: Vec<u32> = fb.proof().indices().into_iter().map(|i| { let v: u32 = i.into(); v }).collect();
                                let lemmas: Vec<Byte32> = fb.proof().lemmas().into_iter().collect();
                                let cproof = ckb_types::utilities::MerkleProof::new(indices.clone(), lemmas);
                                let ok = match cproof.root(&txs) {
                                    Some(raw) => ckb_types::utilities::merkle_root(&[raw, fb.witnesses_root()]) == header.transactions_root(),
                                    None => false,
                                };
                                if !ok {
                                    out.oracle_fail("served-tx-proof-does-not-verify", line);
                                }
                                let mut want_idx: Vec<u32> = pos.iter().map(|p| (*p as u32) + all.len() as u32 - 1).collect();
                                let mut got_idx = indices.clone();
                                want_idx.sort();
                                got_idx.sort();
                                if want_idx != got_idx {
                                    out.oracle_fail("tx-proof-indices-wrong", &format!("{line}: {got_idx:?} want {want_idx:?}"));
                                }
                                if all.len() > 1 { out.count("tp-multi-tx-block"); }
                                served.extend(txs);
                                leaves.push((leaf_index_to_pos(header.number()), header.digest()));
                                blocks.push((header.number(), id, pos));
                            }
                            blocks.sort();
                            // the partition of the request: every requested hash is either served in exactly one block or reported missing
                            let missing: Vec<Byte32> = r.missing_tx_hashes().into_iter().collect();
                            for h in &hashes {
                                let a = served.iter().filter(|x| *x == h).count();
                                let b = missing.iter().filter(|x| *x == h).count();
                                if a + b != 1 {
                                    out.oracle_fail("transactions-proof-partition-wrong", &format!("{line}: a hash served {a} times, missing {b} times"));
                                }
                            }
                            if served.len() + missing.len() != hashes.len() {
                                out.oracle_fail("transactions-proof-partition-wrong", &format!("{line}: {} served + {} missing of {}", served.len(), missing.len(), hashes.len()));
                            }
                            let items: Vec<HeaderDigest> = r.proof().into_iter().collect();
                            let root = if n == 0 {
                                if !blocks.is_empty() || !items.is_empty() || vh.parent_chain_root().as_slice() != HeaderDigest::default().as_slice() {
                                    out.oracle_fail("genesis-reply-proves-something", line);
                                }
                                "-".to_string()
                            } else {
                                let want = self.expected_root(n - 1);
                                if want.as_slice() != vh.parent_chain_root().as_slice() {
                                    out.oracle_fail("root-not-mmr-root-of-ancestors", &format!("{line}: parent chain root of the last block"));
                                }
                                if !VerifiableHeader::from(vh.clone()).is_valid(0) {
                                    out.oracle_fail("last-header-does-not-commit-root", line);
                                }
                                if !leaves.is_empty() {
                                    leaves.sort_by_key(|x| x.0);
                                    if !matches!(MMRProof::new(leaf_index_to_mmr_size(n - 1), items.clone()).verify(vh.parent_chain_root(), leaves.clone()), Ok(true)) {
                                        out.oracle_fail("served-proof-does-not-verify", line);
                                    }
                                    for other in self.abandoned_roots(n - 1, &vh.parent_chain_root()) {
                                        out.count("tp-checked-against-abandoned-root");
                                        if matches!(MMRProof::new(leaf_index_to_mmr_size(n - 1), items.clone()).verify(other, leaves.clone()), Ok(true)) {
                                            out.oracle_fail("proof-accepted-for-abandoned-chain", line);
                                        }
                                    }
                                }
                                term_of(&vh.parent_chain_root())
                            };
                            if !blocks.is_empty() { out.count("tp-proof-with-blocks"); }
                            let bl: Vec<String> = blocks.iter().map(|(_, id, pos)| format!("{id}:{}", join(pos, ","))).collect();
                            format!("proof {} root {root} blocks={} missing={}", join(&items.iter().map(term_of).collect::<Vec<_>>(), ";"), join(&bl, "/"), missing.len())
                        }
                        _ => "unexpected-reply".to_string(),
                    }
                }
            }
            "extv" => {
                use ckb_verification_contextual::{ContextualBlockVerifier, VerifyContext};
                use ckb_verification_traits::Switch;
                let pn: u64 = t[1].parse().unwrap();
                out.count("extv");
                let main_all: Vec<u64> = std::iter::once(0u64).chain(self.main.iter().copied()).collect();
                let parent = self.blocks[&main_all[pn as usize]].header();
                let root_hash: Vec<u8> = if let Some(k) = t[3].strip_prefix("at:") {
                    self.expected_root(k.parse().unwrap()).calc_mmr_hash().as_slice().to_vec()
                } else {
                    let mut h = self.expected_root(pn).calc_mmr_hash().as_slice().to_vec();
                    h[0] ^= 1;
                    h
                };
                let ext: Option<ckb_types::packed::Bytes> = if t[2] == "none" {
                    None
                } else {
                    let len: usize = t[2].parse().unwrap();
                    let mut bytes = root_hash.clone();
                    bytes.resize(len.max(32), 0xAB);
                    bytes.truncate(len);
                    Some(ckb_types::bytes::Bytes::from(bytes).pack())
                };
                let builder = ckb_types::core::BlockBuilder::default()
                    .parent_hash(parent.hash())
                    .number(pn + 1)
                    .epoch(ckb_types::core::EpochNumberWithFraction::new(parent.epoch().number(), 1, 2).full_value())
                    .extension(ext);
                // `build` computes the header's extra_hash from uncles + extension; `build_unchecked` keeps the (zero) one
                let block = if t[4] == "x" { builder.build_unchecked() } else { builder.build() };
                assert_eq!(block.data().count_extra_fields(), if t[2] == "none" { 0 } else { 1 });
                let snap = self.node().shared.snapshot();
                let mmr = snap.chain_root_mmr(pn);
                let ctx = VerifyContext::new(std::sync::Arc::clone(&snap), std::sync::Arc::new(self.node().consensus.clone()));
                let handle = runtime_handle();
                let cache = self.node().shared.txs_verify_cache();
                let switch = Switch::DISABLE_ALL - Switch::DISABLE_EXTENSION;
                let verifier = ContextualBlockVerifier::new(ctx, &handle, switch, cache, &mmr);
                let r = verifier.verify(&[], &block);
                let ans = match &r {
                    Ok(_) => "ok".to_string(),
                    Err(e) => {
                        let d = format!("{e:?}");
                        ["NoBlockExtension", "EmptyBlockExtension", "ExceededMaximumBlockExtensionBytes", "InvalidBlockExtension", "InvalidChainRoot", "InvalidExtraHash", "UnknownFields"]
                            .iter().find(|k| d.contains(*k)).map(|k| k.to_string()).unwrap_or_else(|| format!("other:{}", d.chars().take(60).collect::<String>().replace(' ', "_")))
                    }
                };
                // the property: accepted => the extension starts with the hash of the root over ALL ancestors
                let commits = t[3] == format!("at:{pn}") && t[2] != "none" && t[2].parse::<usize>().unwrap() >= 32;
                if r.is_ok() && !commits {
                    out.oracle_fail("wrong-chain-root-accepted", line);
                }
                if commits && t[4] != "x" && t[2].parse::<usize>().unwrap() <= 96 && r.is_err() {
                    out.oracle_fail("valid-extension-rejected", &format!("{line}: {ans}"));
                }
                ans
            }
            "tdinfo" => {
                let d0 = self.genesis_td();
                assert_eq!(d0.to_string(), t[1], "replayed tdinfo differs from the node's genesis difficulty");
                self.td_emitted = true;
                "ok".to_string()
            }
            "lsp" => {
                if !self.td_emitted {
                    // the model computes the sampling itself: it needs the total difficulties of the main chain
                    // (permanent difficulty, no uncles: block n has (n + 1) * d0)
                    let d0 = self.genesis_td();
                    out.op(&format!("tdinfo {d0}"), "ok");
                    self.td_emitted = true;
                }
                {
                    let d0 = self.genesis_td();
                    let snap = self.node().shared.snapshot();
                    for n in 0..=snap.tip_header().number() {
                        let ext = snap.get_block_ext(&snap.get_block_hash(n).expect("index")).expect("ext");
                        assert_eq!(ext.total_difficulty, ckb_types::U256::from((n + 1) * d0), "harness assumption: total difficulty of main-chain block {n} = (n+1)*d0");
                    }
                }
                let (kind, numbers, detail) = self.lsp_call(out, &t[1..7], line);
                assert_eq!(kind, t[7], "replayed lsp outcome differs from the recorded one");
                assert_eq!(join(&numbers, ","), t[8], "replayed lsp headers differ from the recorded ones");
                out.count(&format!("lsp-{kind}"));
                detail
            }
            "proof" => {
                let n: u64 = t[1].parse().unwrap();
                let idxs = parse_list(t[2]);
                out.count("proof");
                let want = self.expected_root(n);
                let snap = self.node().shared.snapshot();
                let mmr = snap.chain_root_mmr(n);
                match mmr.gen_proof(idxs.iter().map(|i| leaf_index_to_pos(*i)).collect()) {
                    Ok(p) => {
                        let ds = self.digests(n as usize);
                        let mut set: Vec<u64> = idxs.clone();
                        set.sort();
                        set.dedup();
                        let leaves: Vec<(u64, HeaderDigest)> = set.iter().map(|i| (leaf_index_to_pos(*i), ds[*i as usize].clone())).collect();
                        if !matches!(p.verify(want.clone(), leaves.clone()), Ok(true)) {
                            out.oracle_fail("served-proof-does-not-verify", line);
                        }
                        // and not against the root of the previous block's chain
                        if n > 0 {
                            let other = spec_root::<MergeHeaderDigest>(&ds[..n as usize]).unwrap();
                            if matches!(p.verify(other, leaves), Ok(true)) {
                                out.oracle_fail("proof-accepted-for-wrong-chain", line);
                            }
                        }
                        format!("proof {} {}", p.mmr_size(), join(&p.proof_items().iter().map(term_of).collect::<Vec<_>>(), ";"))
                    }
                    Err(e) => {
                        out.oracle_fail("proof-unavailable", &format!("{line}: {e:?}"));
                        "err".into()
                    }
                }
            }
            _ => panic!("bad op {line}"),
        };
        out.op(line, &ans);
    }

    /// sends a GetLastStateProof to the real handler; returns (kind, served block numbers, answer line)
    fn lsp_call(&mut self, out: &mut Out, p: &[&str], line: &str) -> (String, Vec<u64>, String) {
        use ckb_network::{CKBProtocolHandler, PeerIndex, SupportProtocols};
        use ckb_types::utilities::merkle_mountain_range::{MMRProof, VerifiableHeader};
        use ckb_types::{packed, U256};
        let last: u64 = p[0].parse().unwrap();
        let start: u64 = p[1].parse().unwrap();
        let start_num: u64 = p[2].parse().unwrap();
        let last_n: u64 = p[3].parse().unwrap();
        let boundary: u64 = p[4].parse().unwrap();
        let diffs = parse_list(p[5]);
        let hash_of = |s: &NSim, id: u64| -> Byte32 { s.blocks.get(&id).map(|b| b.hash()).unwrap_or_else(|| ckb_hash::blake2b_256(id.to_le_bytes()).into()) };
        let content = packed::GetLastStateProof::new_builder()
            .last_hash(hash_of(self, last))
            .start_hash(hash_of(self, start))
            .start_number(start_num)
            .last_n_blocks(last_n)
            .difficulty_boundary(U256::from(boundary))
            .difficulties(diffs.iter().map(|d| U256::from(*d)).collect::<Vec<U256>>())
            .build();
        let msg = packed::LightClientMessage::new_builder().set(content).build();
        let nc = lcctx::MockNetworkContext::new(SupportProtocols::LightClient);
        let peer = PeerIndex::new(1);
        let shared = self.node().shared.clone();
        let ctx = nc.context();
        let data = msg.as_bytes();
        let res = std::panic::catch_unwind(std::panic::AssertUnwindSafe(|| {
            let mut protocol = ckb_light_client_protocol_server::LightClientProtocol::new(shared);
            runtime_handle().block_on(protocol.received(ctx, peer, data));
        }));
        if res.is_err() {
            return ("panic".into(), vec![], "panic".into());
        }
        if nc.has_banned(peer).is_some() {
            return ("banned".into(), vec![], "banned".into());
        }
        if nc.sent_messages().borrow().is_empty() {
            return ("err".into(), vec![], "err".into());
        }
        let (_, _, bytes) = nc.sent_messages().borrow()[0].clone();
        let reply = packed::LightClientMessage::from_compatible_slice(&bytes).expect("reply").to_enum();
        let packed::LightClientMessageUnion::SendLastStateProof(r) = reply else { return ("unexpected".into(), vec![], "unexpected".into()) };
        let vh = r.last_header();
        if vh.header().into_view().hash() != hash_of(self, last) {
            return ("tip".into(), vec![], "tip".into());
        }
        let n = last % 10000;
        if n == 0 {
            // genesis as the last block: nothing to prove
            return ("genesis".into(), vec![], "genesis".into());
        }
        let want = self.expected_root(n - 1);
        if want.as_slice() != vh.parent_chain_root().as_slice() {
            out.oracle_fail("root-not-mmr-root-of-ancestors", &format!("{line}: parent chain root of the last block"));
        }
        if !VerifiableHeader::from(vh.clone()).is_valid(0) {
            out.oracle_fail("last-header-does-not-commit-root", line);
        }
        let main_all: Vec<u64> = std::iter::once(0u64).chain(self.main.iter().copied()).collect();
        let mut numbers = vec![];
        let mut leaves = vec![];
        let mut roots = vec![];
        for h in r.headers().into_iter() {
            let hv = h.header().into_view();
            let id = *self.by_hash.get(&hv.hash()).expect("served header known");
            if main_all.get(hv.number() as usize) != Some(&id) {
                out.oracle_fail("served-header-not-on-main-chain", line);
            }
            if !VerifiableHeader::from(h.clone()).is_valid(0) {
                out.oracle_fail("served-header-does-not-commit-root", line);
            }
            if hv.number() > 0 {
                let w = self.expected_root(hv.number() - 1);
                if w.as_slice() != h.parent_chain_root().as_slice() {
                    out.oracle_fail("root-not-mmr-root-of-ancestors", &format!("{line}: parent chain root of served header {}", hv.number()));
                }
                roots.push(term_of(&h.parent_chain_root()));
            } else {
                roots.push("-".to_string());
            }
            numbers.push(hv.number());
            leaves.push((leaf_index_to_pos(hv.number()), hv.digest()));
        }
        // the sampling contract, on the served numbers alone (independent of the model): strictly increasing and below the
        // last block; every block of the last-n window [max(start, last - last_n), last) is served; when the client's start
        // block is not on this chain (start hash differs from the main chain's block at start_number), the last_n blocks
        // before start_number are served too (so the client can find the fork point)
        if !numbers.windows(2).all(|w| w[0] < w[1]) || numbers.iter().any(|x| *x >= n) {
            out.oracle_fail("lsp-numbers-not-increasing-below-last", &format!("{line}: {numbers:?}"));
        }
        if start_num <= n {
            for k in start_num.max(n.saturating_sub(last_n))..n {
                if !numbers.contains(&k) {
                    out.oracle_fail("lsp-last-n-block-not-served", &format!("{line}: block {k} not in {numbers:?}"));
                }
            }
            let start_on_chain = start_num == 0 || main_all.get(start_num as usize) == Some(&start);
            if !start_on_chain {
                out.count("lsp-reorg-detected");
                for k in start_num - start_num.min(last_n)..start_num {
                    if !numbers.contains(&k) {
                        out.oracle_fail("lsp-reorg-block-not-served", &format!("{line}: block {k} not in {numbers:?}"));
                    }
                }
            }
        }
        if numbers.iter().any(|x| *x < start_num.saturating_sub(last_n)) {
            out.oracle_fail("lsp-block-before-window-served", &format!("{line}: {numbers:?}"));
        }
        let items: Vec<HeaderDigest> = r.proof().into_iter().collect();
        if !leaves.is_empty() {
            let mut l2 = leaves.clone();
            l2.sort_by_key(|x| x.0);
            l2.dedup_by_key(|x| x.0);
            if !matches!(MMRProof::new(leaf_index_to_mmr_size(n - 1), items.clone()).verify(vh.parent_chain_root(), l2.clone()), Ok(true)) {
                out.oracle_fail("served-proof-does-not-verify", line);
            }
            for other in self.abandoned_roots(n - 1, &vh.parent_chain_root()) {
                out.count("lsp-checked-against-abandoned-root");
                if matches!(MMRProof::new(leaf_index_to_mmr_size(n - 1), items.clone()).verify(other, l2.clone()), Ok(true)) {
                    out.oracle_fail("proof-accepted-for-abandoned-chain", line);
                }
            }
        }
        let detail = format!("proof {} root {} roots={} numbers={}", join(&items.iter().map(term_of).collect::<Vec<_>>(), ";"), term_of(&vh.parent_chain_root()), join(&roots, ";"), join(&numbers, ","));
        ("proof".into(), numbers, detail)
    }

    /// total difficulty of the genesis block (low 64 bits; the dev chain's difficulty is tiny)
    fn genesis_td(&self) -> u64 {
        let h = self.blocks[&0].hash();
        let td = self.node().store().get_block_ext(&h).expect("genesis ext").total_difficulty;
        assert!(td.0[1..].iter().all(|w| *w == 0));
        td.0[0]
    }

    fn root_line(&mut self, out: &mut Out, line: &str, n: u64) -> String {
        let want = self.expected_root(n);
        let snap = self.node().shared.snapshot();
        debug_assert_eq!(snap.chain_root_mmr(n).mmr_size(), leaf_index_to_mmr_size(n));
        match snap.chain_root_mmr(n).get_root() {
            Ok(r) => {
                if r.as_slice() != want.as_slice() {
                    out.oracle_fail("root-not-mmr-root-of-ancestors", &format!("{line}: chain_root_mmr({n})"));
                }
                format!("root {}", term_of(&r))
            }
            Err(e) => {
                out.oracle_fail("root-unavailable", &format!("{line}: {e:?}"));
                "err".into()
            }
        }
    }

    fn finish(mut self) {
        if let Some(n) = self.node.take() {
            n.stop();
        }
        self.builder.cleanup();
    }
}

fn gen_case(out: &mut Out, rng: &mut Rng, base: &std::path::Path, n_blocks: usize) {
    let epoch_len = *rng.pick(&[3u64, 4, 7, 10]);
    out.begin_case(&format!("node epoch_len={epoch_len}"));
    let mut sim = NSim::new(base, epoch_len);
    let mut uniq = 0u64;
    let mut known: Vec<u64> = vec![0];
    let mut focus: u64 = 0; // the branch currently being extended
    for _ in 0..n_blocks {
        // where to build: mostly on the focus branch; sometimes start a fork at an older block
        // (biased to tip-1, tip-2, powers of two, genesis)
        if rng.chance(1, 6) {
            let tipn = sim.main.len() as u64;
            let at = match rng.below(5) {
                0 => tipn.saturating_sub(1),
                1 => tipn.saturating_sub(2),
                2 => { let mut p = 1; while p * 2 <= tipn { p *= 2; } p.min(tipn) }
                3 => 0,
                _ => rng.below(tipn + 1),
            };
            focus = if at == 0 { 0 } else { sim.main[at as usize - 1] };
        } else if rng.chance(1, 10) {
            focus = *rng.pick(&known);
        }
        let number = focus % 10000 + 1;
        uniq += 1;
        let id = uniq * 10000 + number;
        if rng.chance(1, 8) && focus == sim.main.last().copied().unwrap_or(0) {
            uniq += 1;
            sim.exec(out, &format!("bad {} {focus}", uniq * 10000 + number));
        }
        sim.exec(out, &format!("blk {id} {focus}"));
        known.push(id);
        focus = id;
        let main = sim.node_main();
        if main != sim.main {
            sim.exec(out, &format!("main {}", join(&main, ",")));
            let tip = main.len() as u64;
            sim.exec(out, &format!("ext {tip}"));
            if rng.chance(1, 2) {
                sim.exec(out, &format!("rootat {}", rng.below(tip + 1)));
            }
            if rng.chance(1, 2) {
                let n = if rng.chance(1, 2) { tip } else { rng.below(tip + 1) };
                let k = rng.range(1, 3);
                let idxs: Vec<u64> = (0..k).map(|_| rng.below(n + 1)).collect();
                sim.exec(out, &format!("proof {n} {}", join(&idxs, ",")));
            }
            if rng.chance(1, 4) && tip > 1 {
                sim.exec(out, &format!("ext {}", rng.range(1, tip)));
            }
            for _ in 0..rng.below(3) {
                // candidate children of a main-chain block with all kinds of extensions
                let pn = if rng.chance(1, 2) { tip } else { rng.below(tip + 1) };
                let len = match rng.below(10) { 0 => "none".to_string(), 1 => "0".into(), 2 => "31".into(), 3 => "96".into(), 4 => "97".into(), 5 => rng.range(1, 120).to_string(), _ => "32".into() };
                let src = match rng.below(6) { 0 => "flip".to_string(), 1 => format!("at:{}", rng.below(tip + 1)), 2 if pn > 0 => format!("at:{}", pn - 1), _ => format!("at:{pn}") };
                sim.exec(out, &format!("extv {pn} {len} {src} {}", if rng.chance(1, 8) { "x" } else { "-" }));
            }
            if rng.chance(1, 2) {
                // a light client asks for block proofs: last = a main-chain block (sometimes genesis, sometimes a
                // block of an abandoned fork), blocks = main-chain blocks below/above it, fork blocks, unknown hashes
                let main_all: Vec<u64> = std::iter::once(0u64).chain(main.iter().copied()).collect();
                let last = match rng.below(10) {
                    0 => 0,
                    1 => *rng.pick(&known),
                    2 | 3 => *main_all.last().unwrap(),
                    _ => main_all[rng.below(main_all.len() as u64) as usize],
                };
                let k = rng.range(0, 4);
                let mut ids: Vec<u64> = (0..k)
                    .map(|_| match rng.below(8) {
                        0 => 777_700_000 + rng.below(1000),
                        1 => *rng.pick(&known),
                        _ => main_all[rng.below(main_all.len() as u64) as usize],
                    })
                    .collect();
                if rng.chance(7, 8) {
                    ids.sort();
                    ids.dedup();
                    ids.retain(|i| *i != last);
                }
                sim.exec(out, &format!("bp {last} {}", join(&ids, ",")));
            }
            if rng.chance(1, 2) {
                // GetLastStateProof with peer-chosen fields, sane and adversarial (start beyond last, huge last_n, ...)
                let main_all: Vec<u64> = std::iter::once(0u64).chain(main.iter().copied()).collect();
                let last = match rng.below(10) {
                    0 => 0,
                    1 => *rng.pick(&known),
                    2..=4 => *main_all.last().unwrap(),
                    _ => main_all[rng.below(main_all.len() as u64) as usize],
                };
                let ln = last % 10000;
                let start_num = match rng.below(6) { 0 => 0, 1 => ln + rng.range(1, 3), 2 => ln, _ => rng.below(ln + 1) };
                let start = match rng.below(4) { 0 => *rng.pick(&known), 1 => 777_700_001, _ => *main_all.get(start_num as usize).unwrap_or(&0) };
                let last_n = match rng.below(5) { 0 => 0, 1 => 1000, _ => rng.range(1, 6) };
                // total difficulty grows by a constant per block: pick boundaries / samples around real totals
                let td = |s: &NSim, n: u64| -> u64 {
                    let id = if n == 0 { 0 } else { *s.main.get(n as usize - 1).unwrap_or(&0) };
                    let h = s.blocks[&id].hash();
                    let ext = s.node().store().get_block_ext(&h).expect("ext");
                    ext.total_difficulty.0[0]
                };
                let sane = rng.chance(3, 5) && main_all.contains(&last) && ln > 0;
                let (start_num, start, boundary, diffs) = if sane {
                    // what a light client sends: start <= last on the same chain, samples between start and boundary
                    let sn = rng.below(ln + 1);
                    let lo = if sn == 0 { 0 } else { td(&sim, sn - 1) };
                    let b = td(&sim, rng.range(sn, ln));
                    let mut d: Vec<u64> = (0..rng.below(5)).map(|_| rng.range(lo + 1, b.max(lo + 2))).filter(|x| *x < b).collect();
                    d.sort();
                    d.dedup();
                    (sn, main_all[sn as usize], b, d)
                } else {
                    let boundary = match rng.below(4) { 0 => 0, 1 => td(&sim, ln) + 5, _ => td(&sim, rng.below(ln + 1)) };
                    let k = rng.below(4);
                    let mut diffs: Vec<u64> = (0..k).map(|_| td(&sim, rng.below(ln + 1)) + rng.below(2)).collect();
                    if rng.chance(5, 6) {
                        diffs.sort();
                        diffs.dedup();
                    }
                    (start_num, start, boundary, diffs)
                };
                let params = format!("{last} {start} {start_num} {last_n} {boundary} {}", join(&diffs, ","));
                let toks: Vec<&str> = params.split(' ').collect();
                let (kind, numbers, _) = sim.lsp_call(&mut Out::new(&out.dir.join("probe")), &toks, "probe");
                sim.exec(out, &format!("lsp {params} {kind} {}", join(&numbers, ",")));
            }
        }
    }
    if sim.reorgs > 0 {
        out.nontrivial(format!("{epoch_len}:{:?}", sim.main));
    }
    sim.finish();
}

// ------------------------------------------------------------------------------------ structured node scenarios

/// total difficulty (low 64 bits) of main-chain block n, from the node's store
fn td_of(s: &NSim, n: u64) -> u64 {
    let id = if n == 0 { 0 } else { *s.main.get(n as usize - 1).unwrap_or(&0) };
    let h = s.blocks[&id].hash();
    s.node().store().get_block_ext(&h).expect("ext").total_difficulty.0[0]
}

/// scenario driver: fresh ids, `main` lines after every change of the node's main chain
struct Drv {
    sim: NSim,
    uniq: u64,
}

impl Drv {
    fn fresh(&mut self, parent: u64) -> u64 {
        self.uniq += 1;
        self.uniq * 10000 + parent % 10000 + 1
    }

    fn main_all(&self) -> Vec<u64> {
        std::iter::once(0u64).chain(self.sim.main.iter().copied()).collect()
    }

    fn tipn(&self) -> u64 {
        self.sim.main.len() as u64
    }

    /// emits a `main` line when the node's main chain changed; returns whether it did
    fn sync_main(&mut self, out: &mut Out) -> bool {
        let main = self.sim.node_main();
        if main != self.sim.main {
            self.sim.exec(out, &format!("main {}", join(&main, ",")));
            true
        } else {
            false
        }
    }

    fn blk(&mut self, out: &mut Out, parent: u64) -> u64 {
        let id = self.fresh(parent);
        self.sim.exec(out, &format!("blk {id} {parent}"));
        self.sync_main(out);
        id
    }

    fn xblk(&mut self, out: &mut Out, parent: u64, len: &str, src: &str) -> u64 {
        let id = self.fresh(parent);
        self.sim.exec(out, &format!("xblk {id} {parent} {len} {src}"));
        self.sync_main(out);
        id
    }

    fn grow(&mut self, out: &mut Out, parent: u64, k: u64) -> Vec<u64> {
        let mut v = vec![];
        let mut p = parent;
        for _ in 0..k {
            p = self.blk(out, p);
            v.push(p);
        }
        v
    }

    /// blocks needed on `parent` to overtake the current tip
    fn need(&self, parent: u64) -> u64 {
        self.tipn() + 1 - parent % 10000
    }

    fn lsp(&mut self, out: &mut Out, rng: &mut Rng, last: u64, sn: u64) {
        self.lsp_with(out, rng, last, sn, None)
    }

    /// a GetLastStateProof as a light client sends it: start <= last, samples between the start block's total difficulty and
    /// the boundary; the boundary is the total difficulty of a block (the `Equal` exit of the server's binary search) or one
    /// off it; `start_id` = Some(block of an abandoned branch) is a client that followed the other branch (fork detection)
    fn lsp_with(&mut self, out: &mut Out, rng: &mut Rng, last: u64, sn: u64, start_id: Option<u64>) {
        let main_all = self.main_all();
        let ln = last % 10000;
        let on_main = main_all.contains(&last);
        let (start, boundary, diffs) = if on_main && ln > 0 {
            let sn = sn.min(ln);
            let lo = if sn == 0 { 0 } else { td_of(&self.sim, sn - 1) };
            let b0 = td_of(&self.sim, rng.range(sn, ln));
            let b = match rng.below(4) { 0 => b0.saturating_sub(1).max(lo + 1), 1 => b0 + 1, _ => b0 };
            let mut d: Vec<u64> = (0..rng.below(6)).map(|_| rng.range(lo + 1, b.max(lo + 2))).filter(|x| *x < b).collect();
            d.sort();
            d.dedup();
            (start_id.unwrap_or(main_all[sn as usize]), b, d)
        } else {
            (0, 0, vec![])
        };
        let sn = if on_main { sn.min(ln) } else { 0 };
        let last_n = match rng.below(8) { 0 => 0, 1 => ln + 1, _ => rng.range(1, 6) };
        let params = format!("{last} {start} {sn} {last_n} {boundary} {}", join(&diffs, ","));
        let toks: Vec<&str> = params.split(' ').collect();
        let (kind, numbers, _) = self.sim.lsp_call(&mut Out::new(&out.dir.join("probe")), &toks, "probe");
        self.sim.exec(out, &format!("lsp {params} {kind} {}", join(&numbers, ",")));
    }

    /// GetTransactionsProof requests around the fork point: cellbases of main-chain heights below / at / above the last block,
    /// genesis transactions (a block with many transactions: real CBMT lemmas), unknown hashes, duplicates, genesis as last,
    /// a last block of the abandoned branch, the size limit
    fn tp(&mut self, out: &mut Out, rng: &mut Rng, fork: u64) {
        let main_all = self.main_all();
        let tip = self.tipn();
        let tip_id = *main_all.last().unwrap();
        let gtx = self.sim.blocks[&0].transactions().len() as u64;
        let cb = |n: u64| 1000 + n;
        if tip == 0 {
            return;
        }
        // everything provable under the tip: heights spanning the fork point + genesis transactions
        let mut v: Vec<u64> = [fork.saturating_sub(1), fork, fork + 1, tip - 1].iter().filter(|n| **n >= 1 && **n < tip).map(|n| cb(*n)).collect();
        v.push(rng.below(gtx));
        v.push(rng.below(gtx));
        v.push(gtx - 1);
        v.push(1_000_000 + rng.below(1000));
        v.sort();
        v.dedup();
        rng.shuffle(&mut v);
        self.sim.exec(out, &format!("tp {tip_id} {}", join(&v, ",")));
        // an earlier last block; heights at and above it are on the main chain but outside its MMR
        let ln = rng.range(1, tip);
        let mut w: Vec<u64> = (0..rng.range(1, 4)).map(|_| cb(rng.range(1, tip + 1))).collect();
        w.push(rng.below(gtx));
        w.sort();
        w.dedup();
        self.sim.exec(out, &format!("tp {} {}", main_all[ln as usize], join(&w, ",")));
        let below: Vec<u64> = (1..ln).map(cb).chain([0u64, 1]).collect();
        self.sim.exec(out, &format!("tp {} {}", main_all[ln as usize], join(&below, ",")));
        match rng.below(6) {
            0 => self.sim.exec(out, &format!("tp {tip_id} -")),
            1 => self.sim.exec(out, &format!("tp {tip_id} {},{},{}", cb(1), 3, cb(1))),
            2 => self.sim.exec(out, &format!("tp 0 {}", 1_000_007)),
            3 => self.sim.exec(out, &format!("tp 0 {},{}", 1_000_007, rng.below(gtx))),
            4 => self.sim.exec(out, &format!("tp {tip_id} {},{}", 1_000_001, 1_000_002)),
            _ => self.sim.exec(out, &format!("tp {tip_id} {}", cb(tip + 1))),
        }
        let gone: Vec<u64> = self.sim.abandoned.iter().rev().flat_map(|c| c.iter().copied()).filter(|i| !main_all.contains(i)).take(1).collect();
        if let Some(g) = gone.first() {
            self.sim.exec(out, &format!("tp {g} {}", cb(1)));
        }
    }

    /// the request-size limits of the light-client server at their boundaries (GET_BLOCKS_PROOF_LIMIT,
    /// GET_LAST_STATE_PROOF_LIMIT: difficulties + 2 * last_n)
    fn limits(&mut self, out: &mut Out) {
        let tip_id = *self.main_all().last().unwrap();
        let tipn = self.tipn();
        if tipn == 0 {
            return;
        }
        let unknown = |k: u64| -> Vec<u64> { (0..k).map(|i| 777_700_000 + i).collect() };
        self.sim.exec(out, &format!("bp {tip_id} {}", join(&unknown(1000), ",")));
        self.sim.exec(out, &format!("bp {tip_id} {}", join(&unknown(1001), ",")));
        out.count("limit-boundary");
        let unknown_tx = |k: u64| -> Vec<u64> { (0..k).map(|i| 1_000_000 + i).collect() };
        self.sim.exec(out, &format!("tp {tip_id} {}", join(&unknown_tx(1000), ",")));
        self.sim.exec(out, &format!("tp {tip_id} {}", join(&unknown_tx(1001), ",")));
        let b = td_of(&self.sim, tipn - 1);
        for (last_n, nd) in [(500u64, 0u64), (500, 1), (499, 2), (499, 3), (1000, 0), (1001, 0), (u64::MAX, 0), (u64::MAX / 2 + 1, 0)] {
            // difficulties strictly increasing and below the boundary when there is room for them
            let diffs: Vec<u64> = (1..=nd).filter(|d| *d < b).collect();
            let params = format!("{tip_id} 0 0 {last_n} {b} {}", join(&diffs, ","));
            let toks: Vec<&str> = params.split(' ').collect();
            let (kind, numbers, _) = self.sim.lsp_call(&mut Out::new(&out.dir.join("probe")), &toks, "probe");
            self.sim.exec(out, &format!("lsp {params} {kind} {}", join(&numbers, ",")));
        }
    }

    /// everything that is observed after one step of a scenario; `fork` = number of the last common block of the step
    fn checks(&mut self, out: &mut Out, rng: &mut Rng, fork: u64, extend: bool) {
        let main = self.sim.node_main();
        self.sim.exec(out, &format!("main {}", join(&main, ",")));
        let tip = self.tipn();
        self.sim.exec(out, "nodes");
        if tip == 0 {
            return;
        }
        self.sim.exec(out, &format!("ext {tip}"));
        let mut ns = vec![0, fork.saturating_sub(1), fork, fork + 1, tip - 1, rng.below(tip + 1)];
        ns.retain(|n| *n <= tip);
        ns.sort();
        ns.dedup();
        for n in &ns {
            self.sim.exec(out, &format!("rootat {n}"));
        }
        if fork + 1 <= tip {
            self.sim.exec(out, &format!("ext {}", fork + 1));
        }
        let mut idxs = vec![fork.saturating_sub(1), fork, (fork + 1).min(tip), tip];
        idxs.dedup();
        self.sim.exec(out, &format!("proof {tip} {}", join(&idxs, ",")));
        // light client: proofs for the new tip with header sets spanning the fork point
        let main_all = self.main_all();
        let tip_id = *main_all.last().unwrap();
        let mut ids: Vec<u64> = [fork.saturating_sub(1), fork, fork + 1, (fork + tip) / 2 + 1, tip - 1].iter().filter(|n| **n < tip).map(|n| main_all[*n as usize]).collect();
        ids.sort();
        ids.dedup();
        if !ids.is_empty() {
            self.sim.exec(out, &format!("bp {tip_id} {}", join(&ids, ",")));
        }
        let gone_ids: Vec<u64> = self.sim.abandoned.iter().rev().flat_map(|c| c.iter().copied()).filter(|i| !main_all.contains(i)).take(3).collect();
        if !gone_ids.is_empty() {
            // hashes of the abandoned branch: must come back as missing, never as headers
            let mut mix = gone_ids.clone();
            mix.push(main_all[fork as usize]);
            if tip_id != main_all[fork as usize] {
                mix.sort();
                mix.dedup();
                self.sim.exec(out, &format!("bp {tip_id} {}", join(&mix, ",")));
                out.count("bp-abandoned-hashes");
            }
            // `last` on the abandoned branch: the tip-state reply
            self.sim.exec(out, &format!("bp {} {}", gone_ids[0], main_all[fork as usize]));
            out.count("bp-last-abandoned");
            self.lsp(out, rng, gone_ids[0], 0);
            // a client that followed the abandoned branch asks about the new tip: its start block is not on this chain
            for g in gone_ids.iter().copied().filter(|g| g % 10000 <= tip).take(2) {
                self.lsp_with(out, rng, tip_id, g % 10000, Some(g));
                out.count("lsp-start-on-abandoned-branch");
            }
        }
        self.tp(out, rng, fork);
        self.lsp(out, rng, tip_id, fork.saturating_sub(1));
        let sn = rng.below(tip + 1);
        self.lsp(out, rng, tip_id, sn);
        if extend {
            // the MMR below the tip is what the next block is verified against: a wrong and a right child of the tip
            let bad = self.fresh(tip_id);
            self.sim.exec(out, &format!("bad {bad} {tip_id}"));
            self.blk(out, tip_id);
            self.sim.exec(out, "nodes");
            let t2 = self.tipn();
            self.sim.exec(out, &format!("ext {t2}"));
        }
    }
}

/// A -> B -> A' (and C / B' ping-pong): `reconcile_main_chain` re-attaching already verified blocks
fn gen_aba_case(out: &mut Out, rng: &mut Rng, base: &std::path::Path, variant: u64) {
    let epoch_len = *rng.pick(&[3u64, 4, 7, 10]);
    out.begin_case(&format!("node-aba epoch_len={epoch_len} v={variant}"));
    let mut d = Drv { sim: NSim::new(base, epoch_len), uniq: 0 };
    d.sim.exec(out, "main -");
    d.sim.exec(out, "nodes");
    // fork points incl. genesis, sizes around powers of two (where peaks merge)
    let f = match variant % 4 { 0 => 0, 1 => *rng.pick(&[1u64, 2, 3, 4]), 2 => *rng.pick(&[6u64, 7, 8, 9]), _ => rng.range(0, 17) };
    let trunk = d.grow(out, 0, f);
    let fp = trunk.last().copied().unwrap_or(0);
    let k = match rng.below(3) { 0 => rng.range(1, 3), 1 => { let mut p = 1; while p <= f { p *= 2; } (p - f) + rng.below(2) } _ => rng.range(2, 6) };
    let a = d.grow(out, fp, k);
    let e = rng.chance(1, 2);
    d.checks(out, rng, f, e);
    // B: same, lower or higher fork point; one block longer than the main chain
    let main_all = d.main_all();
    let fb = match rng.below(3) { 0 => f, 1 => rng.below(f + 1), _ => f + rng.below(k) };
    let bp = main_all[fb as usize];
    let nb = d.need(bp) + rng.below(2);
    let b = d.grow(out, bp, nb);
    assert_eq!(d.sim.main.last(), b.last(), "B is the main chain");
    let e = rng.chance(1, 2);
    d.checks(out, rng, fb, e);
    // A': extend A (from its tip, or from the middle: only a prefix of A is re-attached) beyond B
    let ai = if rng.chance(2, 3) { a.len() - 1 } else { rng.below(a.len() as u64) as usize };
    let ap = a[ai];
    let na = d.need(ap) + rng.below(2);
    let a2 = d.grow(out, ap, na);
    assert_eq!(d.sim.main.last(), a2.last(), "A' is the main chain");
    d.checks(out, rng, fb.min(ap % 10000), true);
    match variant % 3 {
        0 => {
            // ping-pong: B' re-attaches B
            let bt = *b.last().unwrap();
            let n = d.need(bt);
            d.grow(out, bt, n);
            d.checks(out, rng, fb, true);
        }
        1 => {
            // a third branch C from anywhere on the tree
            let all: Vec<u64> = std::iter::once(0).chain(trunk.iter().chain(a.iter()).chain(b.iter()).chain(a2.iter()).copied()).collect();
            let cp = *rng.pick(&all);
            let n = d.need(cp);
            d.grow(out, cp, n);
            let main_all = d.main_all();
            let common = d.sim.path_ids(cp).len() as u64;
            let _ = main_all;
            d.checks(out, rng, common, true);
        }
        _ => {
            // B' then A'': two more re-attachments
            let bt = *b.last().unwrap();
            let n = d.need(bt);
            d.grow(out, bt, n);
            d.checks(out, rng, fb, false);
            let at = *d.sim.blocks.keys().filter(|i| a2.contains(i)).max().unwrap();
            let n = d.need(at);
            d.grow(out, at, n);
            d.checks(out, rng, fb.min(ap % 10000), true);
        }
    }
    if d.sim.reattached > 0 {
        out.count("aba-case-with-reattach");
        out.nontrivial(format!("aba:{epoch_len}:{:?}", d.sim.main));
    }
    d.sim.finish();
}

/// BlockExtensionVerifier boundaries through real submission, a failing and a succeeding reorg over a side-branch `xblk`
fn gen_xblk_case(out: &mut Out, rng: &mut Rng, base: &std::path::Path, variant: u64) {
    let epoch_len = *rng.pick(&[3u64, 4, 7, 10]);
    out.begin_case(&format!("node-xblk epoch_len={epoch_len} v={variant}"));
    let mut d = Drv { sim: NSim::new(base, epoch_len), uniq: 0 };
    d.sim.exec(out, "main -");
    let t = rng.range(2, 9);
    d.grow(out, 0, t);
    // a sibling of the tip (its chain root differs from the tip's own ancestors' only in the last leaf)
    let main_all = d.main_all();
    let sib = d.blk(out, main_all[t as usize - 1]);
    // phase 1: every boundary on the tip (fully verified at delivery)
    let mut variants: Vec<(String, String)> = vec![
        ("none".into(), "full".into()), ("0".into(), "full".into()), ("1".into(), "full".into()), ("31".into(), "full".into()),
        ("32".into(), "full".into()), ("33".into(), "full".into()), (rng.range(34, 95).to_string(), "full".into()), ("96".into(), "full".into()),
        ("97".into(), "full".into()), (rng.range(98, 200).to_string(), "full".into()),
        ("32".into(), "prev".into()), ("32".into(), "at:0".into()), (rng.range(32, 96).to_string(), "rand".into()),
        ("32".into(), "flip".into()), ("96".into(), "flip".into()), ("32".into(), "sib".into()), ("40".into(), "ofself".into()),
    ];
    rng.shuffle(&mut variants);
    for (len, src) in variants {
        let tipn = d.tipn();
        let tip = *d.main_all().last().unwrap();
        let src = match src.as_str() {
            "full" => format!("at:{tipn}"),
            "prev" => format!("at:{}", tipn - 1),
            "rand" => format!("at:{}", rng.below(tipn)),
            "sib" => format!("of:{}", if tipn == t { sib } else { let m = d.main_all(); let s2 = d.blk(out, m[tipn as usize - 1]); s2 }),
            "ofself" => format!("of:{tip}"),
            o => o.to_string(),
        };
        let before = d.tipn();
        let x = d.xblk(out, tip, &len, &src);
        if d.tipn() > before {
            // accepted: a normal block of the tree
            d.sim.exec(out, &format!("ext {}", d.tipn()));
            d.sim.exec(out, "nodes");
            if rng.chance(1, 2) {
                d.blk(out, x);
            }
        }
    }
    d.checks(out, rng, d.tipn().saturating_sub(1), true);
    // phase 2: a non-conforming block on a side branch (stored unverified), descendants until the branch would overtake
    for round in 0..2 {
        let h = d.tipn();
        let f = if round == 0 && variant % 2 == 0 { 0 } else { h - rng.range(1, h.min(5)) };
        let main_all = d.main_all();
        let old_tip = *main_all.last().unwrap();
        let mut p = main_all[f as usize];
        let side_len = h - f; // heights f+1..=h are not heavier
        let j = rng.below(side_len);
        let mut side = vec![];
        for i in 0..side_len {
            p = if i == j {
                let n = p % 10000;
                let (len, src) = match rng.below(7) {
                    0 => ("none".to_string(), format!("at:{n}")),
                    1 => ("31".to_string(), format!("at:{n}")),
                    2 => ("97".to_string(), format!("at:{n}")),
                    3 => ("32".to_string(), "flip".to_string()),
                    4 if n > 0 => ("32".to_string(), format!("at:{}", n - 1)),
                    5 => ("64".to_string(), format!("of:{}", main_all[(n as usize + 1).min(h as usize)])),
                    _ => ("0".to_string(), format!("at:{n}")),
                };
                d.xblk(out, p, &len, &src)
            } else {
                d.blk(out, p)
            };
            side.push(p);
        }
        assert_eq!(*d.main_all().last().unwrap(), old_tip, "side branch not heavier");
        // the overtaking block: the reorg must fail, twice
        let o1 = d.blk(out, p);
        let o2 = d.blk(out, p);
        out.count("failed-reorg-over-bad-side-block");
        let _ = (o1, o2);
        let main = d.sim.node_main();
        assert_eq!(main.last().copied().unwrap_or(0), old_tip);
        // nothing of the failed reorg was committed: rows, roots, proofs, and the next block on the old tip
        let mut ask = side.clone();
        ask.push(main_all[f as usize]);
        ask.retain(|i| *i != old_tip);
        ask.sort();
        ask.dedup();
        d.sim.exec(out, &format!("bp {old_tip} {}", join(&ask, ",")));
        d.checks(out, rng, f, true);
    }
    // phase 3: a conforming 32+k byte extension in the middle of a side branch that does overtake
    {
        let h = d.tipn();
        let f = h - rng.range(1, h.min(4));
        let main_all = d.main_all();
        let mut p = main_all[f as usize];
        let total = h - f + 1;
        let j = rng.below(total);
        for i in 0..total {
            p = if i == j { let len = rng.range(33, 96); d.xblk(out, p, &len.to_string(), &format!("of:{p}")) } else { d.blk(out, p) };
        }
        assert_eq!(*d.main_all().last().unwrap(), p, "conforming side branch overtakes");
        out.count("reorg-over-conforming-xblk");
        d.checks(out, rng, f, true);
    }
    d.limits(out);
    out.nontrivial(format!("xblk:{epoch_len}:{:?}", d.sim.main));
    d.sim.finish();
}


// ------------------------------------------------------------------------------------ filter service

/// Stream `nfilter`: the real `BlockFilter` service (block-filter/src/filter.rs) following a real
/// node through forks.  After every delivered block the harness waits until the service has caught
/// up with the tip (so the schedule is deterministic: one `build_filter_data` pass per tip change).
///   blk <id> <parent>            -> ok
///   sync <main ids>              -> built <ids of all blocks (any fork) that have a filter hash>
///   filter <id> <tx> <tx> ..     -> n=<N> elems=<script ids> missing=<k>   (tx = c|n / in-cells / out-cells,
///                                   cells are lock:type script ids, resolved by the harness)
///   syncm <main ids>             -> mbuilt <main-chain ids (0 first) that have a filter hash> latest=<id>
///                                   as `sync`, but only canonical facts are compared with the model: used after bursts
///                                   (several tip changes A->B->A' delivered without waiting for the service, where it is
///                                   timing-dependent which abandoned-branch blocks get filters). Once a case has used a burst
///                                   it only uses `syncm`.
///   hblk <id> <parent>           -> ok          (cases labelled `nfilter-hand`: no node yet) a block built by the builder only
///   hstart <main ids> <built ids> <latest>
///                                -> mbuilt .. latest=..   a RocksDB store is populated by hand: every `hblk` block inserted, the
///                                   blocks of <main ids> attached as the main chain (tip / epoch / MMR / BlockExt with a total
///                                   difficulty larger than any other branch's, so the main chain may be SHORTER than an
///                                   abandoned one), filter rows written with StoreTransaction::insert_block_filter for
///                                   <built ids> in that order and LATEST_BUILT_FILTER_DATA = <latest>; then a node is started
///                                   on that directory and BlockFilter::start() runs its start-up `build_filter_data` pass.
/// At quiescence (sync / syncm / hstart): every main-chain block 0..=tip has filter data and a filter hash chaining from its
/// parent's (no early exit on the first gap), LATEST_BUILT_FILTER_DATA is on the main chain, and the service is alive (the
/// tip's filter appears within 60 s).
mod nfilter {
    use super::*;
    use ckb_block_filter::filter::BlockFilter;
    use ckb_hash::blake2b_256;
    use ckb_types::bytes::Bytes;
    use ckb_types::core::{Capacity, TransactionBuilder, TransactionView};
    use ckb_types::packed::{CellInput, CellOutput, OutPoint, Script};
    use ckb_types::utilities::calc_filter_hash;
    use std::collections::{BTreeMap, BTreeSet};

    pub struct FNode {
        node: Option<Node>,
        builder: ChainBuilder,
        blocks: HashMap<u64, BlockView>,
        by_hash: HashMap<Byte32, u64>,
        parent: HashMap<u64, u64>,
        /// transactions proposed in a block (committed two blocks later on the same branch)
        proposed: HashMap<u64, Vec<(usize, TransactionView)>>,
        genesis: Vec<(OutPoint, u64)>,
        genesis_lock: Script,
        /// script hash -> protocol id
        script_ids: HashMap<Vec<u8>, u64>,
        scripts: BTreeMap<u64, Script>,
        next_foreign: u64,
        pub main: Vec<u64>,
        pub reorgs: u64,
        pub with_txs: u64,
        base: std::path::PathBuf,
        cfg: NodeCfg,
        selftest: String,
        pub latest_abandoned_at_reorg: u64,
    }

    struct NoCells;
    impl ckb_types::utilities::FilterDataProvider for NoCells {
        fn cell(&self, _out_point: &OutPoint) -> Option<CellOutput> {
            None
        }
    }

    fn lock_script(base: &Script, id: u64) -> Script {
        base.clone().as_builder().args(Bytes::from(id.to_le_bytes().to_vec())).build()
    }

    impl FNode {
        pub fn new(base: &std::path::Path, epoch_len: u64) -> FNode {
            Self::new_opts(base, epoch_len, true)
        }

        pub fn new_opts(base: &std::path::Path, epoch_len: u64, start_node: bool) -> FNode {
            let _ = std::fs::remove_dir_all(base);
            let cfg = NodeCfg { epoch_len, window: (2, 4), with_pool: false, genesis_cells: 64, ..Default::default() };
            let consensus = make_consensus(&cfg);
            let node = if start_node {
                let node = Node::start(&base.join("node"), consensus.clone(), &cfg);
                BlockFilter::new(node.shared.clone()).start();
                Some(node)
            } else {
                None
            };
            let builder = ChainBuilder::new(consensus.clone(), &base.join("builder"));
            let g = builder.genesis();
            let genesis = genesis_cells(&consensus);
            let genesis_lock = g.transactions()[1].outputs().get(0).unwrap().lock();
            let mut s = FNode {
                node, builder, blocks: HashMap::new(), by_hash: HashMap::new(), parent: HashMap::new(), proposed: HashMap::new(),
                genesis, genesis_lock: genesis_lock.clone(), script_ids: HashMap::new(), scripts: BTreeMap::new(), next_foreign: 9000,
                main: vec![], reorgs: 0, with_txs: 0,
                base: base.to_path_buf(), cfg: cfg.clone(), selftest: std::env::var("VERIF_C19_SELFTEST").unwrap_or_default(), latest_abandoned_at_reorg: 0,
            };
            s.register(0, genesis_lock.clone());
            for id in 1..=6u64 {
                let sc = lock_script(&genesis_lock, id);
                s.register(id, sc);
            }
            s.by_hash.insert(g.hash(), 0);
            s.blocks.insert(0, g);
            s
        }

        fn register(&mut self, id: u64, sc: Script) {
            self.script_ids.insert(sc.calc_script_hash().as_slice().to_vec(), id);
            self.scripts.insert(id, sc);
        }

        fn script_id(&mut self, sc: &Script) -> u64 {
            let k = sc.calc_script_hash().as_slice().to_vec();
            if let Some(id) = self.script_ids.get(&k) {
                return *id;
            }
            let id = self.next_foreign;
            self.next_foreign += 1;
            self.register(id, sc.clone());
            id
        }

        fn node(&self) -> &Node {
            self.node.as_ref().unwrap()
        }

        pub fn node_main(&self) -> Vec<u64> {
            let snap = self.node().shared.snapshot();
            let tip = snap.tip_header().number();
            (1..=tip).map(|n| *self.by_hash.get(&snap.get_block_hash(n).expect("index")).expect("unknown main-chain block")).collect()
        }

        fn ancestors(&self, mut id: u64) -> Vec<u64> {
            let mut v = vec![];
            while id != 0 {
                v.push(id);
                id = self.parent[&id];
            }
            v
        }

        /// build a block on `parent`: commits what the grandparent proposed, proposes `n_new` fresh spends
        fn build(&mut self, id: u64, parent: u64, n_new: usize, pick: &mut dyn FnMut(u64) -> u64) -> BlockView {
            let anc = self.ancestors(parent);
            let mut used: BTreeSet<usize> = BTreeSet::new();
            for a in &anc {
                for (c, _) in self.proposed.get(a).map(|v| v.as_slice()).unwrap_or(&[]) {
                    used.insert(*c);
                }
            }
            let commit: Vec<TransactionView> = if parent != 0 { self.proposed.get(&self.parent[&parent]).map(|v| v.iter().map(|(_, t)| t.clone()).collect()).unwrap_or_default() } else { vec![] };
            let mut props = vec![];
            for k in 0..n_new {
                let Some(cell) = (0..self.genesis.len()).find(|c| !used.contains(c)) else { break };
                used.insert(cell);
                let (op, cap) = self.genesis[cell].clone();
                let n_out = 1 + pick(2) as usize;
                let mut b = TransactionBuilder::default().cell_dep(always_success_dep()).input(CellInput::new(op, 0));
                let each = (cap - 10_000) / n_out as u64;
                for o in 0..n_out {
                    let lock = self.scripts[&(1 + pick(6))].clone();
                    let ty = if pick(3) == 0 { Some(self.scripts[&(1 + pick(6))].clone()) } else { None };
                    b = b
                        .output(CellOutput::new_builder().capacity(Capacity::shannons(each)).lock(lock).type_(ty).build())
                        .output_data(Bytes::from((id * 100 + k as u64 * 10 + o as u64).to_le_bytes().to_vec()));
                }
                props.push((cell, b.build()));
            }
            let spec = BlockSpec { salt: id, txs: commit, proposals: props.iter().map(|(_, t)| t.proposal_short_id()).collect(), ..Default::default() };
            let ph = self.blocks[&parent].hash();
            let blk = self.builder.build(&ph, &spec);
            self.proposed.insert(id, props);
            blk
        }

        /// the harness's own account of a block's transactions: (cellbase?, resolved input cells, outputs)
        fn describe(&mut self, blk: &BlockView) -> Vec<(bool, Vec<Option<(u64, Option<u64>)>>, Vec<(u64, Option<u64>)>)> {
            let genesis_pts: HashMap<Vec<u8>, ()> = self.genesis.iter().map(|(op, _)| (op.as_slice().to_vec(), ())).collect();
            let mut v = vec![];
            for tx in blk.transactions() {
                let cb = tx.is_cellbase();
                let mut ins = vec![];
                if !cb {
                    for pt in tx.input_pts_iter() {
                        // every generated transaction spends genesis cells only
                        ins.push(if genesis_pts.contains_key(pt.as_slice()) { Some((0u64, None)) } else { None });
                    }
                }
                let mut outs = vec![];
                for o in tx.outputs() {
                    let l = self.script_id(&o.lock());
                    let t = o.type_().to_opt().map(|t| self.script_id(&t));
                    outs.push((l, t));
                }
                v.push((cb, ins, outs));
            }
            v
        }

        fn wait_built(&self, hash: &Byte32) -> bool {
            for _ in 0..12000 {
                if self.node().store().get_block_filter_hash(hash).is_some() {
                    return true;
                }
                std::thread::sleep(std::time::Duration::from_millis(5));
            }
            false
        }

        /// waits for the service, then evaluates the property on the node's store.
        /// Returns (main-chain ids with a filter hash, all ids with a filter hash, latest-built id as text)
        fn quiesce_and_check(&self, out: &mut Out, line: &str) -> (Vec<u64>, Vec<u64>, String) {
            let tip_hash = self.node().tip_hash();
            if !self.wait_built(&tip_hash) {
                out.oracle_fail("filter-never-built", &format!("{line}: no filter for the tip after 60 s"));
            }
            // the property on the node's store: every main-chain block has a filter, hashes chain
            let store = self.node().store();
            let mut parent_hash = Some(Byte32::zero());
            let mut main_built = vec![];
            for (n, id) in std::iter::once(0u64).chain(self.main.iter().copied()).enumerate() {
                let h = self.blocks[&id].hash();
                let skip = self.selftest == "skip-filter" && n == 1;
                match (store.get_block_filter(&h), store.get_block_filter_hash(&h)) {
                    (Some(data), Some(fh)) if !skip => {
                        main_built.push(id);
                        match &parent_hash {
                            Some(ph) => {
                                let mut buf = ph.as_slice().to_vec();
                                buf.extend_from_slice(&blake2b_256(data.raw_data()));
                                if fh.as_slice() != blake2b_256(&buf) || fh.as_slice() != calc_filter_hash(ph, &data) {
                                    out.oracle_fail("filter-hash-not-chained", &format!("{line}: block {id}"));
                                }
                            }
                            // the parent has no filter hash (already reported): nothing to chain from
                            None => out.oracle_fail("filter-hash-not-chained", &format!("{line}: block {id} has a filter hash but its parent has none")),
                        }
                        parent_hash = Some(fh);
                    }
                    (d, f) => {
                        out.oracle_fail("main-chain-block-without-filter", &format!("{line}: block {id} (data {} hash {})", d.is_some(), f.is_some()));
                        parent_hash = f;
                    }
                }
            }
            let latest = match store.get_latest_built_filter_data_block_hash() {
                None => {
                    out.oracle_fail("latest-built-not-on-main-chain", &format!("{line}: no LATEST_BUILT_FILTER_DATA"));
                    "none".to_string()
                }
                Some(h) => match self.by_hash.get(&h) {
                    Some(id) => {
                        if *id != 0 && !self.main.contains(id) {
                            out.oracle_fail("latest-built-not-on-main-chain", &format!("{line}: latest built = block {id}"));
                        }
                        id.to_string()
                    }
                    None => {
                        out.oracle_fail("latest-built-not-on-main-chain", &format!("{line}: latest built is an unknown block"));
                        "?".to_string()
                    }
                },
            };
            let mut built: Vec<u64> = self.blocks.iter().filter(|(_, b)| store.get_block_filter_hash(&b.hash()).is_some()).map(|(id, _)| *id).collect();
            built.sort();
            (main_built, built, latest)
        }

        /// `hstart`: write the store by hand (as ChainBuilder's builder stores are written, see node.rs `attach`), then start a node on it
        fn hand_populate(&mut self, main: &[u64], built: &[u64], latest: u64) {
            use ckb_merkle_mountain_range::leaf_index_to_mmr_size;
            use ckb_store::{attach_block_cell, ChainDB};
            use ckb_types::core::BlockExt;
            use ckb_types::utilities::merkle_mountain_range::ChainRootMMR;
            assert!(self.node.is_none());
            let consensus = make_consensus(&self.cfg);
            let dir = self.base.join("node");
            // let the node create and version the database (genesis initialised), then stop it
            let n = Node::start(&dir, consensus.clone(), &self.cfg);
            n.stop();
            {
                let db = ChainDB::new(ckb_db::RocksDB::open_in(dir.join("db"), ckb_db_schema::COLUMNS), Default::default());
                let mut order: Vec<u64> = self.blocks.keys().copied().filter(|i| *i != 0).collect();
                order.sort_by_key(|i| (i % 10000, *i));
                let longest = order.iter().map(|i| i % 10000).max().unwrap_or(0);
                // every block of every branch: body, epoch index, ext (natural total difficulty; main-chain blocks get a bonus)
                for id in &order {
                    let block = self.blocks[id].clone();
                    let on_main = main.contains(id);
                    let txn = db.begin_transaction();
                    let parent_header = db.get_block_header(&block.parent_hash()).expect("parent inserted first");
                    let parent_ext = db.get_block_ext(&block.parent_hash()).expect("parent ext");
                    let next_epoch = consensus.next_epoch_ext(&parent_header, &db.borrow_as_data_loader()).expect("epoch");
                    let is_head = next_epoch.is_head();
                    let epoch = next_epoch.epoch();
                    txn.insert_block(&block).unwrap();
                    txn.insert_block_epoch_index(&block.hash(), &epoch.last_block_hash_in_previous_epoch()).unwrap();
                    if is_head {
                        if on_main { txn.insert_epoch_ext(&epoch.last_block_hash_in_previous_epoch(), &epoch).unwrap(); } else { txn.insert_epoch_ext_only(&epoch.last_block_hash_in_previous_epoch(), &epoch).unwrap(); }
                    }
                    let mut td = parent_ext.total_difficulty.clone() + block.header().difficulty();
                    assert!(!on_main || self.parent[id] == 0 || main.contains(&self.parent[id]), "main chain is connected");
                    if on_main && block.number() as usize == main.len() {
                        // the tip of the (possibly shorter) main chain is heavier than every other branch
                        td = td + block.header().difficulty() * ckb_types::U256::from(longest + 1);
                    }
                    let ext = BlockExt { received_at: 0, total_difficulty: td, total_uncles_count: 0, verified: Some(true), txs_fees: vec![], cycles: None, txs_sizes: None };
                    txn.insert_block_ext(&block.hash(), &ext).unwrap();
                    if on_main {
                        txn.attach_block(&block).unwrap();
                        attach_block_cell(&txn, &block).unwrap();
                        txn.insert_tip_header(&block.header()).unwrap();
                        txn.insert_current_epoch_ext(&epoch).unwrap();
                        let mut mmr = ChainRootMMR::new(leaf_index_to_mmr_size(block.number() - 1), &txn);
                        mmr.push(block.digest()).expect("mmr push");
                        mmr.commit().expect("mmr commit");
                    }
                    txn.commit().unwrap();
                }
                // filter rows, in the given order; the pointer ends at `latest`
                let mut rows: Vec<u64> = built.to_vec();
                if rows.last() != Some(&latest) {
                    rows.push(latest);
                }
                for id in rows {
                    let block = self.blocks[&id].clone();
                    let (data, _) = ckb_types::utilities::build_filter_data(NoCells, &block.transactions());
                    let parent_fh = if id == 0 { Byte32::zero() } else { db.get_block_filter_hash(&block.parent_hash()).expect("hand-written filters are chained: parent first") };
                    let txn = db.begin_transaction();
                    let packed: ckb_types::packed::Bytes = data.into();
                    txn.insert_block_filter(&block.hash(), &packed, &parent_fh).unwrap();
                    txn.commit().unwrap();
                }
            }
            let node = Node::start(&dir, consensus, &self.cfg);
            BlockFilter::new(node.shared.clone()).start();
            self.node = Some(node);
        }

        pub fn exec(&mut self, out: &mut Out, line: &str, pick: &mut dyn FnMut(u64) -> u64) {
            let t: Vec<&str> = line.split_whitespace().collect();
            let ans = match t[0] {
                "blk" => {
                    let id: u64 = t[1].parse().unwrap();
                    let parent: u64 = t[2].parse().unwrap();
                    let n_new = pick(3) as usize;
                    let blk = self.build(id, parent, n_new, pick);
                    assert_eq!(blk.number(), id % 10000);
                    if blk.transactions().len() > 1 {
                        self.with_txs += 1;
                    }
                    out.count("blk");
                    let r = self.node().process(&blk);
                    self.by_hash.insert(blk.hash(), id);
                    self.parent.insert(id, parent);
                    self.blocks.insert(id, blk);
                    match r {
                        Ok(_) => "ok".to_string(),
                        Err(e) => {
                            out.oracle_fail("valid-block-rejected", &format!("{line}: {e}"));
                            "rejected".into()
                        }
                    }
                }
                "sync" | "syncm" => {
                    let ids = parse_list(t[1]);
                    assert_eq!(ids, self.node_main(), "replayed main chain differs from the node's");
                    let common = self.main.iter().zip(&ids).take_while(|(a, b)| a == b).count();
                    if common < self.main.len() {
                        self.reorgs += 1;
                        out.count("reorg");
                        // where was LATEST_BUILT_FILTER_DATA when the reorg was noticed by the harness?
                        if let Some(l) = self.node().store().get_latest_built_filter_data_block_hash() {
                            if self.by_hash.get(&l).map(|i| *i != 0 && !ids.contains(i)).unwrap_or(false) {
                                self.latest_abandoned_at_reorg += 1;
                                out.count("reorg-with-latest-built-on-abandoned-branch");
                            }
                        }
                    }
                    self.main = ids;
                    out.count(t[0]);
                    let (main_built, all_built, latest) = self.quiesce_and_check(out, line);
                    if t[0] == "sync" {
                        format!("built {}", join(&all_built, ","))
                    } else {
                        format!("mbuilt {} latest={latest}", join(&main_built, ","))
                    }
                }
                "hblk" => {
                    let id: u64 = t[1].parse().unwrap();
                    let parent: u64 = t[2].parse().unwrap();
                    assert!(self.node.is_none(), "hblk before hstart");
                    let blk = self.build(id, parent, 0, pick);
                    assert_eq!(blk.number(), id % 10000);
                    assert_eq!(blk.transactions().len(), 1);
                    out.count("hblk");
                    self.by_hash.insert(blk.hash(), id);
                    self.parent.insert(id, parent);
                    self.blocks.insert(id, blk);
                    "ok".to_string()
                }
                "hstart" => {
                    let main = parse_list(t[1]);
                    let built = parse_list(t[2]);
                    let latest: u64 = t[3].parse().unwrap();
                    out.count("hstart");
                    self.hand_populate(&main, &built, latest);
                    let longest = self.blocks.keys().map(|i| i % 10000).max().unwrap_or(0);
                    if (main.len() as u64) < longest {
                        out.count("hstart-main-shorter-than-abandoned");
                    }
                    self.main = main;
                    assert_eq!(self.main, self.node_main(), "hand-populated main chain");
                    let (main_built, _, latest) = self.quiesce_and_check(out, line);
                    format!("mbuilt {} latest={latest}", join(&main_built, ","))
                }
                "filter" => {
                    let id: u64 = t[1].parse().unwrap();
                    out.count("filter");
                    let blk = self.blocks[&id].clone();
                    let desc = self.describe(&blk);
                    let data = self.node().store().get_block_filter(&blk.hash()).expect("filter data").raw_data().to_vec();
                    let n = u64::from_le_bytes(data[0..8].try_into().unwrap());
                    let mut values: BTreeSet<u64> = BTreeSet::new();
                    {
                        let mut cur = std::io::Cursor::new(&data[8..]);
                        let mut r = golomb_coded_set::BitStreamReader::new(&mut cur);
                        let mut acc = 0u64;
                        for _ in 0..n {
                            let mut q = 0u64;
                            while r.read(1).expect("gcs bits") == 1 {
                                q += 1;
                            }
                            acc += (q << golomb_coded_set::P) + r.read(golomb_coded_set::P).expect("gcs bits");
                            values.insert(acc);
                        }
                    }
                    let nm = n.wrapping_mul(golomb_coded_set::M);
                    let value_of = |sc: &Script| -> u64 {
                        use std::hash::{BuildHasher, Hasher};
                        let mut h = golomb_coded_set::SipHasher24Builder::new(0, 0).build_hasher();
                        h.write(sc.calc_script_hash().as_slice());
                        ((h.finish() as u128 * nm as u128) >> 64) as u64
                    };
                    let decoded: Vec<u64> = self.scripts.iter().filter(|(_, sc)| values.contains(&value_of(sc))).map(|(id, _)| *id).collect();
                    let known: BTreeSet<u64> = decoded.iter().map(|i| value_of(&self.scripts[i])).collect();
                    let unknown = values.iter().filter(|v| !known.contains(v)).count();
                    // oracle: every script of the block's outputs and spent inputs matches through the real reader
                    let reader = golomb_coded_set::GCSFilterReader::new(golomb_coded_set::SipHasher24Builder::new(0, 0), golomb_coded_set::M, golomb_coded_set::P);
                    let mut expect: BTreeSet<u64> = BTreeSet::new();
                    let mut missing = 0;
                    for (_, ins, outs) in &desc {
                        for i in ins {
                            match i {
                                Some((l, t)) => { expect.insert(*l); if let Some(t) = t { expect.insert(*t); } }
                                None => missing += 1,
                            }
                        }
                        for (l, t) in outs {
                            expect.insert(*l);
                            if let Some(t) = t { expect.insert(*t); }
                        }
                    }
                    for sid in &expect {
                        let h = self.scripts[sid].calc_script_hash();
                        let mut q = vec![h.as_slice()].into_iter();
                        if !reader.match_any(&mut std::io::Cursor::new(&data[..]), &mut q).unwrap_or(false) {
                            out.oracle_fail("filter-misses-script", &format!("{line}: script {sid}"));
                        }
                    }
                    if id != 0 && missing > 0 {
                        out.oracle_fail("filter-input-cell-not-found", &format!("{line}: {missing} spent cells unknown to the harness"));
                    }
                    if expect.len() >= 3 {
                        out.nontrivial(format!("{:?}", desc));
                    }
                    format!("n={} elems={} missing={}{}", n, join(&decoded, ","), missing, if unknown > 0 { format!(" unknown={unknown}") } else { String::new() })
                }
                _ => panic!("bad op {line}"),
            };
            out.op(line, &ans);
        }

        /// the `filter` op line for a block, written by the harness from its own account of the block
        pub fn filter_line(&mut self, id: u64) -> String {
            let blk = self.blocks[&id].clone();
            let desc = self.describe(&blk);
            let cell = |c: &(u64, Option<u64>)| format!("{}:{}", c.0, c.1.map(|t| t.to_string()).unwrap_or("-".into()));
            let txs: Vec<String> = desc
                .iter()
                .map(|(cb, ins, outs)| {
                    let i: Vec<String> = ins.iter().map(|c| c.as_ref().map(cell).unwrap_or("?".into())).collect();
                    let o: Vec<String> = outs.iter().map(cell).collect();
                    format!("{}/{}/{}", if *cb { "c" } else { "n" }, join(&i, ","), join(&o, ","))
                })
                .collect();
            format!("filter {id} {}", txs.join(" "))
        }

        pub fn finish(mut self) {
            if let Some(n) = self.node.take() {
                n.stop();
            }
            self.builder.cleanup();
        }
    }

    pub fn gen_case(out: &mut Out, rng: &mut Rng, base: &std::path::Path, n_blocks: usize) {
        let epoch_len = *rng.pick(&[4u64, 7, 10]);
        out.begin_case(&format!("nfilter epoch_len={epoch_len} seed={}", rng.0));
        let mut content = Rng(rng.0);
        // the filter service keeps a `Shared` clone alive until the process exits, so the RocksDB lock
        // of a finished case is never released: every case gets its own directory
        let mut sim = FNode::new(&base.join(format!("case{}", out.case)), epoch_len);
        sim.exec(out, "sync -", &mut |n| content.below(n));
        let mut uniq = 0u64;
        let mut focus: u64 = 0;
        for _ in 0..n_blocks {
            if rng.chance(1, 6) {
                let tipn = sim.main.len() as u64;
                let at = match rng.below(4) {
                    0 => tipn.saturating_sub(1),
                    1 => tipn.saturating_sub(2),
                    2 => tipn.saturating_sub(3),
                    _ => rng.below(tipn + 1),
                };
                focus = if at == 0 { 0 } else { sim.main[at as usize - 1] };
            }
            uniq += 1;
            let id = uniq * 10000 + focus % 10000 + 1;
            sim.exec(out, &format!("blk {id} {focus}"), &mut |n| content.below(n));
            focus = id;
            let main = sim.node_main();
            if main != sim.main {
                sim.exec(out, &format!("sync {}", join(&main, ",")), &mut |n| content.below(n));
                // the tip's filter, and a random earlier main-chain block's
                let tip = *main.last().unwrap();
                let l = sim.filter_line(tip);
                sim.exec(out, &l, &mut |n| content.below(n));
                if rng.chance(1, 3) {
                    let other = main[rng.below(main.len() as u64) as usize];
                    let l = sim.filter_line(other);
                    sim.exec(out, &l, &mut |n| content.below(n));
                }
            }
        }
        if sim.reorgs > 0 && sim.with_txs > 0 {
            out.nontrivial(format!("{epoch_len}:{:?}", sim.main));
        }
        sim.finish();
    }

    /// Structured histories: deterministic A -> B -> A' steps (the harness waits after each), then bursts
    /// (B' -> A'' -> ... delivered without waiting), fork points tip-1 .. genesis; a final block proves the service alive.
    pub fn gen_reorg_case(out: &mut Out, rng: &mut Rng, base: &std::path::Path, variant: u64) {
        let epoch_len = *rng.pick(&[4u64, 7, 10]);
        out.begin_case(&format!("nfilter-reorg epoch_len={epoch_len} v={variant} seed={}", rng.0));
        let mut content = Rng(rng.0);
        let mut sim = FNode::new(&base.join(format!("case{}", out.case)), epoch_len);
        let mut uniq = 0u64;
        macro_rules! ex { ($l:expr) => { sim.exec(out, &$l, &mut |n| content.below(n)) }; }
        macro_rules! grow { ($parent:expr, $k:expr) => {{
            let mut p: u64 = $parent;
            let mut v: Vec<u64> = vec![];
            for _ in 0..$k { uniq += 1; let id = uniq * 10000 + p % 10000 + 1; ex!(format!("blk {id} {p}")); p = id; v.push(id); }
            v
        }}; }
        macro_rules! sync { ($op:expr) => {{ let m = sim.node_main(); ex!(format!("{} {}", $op, join(&m, ","))); let tip = *m.last().unwrap(); let l = sim.filter_line(tip); ex!(l); }}; }
        ex!("sync -".to_string());
        let f = match variant % 3 { 0 => 0, 1 => rng.range(1, 3), _ => rng.range(3, 8) };
        let trunk = grow!(0, f);
        let fp = trunk.last().copied().unwrap_or(0);
        let k = rng.range(1, 5);
        let a = grow!(fp, k);
        sync!("sync");
        // B: fork point tip-1 .. deep, incl. genesis; LATEST_BUILT = A's tip is abandoned, B's first forked block has no filter
        let tipn = sim.main.len() as u64;
        let fb = match rng.below(4) { 0 => tipn - 1, 1 => 0, 2 => f, _ => rng.below(tipn) };
        let main_all: Vec<u64> = std::iter::once(0u64).chain(sim.main.iter().copied()).collect();
        let b = grow!(main_all[fb as usize], tipn - fb + 1);
        sync!("sync");
        // A': LATEST_BUILT = B's tip is abandoned, the replacing blocks at the first forked heights already have filters
        let ai = rng.below(a.len() as u64) as usize;
        let need = sim.main.len() as u64 + 1 - a[ai] % 10000;
        let a2 = grow!(a[ai], need);
        sync!("sync");
        // bursts: tips flip between the branches (and a third one) without waiting
        let mut tips = vec![*b.last().unwrap(), *a2.last().unwrap()];
        let rounds = 1 + rng.below(3);
        for r in 0..rounds {
            let flips = 2 + rng.below(2);
            for i in 0..flips {
                let which = if rng.chance(1, 4) {
                    // a new branch from a random main-chain block (incl. genesis)
                    let m: Vec<u64> = std::iter::once(0u64).chain(sim.node_main().into_iter()).collect();
                    tips.push(m[rng.below(m.len() as u64) as usize]);
                    tips.len() - 1
                } else {
                    ((r + i) as usize) % tips.len()
                };
                let cur = sim.node_main().len() as u64;
                let from = tips[which];
                if from % 10000 > cur { continue; }
                let v = grow!(from, cur + 1 - from % 10000);
                if let Some(l) = v.last() { tips[which] = *l; }
            }
            out.count("burst");
            sync!("syncm");
        }
        // the service is still alive: one more block, its filter must appear
        let tip = sim.node_main().last().copied().unwrap_or(0);
        grow!(tip, 1);
        sync!("syncm");
        if sim.reorgs >= 3 {
            out.nontrivial(format!("reorg:{epoch_len}:{:?}", sim.main));
        }
        sim.finish();
    }

    /// The real start-up pass of `build_filter_data` over a hand-written store whose main chain is SHORTER than the
    /// abandoned branch that holds LATEST_BUILT_FILTER_DATA.
    pub fn gen_hand_case(out: &mut Out, rng: &mut Rng, base: &std::path::Path, variant: u64) {
        let epoch_len = *rng.pick(&[4u64, 7, 10]);
        out.begin_case(&format!("nfilter-hand epoch_len={epoch_len} v={variant} seed={}", rng.0));
        let mut content = Rng(rng.0);
        let mut sim = FNode::new_opts(&base.join(format!("case{}", out.case)), epoch_len, false);
        let mut uniq = 0u64;
        macro_rules! ex { ($l:expr) => { sim.exec(out, &$l, &mut |n| content.below(n)) }; }
        macro_rules! grow { ($op:expr, $parent:expr, $k:expr) => {{
            let mut p: u64 = $parent;
            let mut v: Vec<u64> = vec![];
            for _ in 0..$k { uniq += 1; let id = uniq * 10000 + p % 10000 + 1; ex!(format!("{} {id} {p}", $op)); p = id; v.push(id); }
            v
        }}; }
        let f = match variant % 3 { 0 => 0, 1 => rng.range(1, 2), _ => rng.range(3, 6) };
        let trunk = grow!("hblk", 0, f);
        let fp = trunk.last().copied().unwrap_or(0);
        let m = rng.range(2, 6);
        let long = grow!("hblk", fp, m);
        let n = rng.range(1, m - 1);
        let short = grow!("hblk", fp, n);
        // filters exist for genesis, the trunk and a prefix of the long branch; the pointer is its last built block
        let j = if rng.chance(1, 2) { m } else { rng.range(1, m) } as usize;
        let mut built = vec![0u64];
        built.extend(trunk.iter().copied());
        built.extend(long[..j].iter().copied());
        let latest = *built.last().unwrap();
        let mut main = trunk.clone();
        main.extend(short.iter().copied());
        ex!(format!("hstart {} {} {latest}", join(&main, ","), join(&built, ",")));
        // the node goes on from the hand-written state: the next block on the shorter, heavier chain is the best
        let tip = *main.last().unwrap();
        let v = grow!("blk", tip, 2);
        let mm = sim.node_main();
        assert_eq!(mm.last(), v.last(), "the shorter chain is the heavier one");
        ex!(format!("syncm {}", join(&mm, ",")));
        let l = sim.filter_line(*v.last().unwrap());
        ex!(l);
        out.nontrivial(format!("hand:{epoch_len}:{f}:{m}:{n}:{j}"));
        sim.finish();
    }
}

pub fn run(opts: &Opts) {
    let mut out = Out::new(&opts.out);
    let mut rng = Rng::new(opts.seed);
    let base = scratch_dir(&opts.out, "c19");
    if opts.extra.first().map(|s| s == "nfilter").unwrap_or(false) {
        if let Some(p) = &opts.replay {
            let ops = read_replay_ops(p);
            let mut sim: Option<nfilter::FNode> = None;
            let mut content = Rng::new(0);
            let mut skip = true;
            for line in &ops {
                let t: Vec<&str> = line.split_whitespace().collect();
                if t[0] == "case" {
                    if let Some(s) = sim.take() {
                        s.finish();
                    }
                    let label = t[2..].join(" ");
                    skip = !label.starts_with("nfilter");
                    if skip {
                        continue;
                    }
                    out.begin_case(&label);
                    let get = |k: &str| label.split(k).nth(1).and_then(|s| s.split_whitespace().next()).and_then(|s| s.parse::<u64>().ok());
                    content = Rng(get("seed=").unwrap_or(0));
                    sim = Some(nfilter::FNode::new_opts(&base.join(format!("case{}", out.case)), get("epoch_len=").unwrap_or(4), !label.starts_with("nfilter-hand")));
                } else if !skip {
                    sim.as_mut().expect("case line first").exec(&mut out, line, &mut |n| content.below(n));
                }
            }
            if let Some(s) = sim.take() {
                s.finish();
            }
        } else {
            let (cases, blocks) = if opts.thorough() { (90 * opts.scale, 60) } else { (6 * opts.scale, 40) };
            let (n_reorg, n_hand) = if opts.thorough() { (60 * opts.scale, 40 * opts.scale) } else { (4 * opts.scale, 3 * opts.scale) };
            for v in 0..n_reorg {
                nfilter::gen_reorg_case(&mut out, &mut rng, &base, v);
            }
            for v in 0..n_hand {
                nfilter::gen_hand_case(&mut out, &mut rng, &base, v);
            }
            for _ in 0..cases {
                nfilter::gen_case(&mut out, &mut rng, &base, blocks);
            }
        }
        let _ = std::fs::remove_dir_all(&base);
        out.finish("a real node with the real BlockFilter service attached, fed blocks with proposed-then-committed transactions (spending genesis cells into outputs with 6 distinct lock scripts and optional type scripts) on forks from tip-1..tip-3 and deeper; after every tip change the harness waits for the service, then checks on the node's store that every main-chain block has a filter, that filter hashes chain, and compares the set of built blocks (all forks) and decoded filter contents with the model; non-trivial iff the case has a reorg and at least one block with committed transactions");
        return;
    }
    if let Some(p) = &opts.replay {
        let ops = read_replay_ops(p);
        let mut sim: Option<NSim> = None;
        let mut skip = true;
        for line in &ops {
            let t: Vec<&str> = line.split_whitespace().collect();
            if t[0] == "case" {
                if let Some(s) = sim.take() {
                    s.finish();
                }
                let label = t[2..].join(" ");
                skip = !label.starts_with("node");
                if skip {
                    continue;
                }
                out.begin_case(&label);
                let epoch_len = label.split("epoch_len=").nth(1).and_then(|s| s.split_whitespace().next()).and_then(|s| s.parse().ok()).unwrap_or(4);
                sim = Some(NSim::new(&base, epoch_len));
            } else if !skip {
                sim.as_mut().expect("case line first").exec(&mut out, line);
            }
        }
        if let Some(s) = sim.take() {
            s.finish();
        }
    } else {
        let (cases, blocks) = if opts.thorough() { (160 * opts.scale, 70) } else { (8 * opts.scale, 45) };
        // structured scenarios first (every run reaches them), then the random walk
        let (n_aba, n_xblk) = if opts.thorough() { (60 * opts.scale, 30 * opts.scale) } else { (6 * opts.scale, 2 * opts.scale) };
        for v in 0..n_aba {
            gen_aba_case(&mut out, &mut rng, &base, v);
        }
        for v in 0..n_xblk {
            gen_xblk_case(&mut out, &mut rng, &base, v);
        }
        for _ in 0..cases {
            gen_case(&mut out, &mut rng, &base, blocks);
        }
    }
    let _ = std::fs::remove_dir_all(&base);
    out.finish("a real node (chain service + RocksDB) fed valid blocks built on arbitrary known parents (forks from tip-1, tip-2, powers of two, genesis; branches overtaking each other; epoch lengths 3..10), plus blocks whose committed chain root has one bit flipped; after every main-chain change: Snapshot::chain_root_mmr(n).get_root() for the tip and earlier blocks, the extension of main-chain blocks, gen_proof + verify against the right and a wrong root; non-trivial iff the main chain was reorganised at least once; distinct by final main chain");
}
