//! C19, node level — the chain service's own MMR handling on a real node with forks.
//!
//! A real node (`Shared` + chain service, RocksDB) is fed valid blocks built on arbitrary parents by
//! `node::ChainBuilder` (which computes each block's chain-root extension over a *fresh linear
//! store of that block's own ancestors*).  The node re-creates its MMR at the fork point over the
//! uncleaned COLUMN_CHAIN_ROOT_MMR on every reorg (chain/src/verify.rs); if a stale node were read,
//! `BlockExtensionVerifier` would reject a valid block or the served roots would differ.
//!
//! Protocol (model side: `ckbmodel_c19 C19 node`, lean/CkbVerif/Driver/C19.lean):
//!   blk <id> <parent>            -> ok          valid block on any known parent: must be accepted
//!   bad <id> <parent>            -> rejected    same, first byte of the committed root flipped
//!   main <id,id,..>              -> root <term> the node's main chain (block 1..tip; genesis = L0),
//!                                               root = Snapshot::chain_root_mmr(tip).get_root()
//!   rootat <n>                   -> root <term> Snapshot::chain_root_mmr(n).get_root()
//!   ext <n>                      -> ext <term>  main-chain block n commits the root over blocks 0..n-1
//!   proof <n> <idx,..>           -> proof <size> <term;..>   chain_root_mmr(n).gen_proof(..)
//! A block id encodes its number: id % 10000.
use crate::common::*;
use crate::node::*;
#[path = "../../hcore/src/c19.rs"]
mod core19;
use ckb_merkle_mountain_range::{leaf_index_to_mmr_size, leaf_index_to_pos, Merge};
use ckb_store::ChainStore;
use ckb_types::core::BlockView;
use ckb_types::packed::{Byte32, HeaderDigest};
use ckb_types::prelude::*;
use ckb_types::utilities::merkle_mountain_range::MergeHeaderDigest;
use core19::{join, parse_list, record, term_of, RecMerge};
use std::collections::HashMap;

/// carry-style chain root with a merge function (real or recording); records every partial bag
fn spec_root<M: Merge<Item = HeaderDigest>>(ds: &[HeaderDigest]) -> Option<HeaderDigest> {
    let mut mountains: Vec<(u32, HeaderDigest)> = vec![];
    for d in ds {
        let mut cur = (0u32, d.clone());
        while let Some((h, _)) = mountains.last() {
            if *h != cur.0 {
                break;
            }
            let (_, left) = mountains.pop().unwrap();
            cur = (cur.0 + 1, M::merge(&left, &cur.1).ok()?);
        }
        mountains.push(cur);
    }
    let mut acc = mountains.pop()?.1;
    while let Some((_, left)) = mountains.pop() {
        acc = M::merge(&left, &acc).ok()?;
    }
    Some(acc)
}

struct NSim {
    node: Option<Node>,
    builder: ChainBuilder,
    /// id -> block
    blocks: HashMap<u64, BlockView>,
    by_hash: HashMap<Byte32, u64>,
    /// hash-of-root -> term (for extension commitments)
    hash_terms: HashMap<Vec<u8>, String>,
    main: Vec<u64>,
    reorgs: u64,
}

impl NSim {
    fn new(base: &std::path::Path, epoch_len: u64) -> NSim {
        let _ = std::fs::remove_dir_all(base);
        let cfg = NodeCfg { epoch_len, window: (2, 4), with_pool: false, ..Default::default() };
        let consensus = make_consensus(&cfg);
        let node = Node::start(&base.join("node"), consensus.clone(), &cfg);
        let builder = ChainBuilder::new(consensus.clone(), &base.join("builder"));
        let g = builder.genesis();
        let mut s = NSim { node: Some(node), builder, blocks: HashMap::new(), by_hash: HashMap::new(), hash_terms: HashMap::new(), main: vec![], reorgs: 0 };
        s.by_hash.insert(g.hash(), 0);
        record(&g.header().digest(), "L0".into());
        s.blocks.insert(0, g);
        s
    }

    fn node(&self) -> &Node {
        self.node.as_ref().unwrap()
    }

    /// ids of the node's main chain, blocks 1..=tip
    fn node_main(&self) -> Vec<u64> {
        let snap = self.node().shared.snapshot();
        let tip = snap.tip_header().number();
        (1..=tip).map(|n| *self.by_hash.get(&snap.get_block_hash(n).expect("index")).expect("main-chain block unknown to the harness")).collect()
    }

    fn digests(&self, upto: usize) -> Vec<HeaderDigest> {
        let mut v = vec![self.blocks[&0].header().digest()];
        for id in &self.main[..upto] {
            v.push(self.blocks[id].header().digest());
        }
        v
    }

    /// record the terms of all nodes / bags of the MMR over main-chain blocks 0..=n, return (real-merge root, its term)
    fn expected_root(&mut self, n: u64) -> HeaderDigest {
        let ds = self.digests(n as usize);
        let rec = spec_root::<RecMerge>(&ds).expect("spec root");
        let real = spec_root::<MergeHeaderDigest>(&ds).expect("spec root");
        assert_eq!(rec.as_slice(), real.as_slice());
        self.hash_terms.insert(real.calc_mmr_hash().as_slice().to_vec(), term_of(&real));
        real
    }

    fn exec(&mut self, out: &mut Out, line: &str) {
        let t: Vec<&str> = line.split_whitespace().collect();
        let ans = match t[0] {
            "blk" | "bad" => {
                let id: u64 = t[1].parse().unwrap();
                let parent: u64 = t[2].parse().unwrap();
                let ph = self.blocks.get(&parent).expect("unknown parent").hash();
                let spec = BlockSpec { salt: id, tweak: if t[0] == "bad" { Tweak::Extension } else { Tweak::None }, ..Default::default() };
                let blk = self.builder.build(&ph, &spec);
                assert_eq!(blk.number(), id % 10000, "id must encode the block number");
                out.count(t[0]);
                let r = self.node().process(&blk);
                if t[0] == "blk" {
                    record(&blk.header().digest(), format!("L{id}"));
                    self.by_hash.insert(blk.hash(), id);
                    self.blocks.insert(id, blk);
                    match r {
                        Ok(_) => "ok".to_string(),
                        Err(e) => {
                            out.oracle_fail("valid-block-rejected", &format!("{line}: {e}"));
                            "rejected".into()
                        }
                    }
                } else {
                    // the parent is the tip, so this block would become the best chain and is fully verified
                    assert_eq!(self.main.last().copied().unwrap_or(0), parent, "bad blocks are only offered on the tip");
                    match r {
                        Err(_) => "rejected".to_string(),
                        Ok(_) => {
                            out.oracle_fail("wrong-chain-root-accepted", line);
                            "ok".into()
                        }
                    }
                }
            }
            "main" => {
                let ids = parse_list(t[1]);
                let actual = self.node_main();
                assert_eq!(ids, actual, "replayed main chain differs from the node's");
                let common = self.main.iter().zip(&ids).take_while(|(a, b)| a == b).count();
                if common < self.main.len() {
                    self.reorgs += 1;
                    out.count("reorg");
                }
                self.main = ids;
                out.count("main");
                let n = self.main.len() as u64;
                self.root_line(out, line, n)
            }
            "rootat" => {
                out.count("rootat");
                self.root_line(out, line, t[1].parse().unwrap())
            }
            "ext" => {
                let n: u64 = t[1].parse().unwrap();
                out.count("ext");
                let want = self.expected_root(n - 1);
                let blk = &self.blocks[&self.main[n as usize - 1]];
                let ext = blk.extension().expect("extension").raw_data();
                if ext.len() < 32 || ext[..32] != want.calc_mmr_hash().as_slice()[..] {
                    out.oracle_fail("extension-not-root-of-ancestors", line);
                }
                format!("ext {}", self.hash_terms.get(&ext[..32.min(ext.len())].to_vec()).cloned().unwrap_or("?".into()))
            }
            "proof" => {
                let n: u64 = t[1].parse().unwrap();
                let idxs = parse_list(t[2]);
                out.count("proof");
                let want = self.expected_root(n);
                let snap = self.node().shared.snapshot();
                let mmr = snap.chain_root_mmr(n);
                match mmr.gen_proof(idxs.iter().map(|i| leaf_index_to_pos(*i)).collect()) {
                    Ok(p) => {
                        let ds = self.digests(n as usize);
                        let mut set: Vec<u64> = idxs.clone();
                        set.sort();
                        set.dedup();
                        let leaves: Vec<(u64, HeaderDigest)> = set.iter().map(|i| (leaf_index_to_pos(*i), ds[*i as usize].clone())).collect();
                        if !matches!(p.verify(want.clone(), leaves.clone()), Ok(true)) {
                            out.oracle_fail("served-proof-does-not-verify", line);
                        }
                        // and not against the root of the previous block's chain
                        if n > 0 {
                            let other = spec_root::<MergeHeaderDigest>(&ds[..n as usize]).unwrap();
                            if matches!(p.verify(other, leaves), Ok(true)) {
                                out.oracle_fail("proof-accepted-for-wrong-chain", line);
                            }
                        }
                        format!("proof {} {}", p.mmr_size(), join(&p.proof_items().iter().map(term_of).collect::<Vec<_>>(), ";"))
                    }
                    Err(e) => {
                        out.oracle_fail("proof-unavailable", &format!("{line}: {e:?}"));
                        "err".into()
                    }
                }
            }
            _ => panic!("bad op {line}"),
        };
        out.op(line, &ans);
    }

    fn root_line(&mut self, out: &mut Out, line: &str, n: u64) -> String {
        let want = self.expected_root(n);
        let snap = self.node().shared.snapshot();
        debug_assert_eq!(snap.chain_root_mmr(n).mmr_size(), leaf_index_to_mmr_size(n));
        match snap.chain_root_mmr(n).get_root() {
            Ok(r) => {
                if r.as_slice() != want.as_slice() {
                    out.oracle_fail("root-not-mmr-root-of-ancestors", &format!("{line}: chain_root_mmr({n})"));
                }
                format!("root {}", term_of(&r))
            }
            Err(e) => {
                out.oracle_fail("root-unavailable", &format!("{line}: {e:?}"));
                "err".into()
            }
        }
    }

    fn finish(mut self) {
        if let Some(n) = self.node.take() {
            n.stop();
        }
        self.builder.cleanup();
    }
}

fn gen_case(out: &mut Out, rng: &mut Rng, base: &std::path::Path, n_blocks: usize) {
    let epoch_len = *rng.pick(&[3u64, 4, 7, 10]);
    out.begin_case(&format!("node epoch_len={epoch_len}"));
    let mut sim = NSim::new(base, epoch_len);
    let mut uniq = 0u64;
    let mut known: Vec<u64> = vec![0];
    let mut focus: u64 = 0; // the branch currently being extended
    for _ in 0..n_blocks {
        // where to build: mostly on the focus branch; sometimes start a fork at an older block
        // (biased to tip-1, tip-2, powers of two, genesis)
        if rng.chance(1, 6) {
            let tipn = sim.main.len() as u64;
            let at = match rng.below(5) {
                0 => tipn.saturating_sub(1),
                1 => tipn.saturating_sub(2),
                2 => { let mut p = 1; while p * 2 <= tipn { p *= 2; } p.min(tipn) }
                3 => 0,
                _ => rng.below(tipn + 1),
            };
            focus = if at == 0 { 0 } else { sim.main[at as usize - 1] };
        } else if rng.chance(1, 10) {
            focus = *rng.pick(&known);
        }
        let number = focus % 10000 + 1;
        uniq += 1;
        let id = uniq * 10000 + number;
        if rng.chance(1, 8) && focus == sim.main.last().copied().unwrap_or(0) {
            uniq += 1;
            sim.exec(out, &format!("bad {} {focus}", uniq * 10000 + number));
        }
        sim.exec(out, &format!("blk {id} {focus}"));
        known.push(id);
        focus = id;
        let main = sim.node_main();
        if main != sim.main {
            sim.exec(out, &format!("main {}", join(&main, ",")));
            let tip = main.len() as u64;
            sim.exec(out, &format!("ext {tip}"));
            if rng.chance(1, 2) {
                sim.exec(out, &format!("rootat {}", rng.below(tip + 1)));
            }
            if rng.chance(1, 2) {
                let n = if rng.chance(1, 2) { tip } else { rng.below(tip + 1) };
                let k = rng.range(1, 3);
                let idxs: Vec<u64> = (0..k).map(|_| rng.below(n + 1)).collect();
                sim.exec(out, &format!("proof {n} {}", join(&idxs, ",")));
            }
            if rng.chance(1, 4) && tip > 1 {
                sim.exec(out, &format!("ext {}", rng.range(1, tip)));
            }
        }
    }
    if sim.reorgs > 0 {
        out.nontrivial(format!("{epoch_len}:{:?}", sim.main));
    }
    sim.finish();
}

pub fn run(opts: &Opts) {
    let mut out = Out::new(&opts.out);
    let mut rng = Rng::new(opts.seed);
    let base = scratch_dir(&opts.out, "c19");
    if let Some(p) = &opts.replay {
        let ops = read_replay_ops(p);
        let mut sim: Option<NSim> = None;
        let mut skip = true;
        for line in &ops {
            let t: Vec<&str> = line.split_whitespace().collect();
            if t[0] == "case" {
                if let Some(s) = sim.take() {
                    s.finish();
                }
                let label = t[2..].join(" ");
                skip = !label.starts_with("node");
                if skip {
                    continue;
                }
                out.begin_case(&label);
                let epoch_len = label.split("epoch_len=").nth(1).and_then(|s| s.split_whitespace().next()).and_then(|s| s.parse().ok()).unwrap_or(4);
                sim = Some(NSim::new(&base, epoch_len));
            } else if !skip {
                sim.as_mut().expect("case line first").exec(&mut out, line);
            }
        }
        if let Some(s) = sim.take() {
            s.finish();
        }
    } else {
        let (cases, blocks) = if opts.thorough() { (60 * opts.scale, 70) } else { (8 * opts.scale, 45) };
        for _ in 0..cases {
            gen_case(&mut out, &mut rng, &base, blocks);
        }
    }
    let _ = std::fs::remove_dir_all(&base);
    out.finish("a real node (chain service + RocksDB) fed valid blocks built on arbitrary known parents (forks from tip-1, tip-2, powers of two, genesis; branches overtaking each other; epoch lengths 3..10), plus blocks whose committed chain root has one bit flipped; after every main-chain change: Snapshot::chain_root_mmr(n).get_root() for the tip and earlier blocks, the extension of main-chain blocks, gen_proof + verify against the right and a wrong root; non-trivial iff the main chain was reorganised at least once; distinct by final main chain");
}
