//! Node-level helpers shared by the hnode sub-commands.
//!
//! * `make_consensus`  a dev-style consensus with short epochs, a chosen proposal window, dummy PoW,
//!                     permanent difficulty, always-success genesis cells to spend.
//! * `Node`            a real node on an explicit directory: `Shared` + chain service (three real
//!                     threads) and, optionally, the tx-pool service with a dummy network.
//! * `ChainBuilder`        builds *valid* blocks on ANY known parent (forks included): it keeps one
//!                     plain `ChainDB` per branch ("builder store") in which blocks are attached
//!                     without verification, and computes cellbase reward, DAO field, epoch, target
//!                     and chain-root extension for the next block with the repo's calculators
//!                     over that store.  `BlockSpec::tweak` produces single-rule violations.
//!
//! All directories are created under the path the caller gives (use `scratch_dir`), never /tmp.
use ckb_app_config::{BlockAssemblerConfig, NetworkConfig, TxPoolConfig};
use ckb_chain::{ChainController, ChainServiceScope};
use ckb_chain_spec::consensus::{Consensus, ConsensusBuilder, ProposalWindow, build_genesis_epoch_ext};
use ckb_dao::DaoCalculator;
use ckb_dao_utils::genesis_dao_data;
use ckb_db::RocksDB;
use ckb_db_schema::COLUMNS;
use ckb_jsonrpc_types::ScriptHashType;
use ckb_network::{Flags, NetworkController, NetworkService, NetworkState, network::TransportType};
use ckb_reward_calculator::RewardCalculator;
use ckb_shared::{Shared, SharedBuilder};
use ckb_store::{ChainDB, ChainStore, attach_block_cell};
use ckb_test_chain_utils::{always_success_cell, create_always_success_tx};
use ckb_types::core::cell::{
    BlockCellProvider, OverlayCellProvider, ResolvedTransaction, resolve_transaction,
};
use ckb_types::core::{
    BlockBuilder, BlockExt, BlockNumber, BlockView, Capacity, EpochExt, EpochNumberWithFraction,
    HeaderView, TransactionBuilder, TransactionView, UncleBlockView, capacity_bytes,
};
use ckb_types::packed::{self, Byte32, CellDep, CellInput, CellOutput, OutPoint, ProposalShortId};
use ckb_types::prelude::*;
use ckb_types::utilities::merkle_mountain_range::ChainRootMMR;
use ckb_types::utilities::DIFF_TWO;
use ckb_merkle_mountain_range::leaf_index_to_mmr_size;
use ckb_types::{bytes::Bytes, h256};
use std::collections::{HashMap, HashSet};
use std::path::{Path, PathBuf};
use std::sync::Arc;

/// A scratch directory: tmpfs when available (RocksDB fsyncs), else under `out`.
pub fn scratch_dir(out: &Path, tag: &str) -> PathBuf {
    let shm = Path::new("/dev/shm");
    let base = if std::env::var("VERIF_NO_SHM").is_err() && shm.is_dir() {
        shm.join(format!("verif-{}-{}", tag, std::process::id()))
    } else {
        out.join(format!("scratch-{}", tag))
    };
    let _ = std::fs::remove_dir_all(&base);
    std::fs::create_dir_all(&base).expect("create scratch dir");
    base
}

#[derive(Clone, Debug)]
pub struct NodeCfg {
    /// blocks per epoch (all epochs; permanent difficulty)
    pub epoch_len: u64,
    /// (closest, farthest) of the proposal window
    pub window: (u64, u64),
    /// number of spendable always-success genesis cells
    pub genesis_cells: u64,
    /// cellbase maturity in epochs (fraction 0): 0 = immediately spendable
    pub maturity_epochs: u64,
    pub with_pool: bool,
    pub tx_pool: Option<TxPoolConfig>,
}

impl Default for NodeCfg {
    fn default() -> Self {
        NodeCfg { epoch_len: 10, window: (2, 10), genesis_cells: 16, maturity_epochs: 0, with_pool: false, tx_pool: None }
    }
}

pub fn make_consensus(cfg: &NodeCfg) -> Consensus {
    let (_, _, always_success_script) = always_success_cell();
    let tx = create_always_success_tx();
    let transactions: Vec<TransactionView> = (0..cfg.genesis_cells)
        .map(|i| {
            let data = Bytes::from(i.to_le_bytes().to_vec());
            TransactionBuilder::default()
                .input(CellInput::new(OutPoint::null(), 0))
                .output(CellOutput::new_builder().capacity(capacity_bytes!(50_000)).lock(always_success_script.clone()).build())
                .output_data(data)
                .build()
        })
        .collect();
    let mut all: Vec<&TransactionView> = vec![&tx];
    all.extend(transactions.iter());
    let dao = genesis_dao_data(all).unwrap();
    let genesis_block = BlockBuilder::default()
        .dao(dao)
        .compact_target(DIFF_TWO)
        .epoch(EpochNumberWithFraction::new_unchecked(0, 0, 0))
        .transaction(tx)
        .transactions(transactions)
        .build();
    let epoch_reward = capacity_bytes!(1_917_808) ;
    let duration_target = 8 * cfg.epoch_len;
    let genesis_epoch_ext = build_genesis_epoch_ext(epoch_reward, DIFF_TWO, cfg.epoch_len, duration_target, (1, 40));
    ConsensusBuilder::new(genesis_block, genesis_epoch_ext)
        .initial_primary_epoch_reward(epoch_reward)
        .epoch_duration_target(duration_target)
        .permanent_difficulty_in_dummy(true)
        .tx_proposal_window(ProposalWindow(cfg.window.0, cfg.window.1))
        .cellbase_maturity(EpochNumberWithFraction::new(cfg.maturity_epochs, 0, 1))
        .build()
}

pub fn always_success_dep() -> CellDep {
    let tx = create_always_success_tx();
    CellDep::new_builder().out_point(OutPoint::new(tx.hash(), 0)).build()
}

/// A transaction spending `inputs` (always-success cells) into `n_out` always-success cells, paying `fee` shannons.
pub fn spend_tx(inputs: &[(OutPoint, u64)], n_out: usize, fee: u64, salt: u64) -> TransactionView {
    let (_, _, script) = always_success_cell();
    let total: u64 = inputs.iter().map(|(_, c)| *c).sum();
    let each = (total - fee) / n_out as u64;
    let mut b = TransactionBuilder::default().cell_dep(always_success_dep());
    for (op, _) in inputs {
        b = b.input(CellInput::new(op.clone(), 0));
    }
    for i in 0..n_out {
        let cap = if i == 0 { total - fee - each * (n_out as u64 - 1) } else { each };
        b = b
            .output(CellOutput::new_builder().capacity(Capacity::shannons(cap)).lock(script.clone()).build())
            .output_data(Bytes::from(salt.to_le_bytes().to_vec()));
    }
    b.build()
}

// ------------------------------------------------------------------------------------------------
// Node
// ------------------------------------------------------------------------------------------------

pub struct Node {
    pub shared: Shared,
    pub chain: Option<ChainServiceScope>,
    pub dir: PathBuf,
    pub consensus: Consensus,
    _network: Option<NetworkController>,
}

fn dummy_network(shared: &Shared, dir: &Path) -> NetworkController {
    let config = NetworkConfig {
        max_peers: 19,
        max_outbound_peers: 5,
        path: dir.join("network"),
        ping_interval_secs: 15,
        ping_timeout_secs: 20,
        connect_outbound_interval_secs: 1,
        discovery_local_address: true,
        bootnode_mode: true,
        reuse_port_on_linux: true,
        ..Default::default()
    };
    let network_state = Arc::new(NetworkState::from_config(config).expect("Init network state failed"));
    NetworkService::new(
        network_state,
        vec![],
        vec![],
        (shared.consensus().identify_name(), "test".to_string(), Flags::COMPATIBILITY),
        TransportType::Tcp,
    )
    .start(shared.async_handle())
    .expect("Start network service failed")
}

thread_local! {
    static RUNTIME: std::cell::OnceCell<ckb_async_runtime::Handle> = const { std::cell::OnceCell::new() };
}

pub fn runtime_handle() -> ckb_async_runtime::Handle {
    static H: std::sync::OnceLock<ckb_async_runtime::Handle> = std::sync::OnceLock::new();
    H.get_or_init(ckb_async_runtime::new_background_runtime).clone()
}

impl Node {
    /// Opens (or creates) the node database under `dir/db` and starts the services.
    pub fn start(dir: &Path, consensus: Consensus, cfg: &NodeCfg) -> Node {
        Self::start_with_ancient(dir, consensus, cfg, None)
    }

    pub fn start_with_ancient(dir: &Path, consensus: Consensus, cfg: &NodeCfg, ancient: Option<PathBuf>) -> Node {
        std::fs::create_dir_all(dir.join("header_map")).unwrap();
        let db_config = ckb_app_config::DBConfig { path: dir.join("db"), ..Default::default() };
        let freezer_enable = ancient.is_some();
        let mut builder = SharedBuilder::new("verif", dir, &db_config, ancient, runtime_handle(), consensus.clone())
            .unwrap_or_else(|e| panic!("SharedBuilder::new failed: {e:?}"))
            .header_map_tmp_dir(Some(dir.join("header_map")))
            .store_config(ckb_app_config::StoreConfig { freezer_enable, ..Default::default() });
        if let Some(tp) = &cfg.tx_pool {
            builder = builder.tx_pool_config(tp.clone());
        }
        let ba = BlockAssemblerConfig {
            code_hash: h256!("0x0"),
            args: Default::default(),
            hash_type: ScriptHashType::Data,
            message: Default::default(),
            use_binary_version_as_message_prefix: false,
            binary_version: "TEST".to_string(),
            update_interval_millis: 800,
            notify: vec![],
            notify_scripts: vec![],
            notify_timeout_millis: 800,
        };
        let (shared, mut pack) = builder.block_assembler_config(Some(ba)).build().unwrap_or_else(|e| panic!("SharedBuilder::build failed: {e:?}"));
        let network = if cfg.with_pool {
            let n = dummy_network(&shared, dir);
            pack.take_tx_pool_builder().start(n.clone());
            Some(n)
        } else {
            None
        };
        let chain = ChainServiceScope::new(pack.take_chain_services_builder());
        Node { shared, chain: Some(chain), dir: dir.to_path_buf(), consensus, _network: network }
    }

    pub fn controller(&self) -> &ChainController {
        self.chain.as_ref().unwrap().chain_controller()
    }

    /// Synchronous delivery through the chain service (what the miner RPC does).
    /// Ok(true) newly verified, Ok(false) already known; Err = rejected (error text).
    pub fn process(&self, block: &BlockView) -> Result<bool, String> {
        self.controller().blocking_process_block(Arc::new(block.clone())).map_err(|e| e.to_string())
    }

    pub fn tip(&self) -> HeaderView {
        self.shared.snapshot().tip_header().clone()
    }

    pub fn tip_hash(&self) -> Byte32 {
        self.shared.snapshot().tip_hash()
    }

    pub fn total_difficulty(&self) -> ckb_types::U256 {
        self.shared.snapshot().total_difficulty().clone()
    }

    pub fn store(&self) -> &ChainDB {
        self.shared.store()
    }

    /// Stops the chain service threads and drops the handles (the RocksDB lock is released when the
    /// last `Shared` clone is gone; with the tx-pool service started that needs the global exit
    /// signal, so in-process restarts should use `with_pool = false`).
    pub fn stop(mut self) {
        self.chain.take();
    }
}

// ------------------------------------------------------------------------------------------------
// Builder
// ------------------------------------------------------------------------------------------------

/// One branch replayed into a plain ChainDB (no verification), tip = last attached block.
struct BranchStore {
    db: ChainDB,
    dir: PathBuf,
    tip: Byte32,
}

#[derive(Clone, Debug, Default)]
pub enum Tweak {
    #[default]
    None,
    /// cellbase output capacity + delta shannons (reward rule)
    CellbaseCapacity(i64),
    /// last byte of the dao field flipped (DAO rule)
    Dao,
    /// block number + 1 (header linkage)
    Number,
    /// epoch fraction index + 1 (epoch continuity)
    EpochIndex,
    /// compact target changed (target rule)
    Target,
    /// timestamp = that value (median / future rule)
    Timestamp(u64),
    /// chain-root extension: first byte flipped
    Extension,
    /// extension removed
    NoExtension,
    /// transactions root corrupted (merkle rule): raw header field overwritten
    TxRoot,
    /// proposals hash corrupted
    ProposalsHash,
}

#[derive(Clone, Default)]
pub struct BlockSpec {
    pub txs: Vec<TransactionView>,
    pub proposals: Vec<ProposalShortId>,
    pub uncles: Vec<UncleBlockView>,
    /// distinguishes sibling blocks with otherwise equal content (goes into the cellbase witness message)
    pub salt: u64,
    pub tweak: Tweak,
    pub timestamp: Option<u64>,
}

pub struct ChainBuilder {
    pub consensus: Consensus,
    pub blocks: HashMap<Byte32, BlockView>,
    branches: Vec<BranchStore>,
    base: PathBuf,
    counter: usize,
    pub max_branch_stores: usize,
    /// args of the miner lock (always-success script) put into the cellbase witness of the blocks
    /// built from now on; empty = the plain always-success script. Distinct args give distinct
    /// miner locks, so forks can pay different miners (set before `build`).
    pub miner_args: Vec<u8>,
}

impl ChainBuilder {
    pub fn new(consensus: Consensus, base: &Path) -> ChainBuilder {
        let mut blocks = HashMap::new();
        let g = consensus.genesis_block().clone();
        blocks.insert(g.hash(), g);
        std::fs::create_dir_all(base).unwrap();
        ChainBuilder { consensus, blocks, branches: vec![], base: base.to_path_buf(), counter: 0, max_branch_stores: 6, miner_args: Vec::new() }
    }

    pub fn genesis(&self) -> BlockView {
        self.consensus.genesis_block().clone()
    }

    pub fn block(&self, hash: &Byte32) -> &BlockView {
        self.blocks.get(hash).expect("builder knows the block")
    }

    /// genesis..=hash
    pub fn path_to(&self, hash: &Byte32) -> Vec<Byte32> {
        let mut v = vec![];
        let mut h = hash.clone();
        loop {
            v.push(h.clone());
            let b = self.block(&h);
            if b.number() == 0 {
                break;
            }
            h = b.parent_hash();
        }
        v.reverse();
        v
    }

    fn new_store(&mut self) -> BranchStore {
        self.counter += 1;
        let dir = self.base.join(format!("branch-{}", self.counter));
        let _ = std::fs::remove_dir_all(&dir);
        let db = ChainDB::new(RocksDB::open_in(&dir, COLUMNS), Default::default());
        db.init(&self.consensus).expect("init builder store");
        BranchStore { db, dir, tip: self.consensus.genesis_hash() }
    }

    /// attach `block` (child of the store's tip) to a builder store, as the chain service would
    /// after a successful verification: cells, index, epoch, MMR, ext with real fees.
    fn attach(consensus: &Consensus, bs: &mut BranchStore, block: &BlockView) {
        let db = &bs.db;
        assert_eq!(block.parent_hash(), bs.tip);
        let parent_header = db.get_block_header(&block.parent_hash()).expect("parent in builder store");
        let parent_ext = db.get_block_ext(&block.parent_hash()).expect("parent ext");
        let next_epoch = consensus.next_epoch_ext(&parent_header, &db.borrow_as_data_loader()).expect("epoch");
        let is_head = next_epoch.is_head();
        let epoch = next_epoch.epoch();
        // fees (ignoring unresolvable txs: invalid blocks are never attached to builder stores)
        let txn = db.begin_transaction();
        let fees: Vec<Capacity> = {
            let mut seen = HashSet::new();
            let bcp = BlockCellProvider::new(block).expect("block cell provider");
            let cp = OverlayCellProvider::new(&bcp, &txn);
            let hc = MainChainHeaders { db };
            let loader = db.borrow_as_data_loader();
            let calc = DaoCalculator::new(consensus, &loader);
            block
                .transactions()
                .iter()
                .skip(1)
                .map(|tx| {
                    let rtx = resolve_transaction(tx.clone(), &mut seen, &cp, &hc).expect("resolve in builder store");
                    calc.transaction_fee(&rtx).expect("fee")
                })
                .collect()
        };
        txn.insert_block(block).unwrap();
        txn.attach_block(block).unwrap();
        attach_block_cell(&txn, block).unwrap();
        txn.insert_block_epoch_index(&block.hash(), &epoch.last_block_hash_in_previous_epoch()).unwrap();
        if is_head {
            txn.insert_epoch_ext(&epoch.last_block_hash_in_previous_epoch(), &epoch).unwrap();
        }
        let ext = BlockExt {
            received_at: 0,
            total_difficulty: parent_ext.total_difficulty.clone() + block.header().difficulty(),
            total_uncles_count: parent_ext.total_uncles_count + block.data().uncles().len() as u64,
            verified: Some(true),
            txs_fees: fees,
            cycles: None,
            txs_sizes: None,
        };
        txn.insert_block_ext(&block.hash(), &ext).unwrap();
        txn.insert_tip_header(&block.header()).unwrap();
        txn.insert_current_epoch_ext(&epoch).unwrap();
        {
            let mmr_size = leaf_index_to_mmr_size(block.number() - 1);
            let mut mmr = ChainRootMMR::new(mmr_size, &txn);
            mmr.push(block.digest()).expect("mmr push");
            mmr.commit().expect("mmr commit");
        }
        txn.commit().unwrap();
        bs.tip = block.hash();
    }

    /// index of a builder store whose tip is `parent` (replaying the branch into a new store if none)
    fn store_for(&mut self, parent: &Byte32) -> usize {
        if let Some(i) = self.branches.iter().position(|b| &b.tip == parent) {
            return i;
        }
        if self.branches.len() >= self.max_branch_stores {
            let old = self.branches.remove(0);
            let dir = old.dir.clone();
            drop(old);
            let _ = std::fs::remove_dir_all(dir);
        }
        let mut bs = self.new_store();
        let path = self.path_to(parent);
        for h in path.iter().skip(1) {
            let b = self.blocks.get(h).unwrap().clone();
            Self::attach(&self.consensus, &mut bs, &b);
        }
        self.branches.push(bs);
        self.branches.len() - 1
    }

    /// The ChainDB holding exactly the branch genesis..=hash attached (for oracles that need a
    /// reference replay: live cells, indexes …).
    pub fn replay_store(&mut self, hash: &Byte32) -> &ChainDB {
        let i = self.store_for(hash);
        &self.branches[i].db
    }

    /// Build a block on `parent` (any block this builder produced, or genesis). The block is valid
    /// unless `spec.tweak` says otherwise (or the txs/proposals/uncles given break a rule).
    /// Valid blocks are remembered and can be built upon; tweaked ones are remembered too (so
    /// children of invalid blocks can be built), but are never attached to a builder store unless
    /// `attachable` (structurally fine for the store) — children of tweaked blocks are built on a
    /// store that attached them anyway, which works for every tweak above.
    pub fn build(&mut self, parent: &Byte32, spec: &BlockSpec) -> BlockView {
        let consensus = self.consensus.clone();
        let i = self.store_for(parent);
        let db = &self.branches[i].db;
        let parent_header = db.get_block_header(parent).expect("parent header");
        let number = parent_header.number() + 1;
        let loader = db.borrow_as_data_loader();
        let next_epoch = consensus.next_epoch_ext(&parent_header, &loader).expect("epoch");
        let epoch = next_epoch.epoch();

        // cellbase
        let (_, _, always_success_script) = always_success_cell();
        let miner_lock = if self.miner_args.is_empty() {
            always_success_script.clone()
        } else {
            always_success_script.clone().as_builder().args(Bytes::from(self.miner_args.clone()).pack()).build()
        };
        let witness = packed::CellbaseWitness::new_builder()
            .lock(miner_lock)
            .message(Bytes::from(spec.salt.to_le_bytes().to_vec()).pack())
            .build();
        let mut cb = TransactionBuilder::default().input(CellInput::new_cellbase_input(number)).witness(witness.as_bytes().pack());
        if number > consensus.finalization_delay_length() {
            let (target_lock, reward) = RewardCalculator::new(&consensus, db).block_reward_to_finalize(&parent_header).expect("reward");
            let mut cap = reward.total.as_u64();
            if let Tweak::CellbaseCapacity(d) = spec.tweak {
                cap = (cap as i64 + d) as u64;
            }
            cb = cb.output(CellOutput::new_builder().capacity(Capacity::shannons(cap)).lock(target_lock).build()).output_data(Bytes::new());
        }
        let cellbase = cb.build();

        // dao
        let mut all_txs = vec![cellbase.clone()];
        all_txs.extend(spec.txs.iter().cloned());
        let dao = {
            let txn = db.begin_transaction();
            let mut seen = HashSet::new();
            let tmp_block = BlockBuilder::default().transactions(all_txs.clone()).build();
            let bcp = BlockCellProvider::new(&tmp_block).expect("block cell provider (tx order)");
            let cp = OverlayCellProvider::new(&bcp, &txn);
            let hc = MainChainHeaders { db };
            let rtxs: Result<Vec<Arc<ResolvedTransaction>>, _> = all_txs.iter().map(|tx| resolve_transaction(tx.clone(), &mut seen, &cp, &hc).map(Arc::new)).collect();
            match rtxs {
                Ok(rtxs) => DaoCalculator::new(&consensus, &loader).dao_field(rtxs.iter().map(AsRef::as_ref), &parent_header).unwrap_or_else(|_| parent_header.dao()),
                // unresolvable txs: the block is invalid anyway; any dao will do
                Err(_) => parent_header.dao(),
            }
        };
        let dao = if matches!(spec.tweak, Tweak::Dao) {
            let mut raw = dao.raw_data().to_vec();
            raw[31] ^= 1;
            Byte32::from_slice(&raw).unwrap()
        } else {
            dao
        };

        // chain-root extension
        let extension: Option<packed::Bytes> = if consensus.rfc0044_active(epoch.number()) && !matches!(spec.tweak, Tweak::NoExtension) {
            let mmr_size = leaf_index_to_mmr_size(parent_header.number());
            let txn = db.begin_transaction();
            let mmr = ChainRootMMR::new(mmr_size, &txn);
            let root = mmr.get_root().expect("chain root");
            let mut bytes = root.calc_mmr_hash().as_bytes().to_vec();
            if matches!(spec.tweak, Tweak::Extension) {
                bytes[0] ^= 1;
            }
            Some(Bytes::from(bytes).pack())
        } else {
            None
        };

        let mut ts = spec.timestamp.unwrap_or(parent_header.timestamp() + 1 + spec.salt % 3);
        if let Tweak::Timestamp(t) = spec.tweak {
            ts = t;
        }
        let mut compact_target = epoch.compact_target();
        if matches!(spec.tweak, Tweak::Target) {
            compact_target -= 1;
        }
        let mut epoch_field = epoch.number_with_fraction(number);
        if matches!(spec.tweak, Tweak::EpochIndex) {
            epoch_field = EpochNumberWithFraction::new_unchecked(epoch_field.number(), epoch_field.index() + 1, epoch_field.length());
        }
        let mut bb = BlockBuilder::default()
            .parent_hash(parent.clone())
            .number(if matches!(spec.tweak, Tweak::Number) { number + 1 } else { number })
            .timestamp(ts)
            .compact_target(compact_target)
            .epoch(epoch_field)
            .dao(dao)
            .transactions(all_txs)
            .proposals(spec.proposals.clone())
            .uncles(spec.uncles.clone());
        if let Some(ext) = extension {
            bb = bb.extension(Some(ext));
        }
        let mut block = bb.build();
        // header-field tweaks must keep the body and must NOT go through `into_view()` (which
        // recomputes the roots) nor `Block::as_builder()` (which drops the extension field)
        let rebuild = |block: &BlockView, raw: packed::RawHeader| -> BlockView {
            let data = block.data();
            let header = data.header().as_builder().raw(raw).build();
            let nb = match data.extension() {
                Some(ext) => packed::BlockV1::new_builder()
                    .header(header)
                    .uncles(data.uncles())
                    .transactions(data.transactions())
                    .proposals(data.proposals())
                    .extension(ext)
                    .build()
                    .as_v0(),
                None => data.as_builder().header(header).build(),
            };
            nb.into_view_without_reset_header()
        };
        match spec.tweak {
            Tweak::TxRoot => {
                let raw = block.data().header().raw().as_builder().transactions_root(Byte32::zero()).build();
                block = rebuild(&block, raw);
            }
            Tweak::ProposalsHash => {
                let raw = block.data().header().raw().as_builder().proposals_hash(h256!("0x1").pack()).build();
                block = rebuild(&block, raw);
            }
            _ => {}
        }
        self.blocks.insert(block.hash(), block.clone());
        // extend this branch store in place when the block is fine for it
        if matches!(spec.tweak, Tweak::None) {
            let bs = &mut self.branches[i];
            if Self::try_attach(&consensus, bs, &block).is_err() {
                // e.g. unresolvable txs: keep the store at the parent
            }
        }
        block
    }

    fn try_attach(consensus: &Consensus, bs: &mut BranchStore, block: &BlockView) -> Result<(), ()> {
        let r = std::panic::catch_unwind(std::panic::AssertUnwindSafe(|| Self::attach(consensus, bs, block)));
        r.map_err(|_| ())
    }

    pub fn cleanup(&mut self) {
        for b in self.branches.drain(..) {
            let dir = b.dir.clone();
            drop(b);
            let _ = std::fs::remove_dir_all(dir);
        }
    }
}

impl Drop for ChainBuilder {
    fn drop(&mut self) {
        self.cleanup();
    }
}

/// HeaderChecker over a builder store's main chain.
struct MainChainHeaders<'a> {
    db: &'a ChainDB,
}

impl ckb_types::core::cell::HeaderChecker for MainChainHeaders<'_> {
    fn check_valid(&self, block_hash: &Byte32) -> Result<(), ckb_types::core::error::OutPointError> {
        match self.db.get_block_number(block_hash) {
            Some(n) if self.db.get_block_hash(n).as_ref() == Some(block_hash) => Ok(()),
            _ => Err(ckb_types::core::error::OutPointError::InvalidHeader(block_hash.clone())),
        }
    }
}

/// The spendable genesis cells: (out_point, capacity in shannons)
pub fn genesis_cells(consensus: &Consensus) -> Vec<(OutPoint, u64)> {
    consensus
        .genesis_block()
        .transactions()
        .iter()
        .skip(1)
        .map(|tx| (OutPoint::new(tx.hash(), 0), tx.outputs().get(0).unwrap().capacity().unpack()))
        .map(|(op, c): (OutPoint, Capacity)| (op, c.as_u64()))
        .collect()
}

pub fn block_number_of(b: &BlockView) -> BlockNumber {
    b.number()
}

pub fn epoch_of(e: &EpochExt) -> u64 {
    e.number()
}
