//! C16 (hnode half) — compact-block reconstruction on the REAL `Relayer::reconstruct_block`
//! (a real `Shared` + chain service + tx-pool service + dummy network, `SyncShared`, `Relayer`),
//! and the REAL network frame `ckb_network::compress::{compress, decompress}`.
//!
//! Stream `cb` (model: lean/CkbVerif/Driver/C16.lean, `Model/Compact.lean`):
//!   recon root=<ids|bad> ph=<ok|bad> eh=<ok|bad> sids=<ids> pre=<i:t;…> recv=<ids> uncles=<n> upeer=<idx> ext=<0|1> props=<n>
//!      -> verify-err <kind> | block txs=<ids> hdr=<same|reset> | missing txs=<idx> uncles=<idx> | collided | unmatched
//!   ids name real, pairwise different transactions (their real short ids are pairwise different,
//!   the model uses the id as short id); `root=<ids>` puts the real merkle root of that list into the
//!   compact header; ph/eh say whether proposals_hash / extra_hash in the compact header match its
//!   proposals / uncles / extension; uncles are real uncle blocks, `upeer` are the indexes supplied
//!   by the peer (the rest is unknown to the chain, which holds only the genesis block); the
//!   tx-pool is empty.  As in `CompactBlockProcess::execute`, `CompactBlockVerifier::verify` runs
//!   first and reconstruction only on success.
//!
//!   btxv sids=<ids> pre=<i:t;…> idx=<indexes> txs=<ids>  -> panic | length | shortids | ok
//!      the real `BlockTransactionsVerifier::verify` (verif-hooks pass-through) on that compact block, the indexes
//!      "requested" and the transactions "received"
//!   unv uncles=<n> idx=<indexes> recv=<uncle ids>         -> length | unmatched | ok total | ok panic
//!      the real `BlockUnclesVerifier::verify`, then — only on ok, as `BlockTransactionsProcess::execute` does — the real
//!      `Relayer::reconstruct_block` with those uncle indexes / received uncles (`panic` = it panicked)
//!
//! Oracle (implementation alone):
//!   btx-verifier-panic           `BlockTransactionsVerifier::verify` panics (indexes at or above txs_len included: they
//!                                come from another peer's variant of the compact block, /repo 804c7e9)
//!   reconstruct-header-differs   Block(b) but b.hash() != hash of the compact header (whose PoW was checked)
//!   reconstruct-wrong-body       Block(b) but b's transactions are not the list the header root commits to /
//!                                proposals or uncle hashes differ from the compact block
//!   reconstruct-missing-imprecise  Missing(ixs, us) but ixs/us are not exactly the unavailable positions
//!   reconstruct-panic / verify-panic   `reconstruct_block` / `CompactBlockVerifier::verify` panics (caught on the calling
//!                                thread; the driver's own expected-layout code cannot panic and the node is never dropped,
//!                                so a panic is always reported, never a hang)
//!
//! Stream `codec`: the production `LengthDelimitedCodecWithCompress` — see c16_codec.rs.
//! Stream `recv`: the real `Synchronizer::received` / `Relayer::received` — see c16_recv.rs.
//! Stream `proto`: filter / light-client / time handlers and the discovery / identify / ping decoders — see c16_proto.rs.
//!
//! Stream `frame` (model: `Model/Frame.lean`):
//!   dec v <hex>   -> err | raw <len> | snappy <len>    frames whose snappy body is known to be valid
//!   dec u <hex>   -> err | raw <len> | flagged          arbitrary frames: only the flag / raw decision is compared,
//!                                                      the size bound is the oracle `frame-unbounded`
//!   cmp <len>     -> raw | snappy                        first byte of `compress(zeros(len))`
use crate::common::*;
use crate::node::*;
#[path = "c16_codec.rs"]
mod codec;
#[path = "c16_recv.rs"]
mod recv;
#[path = "c16_proto.rs"]
mod proto;
use ckb_network::compress::{compress, decompress};
use ckb_sync::{ReconstructionResult, Relayer, StatusCode, SyncShared, verif_block_transactions_verify, verif_block_uncles_verify, verif_compact_block_verify};
use ckb_types::core::{BlockView, HeaderBuilder, TransactionBuilder, TransactionView, UncleBlockView};
use ckb_types::packed::{self, Byte32, CellOutput};
use ckb_types::prelude::*;
use ckb_types::utilities::merkle_root;
use std::panic::{AssertUnwindSafe, catch_unwind};
use std::sync::Arc;

const N_TX: usize = 14;

struct World {
    _node: Node,
    relayer: Relayer,
    rt: tokio::runtime::Runtime,
    txs: Vec<TransactionView>,
    uncles: Vec<UncleBlockView>,
    proposals: Vec<packed::ProposalShortId>,
}

fn list(xs: &[usize]) -> String {
    if xs.is_empty() { "-".into() } else { xs.iter().map(|x| x.to_string()).collect::<Vec<_>>().join(",") }
}

fn parse_list(s: &str) -> Vec<usize> {
    if s == "-" { vec![] } else { s.split(',').map(|x| x.parse().expect("number")).collect() }
}

fn tx_root(txs: &[&TransactionView]) -> Byte32 {
    let raw: Vec<Byte32> = txs.iter().map(|t| t.hash()).collect();
    let wit: Vec<Byte32> = txs.iter().map(|t| t.witness_hash()).collect();
    merkle_root(&[merkle_root(&raw), merkle_root(&wit)])
}

impl World {
    fn new(out: &std::path::Path) -> World {
        let dir = scratch_dir(out, "c16");
        let cfg = NodeCfg { with_pool: true, ..Default::default() };
        let consensus = make_consensus(&cfg);
        let node = Node::start(&dir, consensus, &cfg);
        let (_tx, rx) = ckb_channel::unbounded::<ckb_tx_pool::service::TxVerificationResult>();
        let sync_shared = Arc::new(SyncShared::new(node.shared.clone(), Default::default(), rx));
        let relayer = Relayer::new(node.controller().clone(), sync_shared);
        let rt = tokio::runtime::Builder::new_current_thread().enable_all().build().unwrap();
        let txs = (0..N_TX)
            .map(|i| {
                TransactionBuilder::default()
                    .output(CellOutput::new_builder().capacity(1000 + i as u64).build())
                    .output_data(ckb_types::bytes::Bytes::from(vec![i as u8; i % 3]))
                    .witness(ckb_types::bytes::Bytes::from(vec![0xa0 + i as u8; 1 + i % 2]))
                    .build()
            })
            .collect();
        let uncles = (0..3u64)
            .map(|i| {
                let header = HeaderBuilder::default().number(5 + i).epoch(ckb_types::core::EpochNumberWithFraction::new(1, 1, 10).full_value()).timestamp(77 + i).nonce(i as u128 + 9).build();
                packed::UncleBlock::new_builder().header(header.data()).build().into_view()
            })
            .collect();
        let proposals = (0..4u8).map(|i| packed::ProposalShortId::new([i + 1; 10])).collect();
        World { _node: node, relayer, rt, txs, uncles, proposals }
    }

    /// one `recon` line on the real code; returns the canonical answer
    fn recon(&self, out: &mut Out, line: &str) -> String {
        let f = |k: &str| -> String {
            line.split(' ').find_map(|t| t.strip_prefix(&format!("{k}="))).unwrap_or_else(|| panic!("missing {k}")).to_string()
        };
        let sids = parse_list(&f("sids"));
        let pre: Vec<(usize, usize)> = if f("pre") == "-" {
            vec![]
        } else {
            f("pre").split(';').map(|p| {
                let (a, b) = p.split_once(':').expect("pre pair");
                (a.parse().unwrap(), b.parse().unwrap())
            }).collect()
        };
        let recv = parse_list(&f("recv"));
        let n_uncles: usize = f("uncles").parse().unwrap();
        let upeer = parse_list(&f("upeer"));
        let ext = f("ext") == "1";
        let n_props: usize = f("props").parse().unwrap();
        let root = f("root");

        let uncles: Vec<&UncleBlockView> = self.uncles.iter().take(n_uncles).collect();
        let uncle_hashes: Vec<Byte32> = uncles.iter().map(|u| u.hash()).collect();
        let proposals: Vec<packed::ProposalShortId> = self.proposals.iter().take(n_props).cloned().collect();
        let extension: Option<packed::Bytes> = if ext { Some(packed::Bytes::from(ckb_types::bytes::Bytes::from(vec![7u8; 40]))) } else { None };
        let committed: Option<Vec<usize>> = if root == "bad" { None } else { Some(parse_list(&root)) };
        let root_hash: Byte32 = match &committed {
            Some(l) => tx_root(&l.iter().map(|i| &self.txs[*i]).collect::<Vec<_>>()),
            None => Byte32::from_slice(&[0xEEu8; 32]).unwrap(),
        };
        // the hashes a consistent header would carry, computed from the body by the packed helpers
        let proposals_vec = packed::ProposalShortIdVec::new_builder().set(proposals.clone()).build();
        let uncles_vec = packed::UncleBlockVec::new_builder().set(uncles.iter().map(|u| u.data()).collect()).build();
        let good_ph = proposals_vec.calc_proposals_hash();
        let good_eh = ckb_types::core::ExtraHashView::new(uncles_vec.calc_uncles_hash(), extension.as_ref().map(|e| e.calc_raw_data_hash())).extra_hash();
        let header = HeaderBuilder::default()
            .number(1u64)
            .epoch(ckb_types::core::EpochNumberWithFraction::new(0, 1, 10).full_value())
            .timestamp(12345u64)
            .transactions_root(root_hash.clone())
            .proposals_hash(if f("ph") == "ok" { good_ph } else { Byte32::from_slice(&[0xDDu8; 32]).unwrap() })
            .extra_hash(if f("eh") == "ok" { good_eh } else { Byte32::from_slice(&[0xCCu8; 32]).unwrap() })
            .build();
        let short_ids: Vec<packed::ProposalShortId> = sids.iter().map(|i| self.txs[*i].proposal_short_id()).collect();
        let prefilled: Vec<packed::IndexTransaction> = pre
            .iter()
            .map(|(idx, t)| packed::IndexTransaction::new_builder().index(*idx as u32).transaction(self.txs[*t].data()).build())
            .collect();
        let cb: packed::CompactBlock = match &extension {
            Some(e) => packed::CompactBlockV1::new_builder()
                .header(header.data())
                .short_ids(packed::ProposalShortIdVec::new_builder().set(short_ids.clone()).build())
                .prefilled_transactions(packed::IndexTransactionVec::new_builder().set(prefilled).build())
                .uncles(packed::Byte32Vec::new_builder().set(uncle_hashes.clone()).build())
                .proposals(packed::ProposalShortIdVec::new_builder().set(proposals.clone()).build())
                .extension(e.clone())
                .build()
                .as_v0(),
            None => packed::CompactBlock::new_builder()
                .header(header.data())
                .short_ids(packed::ProposalShortIdVec::new_builder().set(short_ids.clone()).build())
                .prefilled_transactions(packed::IndexTransactionVec::new_builder().set(prefilled).build())
                .uncles(packed::Byte32Vec::new_builder().set(uncle_hashes.clone()).build())
                .proposals(packed::ProposalShortIdVec::new_builder().set(proposals.clone()).build())
                .build(),
        };
        let st = match catch_unwind(AssertUnwindSafe(|| verif_compact_block_verify(&cb))) {
            Ok(st) => st,
            Err(e) => {
                out.oracle_fail("verify-panic", &format!("{} panic={:?}", line, e.downcast_ref::<String>()));
                return "panic".into();
            }
        };
        if !st.is_ok() {
            out.count("verify-err");
            return format!(
                "verify-err {}",
                match st.code() {
                    StatusCode::CompactBlockHasNotPrefilledCellbase => "no-cellbase",
                    StatusCode::CompactBlockHasOutOfIndexPrefilledTransactions => "out-of-index",
                    StatusCode::CompactBlockHasOutOfOrderPrefilledTransactions => "out-of-order",
                    StatusCode::CompactBlockHasDuplicatedShortIds => "dup-short-ids",
                    StatusCode::CompactBlockHasDuplicatedPrefilledTransactions => "dup-prefilled",
                    _ => "other",
                }
            );
        }
        let received: Vec<TransactionView> = recv.iter().map(|i| self.txs[*i].clone()).collect();
        let uncles_index: Vec<u32> = upeer.iter().map(|i| *i as u32).collect();
        let received_uncles: Vec<UncleBlockView> = upeer.iter().map(|i| self.uncles[*i].clone()).collect();
        let active_chain = self.relayer.shared().active_chain();
        let r = catch_unwind(AssertUnwindSafe(|| {
            self.rt.block_on(self.relayer.reconstruct_block(&active_chain, &cb, received, &uncles_index, &received_uncles))
        }));
        // expected layout, independent of the implementation (valid for verified compact blocks)
        let total = pre.len() + sids.len();
        let mut slots: Vec<Option<usize>> = vec![None; total]; // Some(tx) prefilled
        // (a verifier that lets an impossible prefilled list through must show up as an oracle failure of the
        // implementation, not as a panic of this driver: the expected layout is then simply not available)
        let mut layout_ok = true;
        for (idx, t) in &pre {
            if *idx >= total || slots[*idx].is_some() {
                layout_ok = false;
            } else {
                slots[*idx] = Some(*t);
            }
        }
        let mut it = sids.iter();
        let mut expect_missing = vec![];
        let mut positional: Vec<Option<usize>> = vec![];
        for (p, s) in slots.iter().enumerate() {
            match s {
                Some(t) => positional.push(Some(*t)),
                None => match it.next() {
                    Some(sid) => {
                        if recv.contains(sid) {
                            positional.push(Some(*sid));
                        } else {
                            positional.push(None);
                            expect_missing.push(p);
                        }
                    }
                    None => layout_ok = false,
                },
            }
        }
        let expect_missing_uncles: Vec<usize> = (0..n_uncles).filter(|i| !upeer.contains(i)).collect();
        match r {
            Err(e) => {
                out.oracle_fail("reconstruct-panic", &format!("{} panic={:?}", line, e.downcast_ref::<String>()));
                "panic".into()
            }
            Ok(ReconstructionResult::Block(b)) => {
                out.count("result-block");
                let ids: Vec<usize> = b.transactions().iter().map(|t| self.txs.iter().position(|x| x.hash() == t.hash() && x.witness_hash() == t.witness_hash()).unwrap_or(999)).collect();
                let same = b.hash() == cb.calc_header_hash();
                if !same {
                    out.oracle_fail(
                        "reconstruct-header-differs",
                        &format!("Block returned with hash {} but the compact header (the one whose PoW was verified) hashes to {}: {}", b.hash(), cb.calc_header_hash(), line),
                    );
                }
                let body_ok = committed.as_ref().map(|l| l == &ids).unwrap_or(false)
                    && b.data().proposals().as_slice() == cb.proposals().as_slice()
                    && b.uncle_hashes().into_iter().collect::<Vec<_>>() == uncle_hashes
                    && b.calc_transactions_root() == root_hash
                    && b.extension().map(|e| e.as_slice().to_vec()) == extension.as_ref().map(|e| e.as_slice().to_vec());
                if !body_ok {
                    out.oracle_fail("reconstruct-wrong-body", &format!("Block body differs from what the compact block commits to: txs={:?} {}", ids, line));
                }
                format!("block txs={} hdr={}", list(&ids), if same { "same" } else { "reset" })
            }
            Ok(ReconstructionResult::Missing(txs, us)) => {
                out.count("result-missing");
                if !layout_ok {
                    out.oracle_fail("reconstruct-missing-imprecise", &format!("Missing({:?},{:?}) for a compact block whose prefilled indexes cannot be laid out (the verifier let it through): {}", txs, us, line));
                } else if txs != expect_missing || us != expect_missing_uncles {
                    out.oracle_fail("reconstruct-missing-imprecise", &format!("Missing({:?},{:?}) expected ({:?},{:?}): {}", txs, us, expect_missing, expect_missing_uncles, line));
                }
                format!("missing txs={} uncles={}", list(&txs), list(&us))
            }
            Ok(ReconstructionResult::Collided) => {
                out.count("result-collided");
                "collided".into()
            }
            Ok(ReconstructionResult::Error(s)) => {
                out.count("result-error");
                match s.code() {
                    StatusCode::CompactBlockHasUnmatchedTransactionRootWithReconstructedBlock => "unmatched".into(),
                    StatusCode::CompactBlockHasInvalidUncle => "invalid-uncle".into(),
                    StatusCode::CompactBlockHasInvalidHeader => "invalid-header".into(),
                    c => format!("error-{}", c as u32),
                }
            }
        }
    }
}

impl World {
    fn simple_cb(&self, sids: &[usize], pre: &[(usize, usize)], n_uncles: usize) -> packed::CompactBlock {
        let header = HeaderBuilder::default().number(1u64).epoch(ckb_types::core::EpochNumberWithFraction::new(0, 1, 10).full_value()).timestamp(12345u64).build();
        packed::CompactBlock::new_builder()
            .header(header.data())
            .short_ids(packed::ProposalShortIdVec::new_builder().set(sids.iter().map(|i| self.txs[*i].proposal_short_id()).collect()).build())
            .prefilled_transactions(packed::IndexTransactionVec::new_builder().set(pre.iter().map(|(idx, t)| packed::IndexTransaction::new_builder().index(*idx as u32).transaction(self.txs[*t].data()).build()).collect()).build())
            .uncles(packed::Byte32Vec::new_builder().set(self.uncles.iter().take(n_uncles).map(|u| u.hash()).collect()).build())
            .build()
    }

    /// one `btxv` line on the real verifier
    fn btxv(&self, out: &mut Out, line: &str) -> String {
        let f = |k: &str| -> String { line.split(' ').find_map(|t| t.strip_prefix(&format!("{k}="))).unwrap_or_else(|| panic!("missing {k}")).to_string() };
        let sids = parse_list(&f("sids"));
        let pre: Vec<(usize, usize)> = if f("pre") == "-" { vec![] } else { f("pre").split(';').map(|p| { let (a, b) = p.split_once(':').expect("pre pair"); (a.parse().unwrap(), b.parse().unwrap()) }).collect() };
        let idx = parse_list(&f("idx"));
        let txs: Vec<TransactionView> = parse_list(&f("txs")).iter().map(|i| self.txs[*i].clone()).collect();
        let cb = self.simple_cb(&sids, &pre, 0);
        let indexes: Vec<u32> = idx.iter().map(|i| *i as u32).collect();
        let txs_len = sids.len() + pre.len();
        if idx.iter().any(|i| *i >= txs_len) {
            out.count("btxv-index-past-txs-len");
        }
        match catch_unwind(AssertUnwindSafe(|| verif_block_transactions_verify(&cb, &indexes, &txs))) {
            Err(e) => {
                out.oracle_fail("btx-verifier-panic", &format!("{} panic={:?}", line, e.downcast_ref::<String>()));
                "panic".into()
            }
            Ok(st) => match st.code() {
                StatusCode::OK => "ok".into(),
                StatusCode::BlockTransactionsLengthIsUnmatchedWithPendingCompactBlock => "length".into(),
                StatusCode::BlockTransactionsShortIdsAreUnmatchedWithPendingCompactBlock => "shortids".into(),
                c => format!("error-{}", c as u32),
            },
        }
    }

    /// one `unv` line: the real uncles verifier, then (on ok) the real reconstruct_block
    fn unv(&self, out: &mut Out, line: &str) -> String {
        let f = |k: &str| -> String { line.split(' ').find_map(|t| t.strip_prefix(&format!("{k}="))).unwrap_or_else(|| panic!("missing {k}")).to_string() };
        let n_uncles: usize = f("uncles").parse().unwrap();
        let idx = parse_list(&f("idx"));
        let recv: Vec<UncleBlockView> = parse_list(&f("recv")).iter().map(|j| self.uncles[*j].clone()).collect();
        let cb = self.simple_cb(&[], &[(0, 0)], n_uncles);
        let indexes: Vec<u32> = idx.iter().map(|i| *i as u32).collect();
        let st = match catch_unwind(AssertUnwindSafe(|| verif_block_uncles_verify(&cb, &indexes, &recv))) {
            Ok(st) => st,
            Err(e) => {
                out.oracle_fail("verify-panic", &format!("{} panic={:?}", line, e.downcast_ref::<String>()));
                return "panic".into();
            }
        };
        match st.code() {
            StatusCode::OK => {}
            StatusCode::BlockUnclesLengthIsUnmatchedWithPendingCompactBlock => return "length".into(),
            StatusCode::BlockUnclesAreUnmatchedWithPendingCompactBlock => return "unmatched".into(),
            c => return format!("error-{}", c as u32),
        }
        let active_chain = self.relayer.shared().active_chain();
        let r = catch_unwind(AssertUnwindSafe(|| self.rt.block_on(self.relayer.reconstruct_block(&active_chain, &cb, vec![], &indexes, &recv))));
        match r {
            Ok(_) => "ok total".into(),
            Err(e) => {
                let msg = e.downcast_ref::<String>().cloned().or_else(|| e.downcast_ref::<&str>().map(|s| s.to_string())).unwrap_or_default();
                out.oracle_fail("reconstruct-panic", &format!("{}: BlockUnclesVerifier::verify said ok and reconstruct_block panics ({})", line, msg));
                "ok panic".into()
            }
        }
    }
}

fn gen_btxv(rng: &mut Rng) -> String {
    let k = rng.range(1, 7) as usize;
    let mut pool: Vec<usize> = (0..N_TX).collect();
    rng.shuffle(&mut pool);
    let body: Vec<usize> = pool[..k].to_vec();
    let mut pre: Vec<(usize, usize)> = vec![(0, body[0])];
    for (i, t) in body.iter().enumerate().skip(1) {
        if rng.chance(1, 4) {
            pre.push((i, *t));
        }
    }
    let pre_idx: Vec<usize> = pre.iter().map(|p| p.0).collect();
    let short_pos: Vec<usize> = (0..k).filter(|i| !pre_idx.contains(i)).collect();
    let sids: Vec<usize> = short_pos.iter().map(|i| body[*i]).collect();
    // the indexes "requested": a subset of the short-id positions, in order …
    let mut idx: Vec<usize> = short_pos.iter().filter(|_| rng.chance(2, 3)).cloned().collect();
    let mut txs: Vec<usize> = idx.iter().map(|i| body[*i]).collect();
    // … or something another variant of the block would have produced
    match rng.below(10) {
        0 => idx.push(k),
        1 => idx.push(k + rng.range(1, 3) as usize),
        2 => idx.insert(0, *rng.pick(&[k, 1000, u32::MAX as usize])),
        3 if !pre_idx.is_empty() => {
            // a prefilled position (filter_map drops it)
            let p = pre_idx[rng.below(pre_idx.len() as u64) as usize];
            idx.push(p);
            idx.sort();
        }
        4 if !idx.is_empty() => {
            let d = idx[0];
            idx.push(d);
            txs.push(body[d]);
        }
        5 if idx.len() >= 2 => idx.swap(0, 1),
        _ => {}
    }
    match rng.below(8) {
        0 if !txs.is_empty() => {
            txs.pop();
        }
        1 => txs.push(pool[k % N_TX]),
        2 if txs.len() >= 2 => txs.swap(0, 1),
        3 if !txs.is_empty() => txs[0] = pool[(k + 1) % N_TX],
        _ => {}
    }
    let pre_s = pre.iter().map(|(a, b)| format!("{a}:{b}")).collect::<Vec<_>>().join(";");
    format!("btxv sids={} pre={} idx={} txs={}", list(&sids), pre_s, list(&idx), list(&txs))
}

fn gen_unv(rng: &mut Rng) -> String {
    let n = rng.below(4) as usize;
    let mut idx: Vec<usize> = (0..n).filter(|_| rng.chance(2, 3)).collect();
    let mut recv: Vec<usize> = idx.clone();
    match rng.below(8) {
        0 => idx.push(n),
        1 => idx.push(n + 5),
        2 if !idx.is_empty() => {
            let d = idx[0];
            idx.push(d);
            recv.push(d);
        }
        3 if idx.len() >= 2 => {
            idx.swap(0, 1);
            recv.swap(0, 1);
        }
        _ => {}
    }
    match rng.below(8) {
        0 | 1 if !recv.is_empty() => {
            recv.pop();
        }
        2 if !recv.is_empty() => recv.clear(),
        3 => recv.push(rng.below(3) as usize),
        4 if recv.len() >= 2 => recv.swap(0, 1),
        5 if !recv.is_empty() => recv[0] = (recv[0] + 1) % 3,
        _ => {}
    }
    format!("unv uncles={} idx={} recv={}", n, list(&idx), list(&recv))
}

fn gen_recon(rng: &mut Rng) -> String {
    // the block body the sender has in mind
    let k = rng.range(1, 7) as usize;
    let mut pool: Vec<usize> = (0..N_TX).collect();
    rng.shuffle(&mut pool);
    let body: Vec<usize> = pool[..k].to_vec();
    let others: Vec<usize> = pool[k..].to_vec();
    let mut pre: Vec<(usize, usize)> = vec![(0, body[0])];
    for (i, t) in body.iter().enumerate().skip(1) {
        if rng.chance(1, 4) {
            pre.push((i, *t));
        }
    }
    let pre_idx: Vec<usize> = pre.iter().map(|p| p.0).collect();
    let mut sids: Vec<usize> = body.iter().enumerate().filter(|(i, _)| !pre_idx.contains(i)).map(|(_, t)| *t).collect();
    let mut root = list(&body);
    match rng.below(12) {
        0 => root = "bad".into(),
        1 if k >= 2 => {
            // header commits to a different order
            let mut b2 = body.clone();
            b2.swap(0, k - 1);
            root = list(&b2);
        }
        2 => {
            // header commits to a body where one short-id transaction is another transaction
            let mut b2 = body.clone();
            let j = rng.below(k as u64) as usize;
            b2[j] = others[0];
            root = list(&b2);
        }
        3 => {
            // malformed prefilled list
            match rng.below(5) {
                0 => pre.remove(0).1,
                1 => {
                    pre.push((rng.below(3) as usize, others[1]));
                    0
                }
                2 => {
                    pre.push((k + rng.range(0, 3) as usize, others[1]));
                    0
                }
                3 => {
                    pre[0].0 = 1;
                    0
                }
                _ => {
                    pre.clear();
                    0
                }
            };
        }
        4 if !sids.is_empty() => {
            let d = sids[rng.below(sids.len() as u64) as usize];
            sids.push(d);
        }
        5 if !sids.is_empty() && pre.len() >= 1 => {
            // a (non-cellbase) prefilled transaction that is also listed by short id
            let s = sids[0];
            pre.push((k, s));
        }
        _ => {}
    }
    // what the receiver has
    let mut recv: Vec<usize> = vec![];
    let avail = rng.below(4);
    for s in &sids {
        if avail == 0 || (avail < 3 && rng.chance(2, 3)) {
            recv.push(*s);
        }
    }
    if rng.chance(1, 3) {
        recv.push(others[2]);
    }
    if rng.chance(1, 6) && !recv.is_empty() {
        recv.push(recv[0]);
    }
    if rng.chance(1, 5) && pre.len() > 0 {
        recv.push(pre[0].1);
    }
    rng.shuffle(&mut recv);
    let n_uncles = *rng.pick(&[0usize, 0, 0, 1, 2]);
    let upeer: Vec<usize> = (0..n_uncles).filter(|_| rng.chance(3, 4)).collect();
    let pre_s = if pre.is_empty() { "-".to_string() } else { pre.iter().map(|(a, b)| format!("{a}:{b}")).collect::<Vec<_>>().join(";") };
    format!(
        "recon root={} ph={} eh={} sids={} pre={} recv={} uncles={} upeer={} ext={} props={}",
        root,
        if rng.chance(5, 6) { "ok" } else { "bad" },
        if rng.chance(5, 6) { "ok" } else { "bad" },
        list(&sids),
        pre_s,
        list(&recv),
        n_uncles,
        list(&upeer),
        rng.below(2),
        rng.below(4)
    )
}

// ------------------------------------------------------------------------------------------------
// frames

fn dec_line(out: &mut Out, known_valid: bool, frame: &[u8]) {
    let op = format!("dec {} {}", if known_valid { "v" } else { "u" }, hex(frame));
    let r = catch_unwind(AssertUnwindSafe(|| decompress(ckb_network::bytes::BytesMut::from(frame))));
    let flagged = !frame.is_empty() && frame[0] & 0x80 != 0;
    let ans = match r {
        Err(_) => {
            out.oracle_fail("frame-panic", &format!("decompress panics on {}", hex(&frame[..frame.len().min(64)])));
            "panic".to_string()
        }
        Ok(Ok(data)) => {
            // the declared bound: nothing larger than 8 MB comes out of a compressed frame, and an
            // uncompressed frame yields exactly its own payload
            if flagged && data.len() > (1 << 23) {
                out.oracle_fail("frame-unbounded", &format!("decompress returned {} bytes", data.len()));
            }
            if !flagged && data[..] != frame[1..] {
                out.oracle_fail("frame-raw", "uncompressed frame payload changed");
            }
            if flagged { if known_valid { format!("snappy {}", data.len()) } else { "flagged".into() } } else { format!("raw {}", data.len()) }
        }
        Ok(Err(_)) => {
            if flagged && !known_valid { "flagged".into() } else { "err".into() }
        }
    };
    out.count(&format!("dec-{}", ans.split(' ').next().unwrap()));
    out.op(&op, &ans);
}

fn varint(mut n: u64) -> Vec<u8> {
    let mut v = vec![];
    while n >= 0x80 {
        v.push((n as u8 & 0x7f) | 0x80);
        n >>= 7;
    }
    v.push(n as u8);
    v
}

fn frame_case(out: &mut Out, rng: &mut Rng, thorough: bool) {
    out.begin_case("frame");
    // compress decision around the threshold, and round trip through the real pair
    for len in [0usize, 1, 1022, 1023, 1024, 1025, 2000, rng.range(0, 3000) as usize] {
        let src: Vec<u8> = (0..len).map(|i| (i % 7) as u8).collect();
        let f = compress(ckb_network::bytes::Bytes::from(src.clone()));
        out.op(&format!("cmp {}", len), if f[0] & 0x80 != 0 { "snappy" } else { "raw" });
        match decompress(ckb_network::bytes::BytesMut::from(&f[..])) {
            Ok(d) if d[..] == src[..] => {}
            _ => out.oracle_fail("frame-roundtrip", &format!("decompress(compress(x)) != x for len {}", len)),
        }
        if len <= 2000 {
            dec_line(out, true, &f);
        }
        out.count("cmp");
    }
    // declared lengths around the 8 MB bound with a (necessarily inconsistent) tiny body: too big must
    // be refused before decoding; within the bound the decoder fails on the body → labelled unknown
    for n in [(1u64 << 23) - 1, 1 << 23, (1 << 23) + 1, u32::MAX as u64, u32::MAX as u64 + 1, u64::MAX] {
        let mut f = vec![0x80u8];
        f.extend_from_slice(&varint(n));
        f.extend_from_slice(&[0x00, 0x41]);
        dec_line(out, n > (1 << 23), &f);
    }
    // malformed varints / empty frames / flag variants
    let frames: Vec<Vec<u8>> = vec![
        vec![],
        vec![0x00],
        vec![0x80],
        vec![0x7f, 1, 2, 3],
        vec![0x01, 9],
        vec![0x80, 0x80],
        vec![0x80, 0xff, 0xff, 0xff, 0xff, 0xff, 0xff, 0xff, 0xff, 0xff, 0xff, 0x01],
        vec![0xff, 0x03, 0x08, b'a', b'b', b'c'],
        vec![0x80, 0x03, 0x08, b'a', b'b', b'c'],
        vec![0xc1, 0x00],
    ];
    for f in frames {
        let valid = f == vec![0x80, 0x03, 0x08, b'a', b'b', b'c'] || f == vec![0xff, 0x03, 0x08, b'a', b'b', b'c'] || f.is_empty() || f[0] & 0x80 == 0 || f == vec![0xc1, 0x00];
        dec_line(out, valid, &f);
    }
    for _ in 0..10 {
        let n = rng.range(1, 30) as usize;
        let mut f: Vec<u8> = (0..n).map(|_| rng.next() as u8).collect();
        if rng.chance(1, 2) {
            f[0] |= 0x80;
        }
        dec_line(out, f[0] & 0x80 == 0, &f);
    }
    if thorough {
        // a real 8 MB and 8 MB + 1 payload (snappy of zeros is small)
        for len in [1usize << 23, (1 << 23) + 1] {
            let f = compress(ckb_network::bytes::Bytes::from(vec![0u8; len]));
            dec_line(out, true, &f);
        }
    }
    out.nontrivial(format!("frame-{}", rng.next() % 1000));
}


/// corpus files are offered to every stream of the property: a file whose header names another
/// stream (`# property Cnn stream <name>`) is not for us → empty, successful run
fn foreign_corpus(path: &std::path::Path, stream: &str) -> bool {
    let txt = std::fs::read_to_string(path).expect("read replay");
    for l in txt.lines() {
        if let Some(rest) = l.strip_prefix("# property ") {
            let ts: Vec<&str> = rest.split(' ').collect();
            if ts.len() >= 3 && ts[1] == "stream" {
                return ts[2] != stream;
            }
        }
    }
    false
}

pub fn run(opts: &Opts) {
    let stream = opts.extra.first().map(|s| s.as_str()).unwrap_or("cb").to_string();
    let mut out = Out::new(&opts.out);
    if let Some(p) = &opts.replay {
        if foreign_corpus(p, &stream) {
            out.finish("corpus file of another stream");
            return;
        }
    }
    if stream == "codec" {
        codec::run(opts, out);
        return;
    }
    if stream == "recv" {
        recv::run(opts, out);
        return;
    }
    if stream == "proto" {
        proto::run(opts, out);
        return;
    }
    let mut rng = Rng::new(opts.seed ^ 0xcb16);
    if stream == "frame" {
        std::panic::set_hook(Box::new(|_| {}));
        if let Some(p) = &opts.replay {
            for l in read_replay_ops(p) {
                let ts: Vec<&str> = l.split(' ').collect();
                match ts[0] {
                    "case" => {
                        out.begin_case(&ts[2..].join(" "));
                    }
                    "dec" => dec_line(&mut out, ts[1] == "v", &crate_unhex(ts[2])),
                    "cmp" => {
                        let len: usize = ts[1].parse().unwrap();
                        let f = compress(ckb_network::bytes::Bytes::from(vec![1u8; len]));
                        out.op(&l, if f[0] & 0x80 != 0 { "snappy" } else { "raw" });
                    }
                    other => panic!("C16 frame replay: unknown op {other}"),
                }
            }
        } else {
            let rounds = if opts.thorough() { 400 } else { 20 } * opts.scale;
            for r in 0..rounds {
                frame_case(&mut out, &mut rng, opts.thorough() && r == 0);
            }
        }
        out.finish("frame: one sweep of compress-threshold lengths, 8 MB-bound headers, malformed varints and random frames");
        return;
    }
    // never dropped: dropping the node joins the chain-service threads, which do not stop on their own (a
    // panic of this driver must end the process, not hang it)
    let w = std::mem::ManuallyDrop::new(World::new(&opts.out));
    if let Some(p) = &opts.replay {
        for l in read_replay_ops(p) {
            if l.starts_with("case ") {
                out.begin_case(l.splitn(3, ' ').nth(2).unwrap_or(""));
            } else if l.starts_with("recon ") {
                let ans = w.recon(&mut out, &l);
                out.op(&l, &ans);
            } else if l.starts_with("btxv ") {
                let ans = w.btxv(&mut out, &l);
                out.op(&l, &ans);
            } else if l.starts_with("unv ") {
                let ans = w.unv(&mut out, &l);
                out.op(&l, &ans);
            } else {
                eprintln!("C16 cb replay: unknown op {l}");
                std::process::exit(3);
            }
        }
    } else {
        let cases = if opts.thorough() { 150000 } else { 6000 } * opts.scale;
        for _ in 0..cases {
            out.begin_case("recon");
            let l = gen_recon(&mut rng);
            let ans = w.recon(&mut out, &l);
            out.nontrivial(format!("{}", ans));
            out.op(&l, &ans);
        }
        // the BlockTransactions verifiers and the uncle indexing of reconstruct_block
        for _ in 0..cases / 3 {
            out.begin_case("btxv");
            let l = gen_btxv(&mut rng);
            let ans = w.btxv(&mut out, &l);
            out.count(&format!("btxv-{}", ans));
            out.nontrivial(format!("btxv-{}", ans));
            out.op(&l, &ans);
            out.begin_case("unv");
            let l = gen_unv(&mut rng);
            let ans = w.unv(&mut out, &l);
            out.count(&format!("unv-{}", ans.replace(' ', "-")));
            out.nontrivial(format!("unv-{}", ans));
            out.op(&l, &ans);
        }
    }
    out.finish("cb: one compact block (consistent, lying about the root, or malformed) with one set of received transactions / uncles; fingerprint = the canonical answer");
    // the chain / tx-pool service threads never stop on their own: remove the scratch directory and
    // leave through exit without dropping the node
    let _ = std::fs::remove_dir_all(&w._node.dir);
    std::process::exit(0);
}

fn crate_unhex(s: &str) -> Vec<u8> {
    if s == "-" {
        return vec![];
    }
    let b = s.as_bytes();
    (0..b.len() / 2).map(|i| u8::from_str_radix(std::str::from_utf8(&b[2 * i..2 * i + 2]).unwrap(), 16).expect("hex")).collect()
}
